"""Shared machinery for the dirk TLA+ verification checks: TLC / Apalache runners, cfg generation,
harness build, driver invocation, evidence and verdict helpers."""
import hashlib, json, os, random, re, shutil, subprocess, sys, tempfile, time

VERIF = os.path.dirname(os.path.dirname(os.path.abspath(__file__)))
REPO = os.environ.get("VERIF_REPO", "/repo")   # VERIF_REPO: development aid (a scratch worktree with a seeded change); registered commands never set it
SPEC = os.path.join(VERIF, "spec")
BUILD = os.path.join(VERIF, "build")
WORKROOT = os.path.join(VERIF, ".work")
GOENV = dict(os.environ, GOFLAGS="-mod=mod", GOPROXY="off", GOSUMDB="off", GOTOOLCHAIN="local",
             CGO_ENABLED="1")
NCPU = os.cpu_count() or 4


class Inconclusive(Exception):
    """The machinery could not reach a verdict (exit 2, never a violation)."""


# --------------------------------------------------------------------------- work dirs
def workdir(tag):
    os.makedirs(WORKROOT, exist_ok=True)
    d = tempfile.mkdtemp(prefix=tag + "-", dir=WORKROOT)
    return d


def cleanup(d):
    shutil.rmtree(d, ignore_errors=True)


# --------------------------------------------------------------------------- cfg generation
class Raw(str):
    """A TLA+ expression to be placed verbatim in a cfg file."""


def tla_value(v):
    if isinstance(v, Raw):
        return str(v)
    if isinstance(v, bool):
        return "TRUE" if v else "FALSE"
    if isinstance(v, int):
        return str(v)
    if isinstance(v, str):
        return '"%s"' % v
    if isinstance(v, (set, frozenset)):
        return "{" + ", ".join(sorted(tla_value(x) for x in v)) + "}"
    if isinstance(v, (list, tuple)):
        return "<<" + ", ".join(tla_value(x) for x in v) + ">>"
    raise TypeError(v)


def make_cfg(constants, invariants=(), properties=(), spec="Spec", init=None, next_=None, view=None,
             constraint=None, action_constraint=None, postcondition=None, deadlock=False, symmetry=None):
    lines = []
    if init:
        lines += ["INIT " + init, "NEXT " + next_]
    else:
        lines.append("SPECIFICATION " + spec)
    if view:
        lines.append("VIEW " + view)
    if constraint:
        lines.append("CONSTRAINT " + constraint)
    if action_constraint:
        lines.append("ACTION_CONSTRAINT " + action_constraint)
    if postcondition:
        lines.append("POSTCONDITION " + postcondition)
    if symmetry:
        lines.append("SYMMETRY " + symmetry)
    lines.append("CHECK_DEADLOCK " + ("TRUE" if deadlock else "FALSE"))
    if constants:
        lines.append("CONSTANTS")
        for k, v in constants.items():
            if isinstance(v, Raw) and str(v).startswith("<-"):
                lines.append("  %s %s" % (k, v))
            else:
                lines.append("  %s = %s" % (k, tla_value(v)))
    if invariants:
        lines.append("INVARIANTS " + " ".join(invariants))
    if properties:
        lines.append("PROPERTIES " + " ".join(properties))
    return "\n".join(lines) + "\n"


# --------------------------------------------------------------------------- TLC
class TlcResult:
    def __init__(self):
        self.ok = False            # completed without any error
        self.violated = None       # name of violated invariant / property, "deadlock", or None
        self.error = None          # other error text (parse error, runtime error, timeout)
        self.generated = 0
        self.distinct = 0
        self.depth = 0
        self.out = ""
        self.trace = None          # parsed -dumpTrace json (list of states) if any
        self.wall = 0.0

    def __repr__(self):
        return "TlcResult(ok=%s violated=%s error=%s gen=%d distinct=%d)" % (
            self.ok, self.violated, (self.error or "")[:80], self.generated, self.distinct)


def tlc(module, cfg_text, wd, name=None, workers=None, timeout=900, extra=(), dump_trace=True,
        files=(), java_opts=None, simulate=None, depth=None, seed=None):
    """Run TLC on SPEC/<module>.tla with the given cfg text inside wd (a scratch dir)."""
    name = name or module
    rundir = os.path.join(wd, name)
    os.makedirs(rundir, exist_ok=True)
    for f in os.listdir(SPEC):
        if f.endswith(".tla"):
            shutil.copy(os.path.join(SPEC, f), rundir)
    for f in files:
        shutil.copy(f, rundir)
    with open(os.path.join(rundir, name + ".cfg"), "w") as fh:
        fh.write(cfg_text)
    cmd = ["timeout", str(timeout), "tlc", "-workers", str(workers or NCPU), "-metadir",
           os.path.join(rundir, "meta"), "-config", name + ".cfg", "-noGenerateSpecTE"]
    tracefile = os.path.join(rundir, "trace.json")
    if dump_trace and not simulate:
        cmd += ["-dumpTrace", "json", tracefile]
    if simulate:
        cmd += ["-simulate", simulate]
    if depth:
        cmd += ["-depth", str(depth)]
    if seed is not None:
        cmd += ["-seed", str(seed)]
    cmd += list(extra) + [module + ".tla"]
    env = dict(os.environ)
    jtmp = os.path.join(rundir, "jtmp")       # keep the JVM's scratch files (tlc-*, SANY*) inside the run directory
    os.makedirs(jtmp, exist_ok=True)
    env["JAVA_TOOL_OPTIONS"] = ((java_opts + " ") if java_opts else "") + "-Djava.io.tmpdir=" + jtmp
    t0 = time.time()
    p = subprocess.run(cmd, cwd=rundir, env=env, stdout=subprocess.PIPE, stderr=subprocess.STDOUT, text=True)
    r = TlcResult()
    r.wall = time.time() - t0
    r.out = p.stdout
    with open(os.path.join(rundir, "tlc.out"), "w") as fh:
        fh.write(p.stdout)
    m = re.findall(r"(\d+) states generated, (\d+) distinct states found", p.stdout)
    if m:
        r.generated, r.distinct = int(m[-1][0]), int(m[-1][1])
    m = re.search(r"depth of the complete state graph search is (\d+)", p.stdout)
    if m:
        r.depth = int(m.group(1))
    if p.returncode == 124:
        r.error = "timeout after %ds" % timeout
        return r
    m = re.search(r"Error: Invariant (\S+) is violated", p.stdout)
    if m:
        r.violated = m.group(1)
    elif re.search(r"Error: Action property (\S+)", p.stdout):
        r.violated = re.search(r"Error: Action property (\S+)", p.stdout).group(1)
    elif "Temporal properties were violated" in p.stdout:
        r.violated = "temporal"
    elif "Error: Deadlock reached" in p.stdout:
        r.violated = "deadlock"
    elif re.search(r"Postcondition \S+ .*is false", p.stdout, re.S) or "Error: The postcondition" in p.stdout:
        r.violated = "postcondition"
    elif "Model checking completed. No error has been found." in p.stdout or \
            (simulate and p.returncode == 0):
        r.ok = True
    elif re.search(r"Error:", p.stdout) or p.returncode != 0:
        em = re.search(r"Error: (.*)", p.stdout)
        r.error = (em.group(1) if em else "exit %d" % p.returncode)
    else:
        r.ok = True
    if r.violated and os.path.exists(tracefile):
        try:
            r.trace = json.load(open(tracefile))
        except Exception:
            r.trace = None
    return r


def apalache(module_path, constants, init, inv, length, wd, name, timeout=900, next_="Next"):
    """Run apalache-mc check; returns (ok, violated, counterexample states or None)."""
    rundir = os.path.join(wd, name)
    os.makedirs(rundir, exist_ok=True)
    shutil.copy(module_path, rundir)
    mod = os.path.basename(module_path)
    with open(os.path.join(rundir, "a.cfg"), "w") as fh:
        for k, v in constants.items():
            fh.write("CONSTANT %s = %s\n" % (k, tla_value(v)))
        fh.write("INIT Init\nNEXT Next\n")
    out = os.path.join(rundir, "out")
    p = subprocess.run(["timeout", str(timeout), "apalache-mc", "check", "--config=a.cfg", "--init=" + init, "--next=" + next_, "--inv=" + inv, "--length=%d" % length,
                        "--out-dir=" + out, mod], cwd=rundir, stdout=subprocess.PIPE, stderr=subprocess.STDOUT, text=True)
    if "EXITCODE: OK" in p.stdout:
        return True, False, None
    if "EXITCODE: ERROR (12)" in p.stdout:
        states = None
        for root, _, files in os.walk(out):
            if "violation1.itf.json" in files:
                states = json.load(open(os.path.join(root, "violation1.itf.json")))["states"]
        return False, True, states
    raise Inconclusive("apalache failed on %s: %s" % (mod, p.stdout[-600:]))


def tlaps(module_path, wd, timeout=900):
    """Check a TLAPS proof (tlapm) in a scratch copy; returns (all_proved, number of obligations, output tail)."""
    rundir = os.path.join(wd, "tlaps_" + os.path.basename(module_path)[:-4])
    os.makedirs(rundir, exist_ok=True)
    shutil.copy(module_path, rundir)
    p = subprocess.run(["timeout", str(timeout), "tlapm", "--threads", str(min(NCPU, 8)), "--cleanfp", os.path.basename(module_path)], cwd=rundir,
                       stdout=subprocess.PIPE, stderr=subprocess.STDOUT, text=True)
    m = re.search(r"All (\d+) obligations? proved", p.stdout)
    return bool(m) and p.returncode == 0, int(m.group(1)) if m else 0, p.stdout[-600:]


def require_ok(r, what):
    if not r.ok:
        raise Inconclusive("%s: shipped model configuration did not pass TLC: violated=%s error=%s" %
                           (what, r.violated, r.error))


def require_killed(r, what, expected=None):
    if r.violated is None:
        raise Inconclusive("%s: design mutant survived TLC (ok=%s error=%s) - invariant or bounds too weak" %
                           (what, r.ok, r.error))
    if expected and r.violated not in expected:
        raise Inconclusive("%s: mutant killed by unexpected property %s (expected %s)" % (what, r.violated, expected))


# --------------------------------------------------------------------------- harness build / driver
_built = {}


def build_harness(target="dirkdrv"):
    """(Re)build a harness command from /repo's current working tree with the verif tag."""
    if target in _built:
        return _built[target]
    os.makedirs(BUILD, exist_ok=True)
    hdir = os.path.join(VERIF, "harness")
    import fcntl
    scratch = None
    with open(os.path.join(BUILD, ".lock"), "w") as lk:
        fcntl.flock(lk, fcntl.LOCK_EX)      # several checks may run at the same time
        if REPO != "/repo":
            # the harness module replaces the dirk module by /repo: build a private copy that points at the other tree
            scratch = os.path.join(BUILD, "harness.%d.%s" % (os.getpid(), target))
            shutil.rmtree(scratch, ignore_errors=True)
            shutil.copytree(hdir, scratch)
            gm = open(os.path.join(scratch, "go.mod")).read().replace("=> /repo", "=> " + REPO)
            open(os.path.join(scratch, "go.mod"), "w").write(gm)
            hdir = scratch
        src = open(os.path.join(REPO, "go.sum")).read()
        dst = os.path.join(hdir, "go.sum")
        if not os.path.exists(dst) or open(dst).read() != src:
            with open(dst + ".tmp", "w") as fh:
                fh.write(src)
            os.replace(dst + ".tmp", dst)
        # build into a private file, then rename: a running check keeps executing its own copy
        out = os.path.join(BUILD, "%s.%d" % (target, os.getpid()))
        # VERIF_COVER (development aid): build with coverage instrumentation of the repository's packages; the drivers then write
        # coverage data to $GOCOVERDIR, which shows the code that no check ever executes
        cover = ["-cover", "-coverpkg=verifharness/...,github.com/attestantio/dirk/..."] if os.environ.get("VERIF_COVER") and target != "ptkill" else []
        p = subprocess.run(["go1.26", "build", "-tags", "verif"] + cover + ["-o", out, "./cmd/" + target], cwd=hdir, env=GOENV,
                           stdout=subprocess.PIPE, stderr=subprocess.STDOUT, text=True)
        if scratch:
            shutil.rmtree(scratch, ignore_errors=True)
        if p.returncode != 0:
            raise Inconclusive("harness build failed (does /repo still compile?):\n" + p.stdout[-3000:])
    import atexit
    atexit.register(lambda f=out: os.path.exists(f) and os.remove(f))
    _built[target] = out
    return out


def build_dirk(verif=False):
    """Build the real dirk binary from /repo (tag off: the shipped program; verif=True: the same program with the observation
    points compiled in, used only to RECORD traces of it)."""
    key = "dirk.verif" if verif else "dirk"
    if key in _built:
        return _built[key]
    os.makedirs(BUILD, exist_ok=True)
    out = os.path.join(BUILD, "%s.%d" % (key, os.getpid()))
    cover = ["-cover", "-coverpkg=github.com/attestantio/dirk/..."] if os.environ.get("VERIF_COVER") else []
    p = subprocess.run(["go", "build"] + cover + (["-tags", "verif"] if verif else []) + ["-o", out, "."], cwd=REPO, env=GOENV,
                       stdout=subprocess.PIPE, stderr=subprocess.STDOUT, text=True)
    if p.returncode != 0:
        raise Inconclusive("dirk build failed:\n" + p.stdout[-3000:])
    import atexit
    atexit.register(lambda f=out: os.path.exists(f) and os.remove(f))
    _built[key] = out
    return out


def fork_decorated(sc):
    """The 28 bytes after a signing domain's type (fork version, genesis validators root) are not looked at by any rule; over a
    validator's lifetime they change.  In every other scenario (chosen by a digest of its id) the requests alternate between three
    such 'forks', so that a request and the conflicting request that follows it differ in them; the rest keep one fork throughout."""
    import zlib
    if not isinstance(sc, dict) or not sc.get("ops") or zlib.crc32(str(sc.get("id", "")).encode()) % 2 == 0:
        return sc
    out = dict(sc)
    n = [0]

    def deco(ops):
        res = []
        for op in ops:
            op = dict(op)
            if op.get("ops"):
                op["ops"] = deco(op["ops"])
            elif op.get("ents") is not None and "fork" not in op:
                op["fork"] = n[0] % 3
                n[0] += 1
            res.append(op)
        return res
    out["ops"] = deco(sc["ops"])
    return out


def endpoint_decorated(sc):
    """A validator's attestations reach Dirk through two endpoints - one request at a time, or a batch (of any size, one included).
    In every third scenario (chosen by a digest of its id) every second single attestation request is sent as a batch of ONE through
    the batch endpoint: the same entry, the same expected verdict, the same record - but the other endpoint's code on the way."""
    import zlib
    if not isinstance(sc, dict) or not sc.get("ops") or zlib.crc32(("ep" + str(sc.get("id", ""))).encode()) % 3 != 1:
        return sc
    out = dict(sc)
    n = [0]

    def deco(ops):
        res = []
        for op in ops:
            op = dict(op)
            if op.get("ops"):
                op["ops"] = deco(op["ops"])
            elif op.get("kind") == "att" and len(op.get("ents") or []) == 1 and not op.get("level") and op.get("by") != "both" and op["ents"][0].get("by") != "both":
                n[0] += 1
                if n[0] % 2 == 0:
                    op["kind"] = "atts"
            res.append(op)
        return res
    out["ops"] = deco(sc["ops"])
    return out


def run_driver(scenarios, wd, tag="drv", timeout=600, target="dirkdrv", env=None, allow_exit=(0,), dirk=None, keep=None):
    """Run the child driver on a list of scenarios; returns (events, returncode).  dirk: path of the real dirk binary - the scenarios
    are then run against the shipped program over TLS (signing ops, restart = SIGKILL + new process, kill_after_us)."""
    exe = build_harness(target)
    sf = os.path.join(wd, tag + ".scenarios.json")
    of = os.path.join(wd, tag + ".trace.ndjson")
    if target == "dirkdrv":
        scenarios = [endpoint_decorated(fork_decorated(sc)) for sc in scenarios]
    with open(sf, "w") as fh:
        json.dump(scenarios, fh)
    e = dict(os.environ)
    e["TMPDIR"] = wd
    if env:
        e.update(env)
    try:
        p = subprocess.run([exe, "-scenarios", sf, "-out", of] + (["-dirk", dirk] if dirk else []), cwd=wd, env=e, stdout=subprocess.PIPE,
                           stderr=subprocess.PIPE, text=True, timeout=timeout)
        rc, err = p.returncode, p.stderr
    except subprocess.TimeoutExpired:
        rc, err = -99, "driver timeout"
    events = []
    if os.path.exists(of):
        for line in open(of):
            line = line.strip()
            if line:
                try:
                    ev_ = json.loads(line)
                except Exception:
                    continue  # torn last line after a kill
                if keep is None or ev_.get("ev") in keep:      # (keep: event kinds the caller projects; the rest is not held in memory)
                    events.append(ev_)
    if rc not in allow_exit and rc != -9:
        if rc not in allow_exit:
            pass
    return events, rc, err


def run_driver_parallel(scenarios, wd, tag="drv", nproc=4, timeout=600, target="dirkdrv", keep=None):
    """Independent sequential scenarios spread over several driver processes (contiguous chunks, so that neighbouring scenarios
    share the world cache).  Returns (events, worst return code, stderr of the failing child)."""
    from concurrent.futures import ThreadPoolExecutor
    build_harness(target)
    nproc = max(1, min(nproc, len(scenarios)))
    size = (len(scenarios) + nproc - 1) // nproc
    chunks = [scenarios[i:i + size] for i in range(0, len(scenarios), size)]
    with ThreadPoolExecutor(len(chunks)) as ex:
        res = list(ex.map(lambda ic: run_driver(ic[1], wd, tag="%s_%d" % (tag, ic[0]), timeout=timeout, target=target, keep=keep), enumerate(chunks)))
    events, rc, err = [], 0, ""
    for ev, r, e in res:
        events += ev
        if r != 0 and rc == 0:
            rc, err = r, e
    return events, rc, err


def run_driver_parallel_bin(scenarios, wd, dirk, nproc=6, timeout=900):
    """Scenarios against the real dirk binary, spread over several driver processes (each scenario starts its own dirk)."""
    from concurrent.futures import ThreadPoolExecutor
    build_harness("dirkdrv")
    nproc = max(1, min(nproc, len(scenarios)))
    chunks = [scenarios[i::nproc] for i in range(nproc)]
    with ThreadPoolExecutor(len(chunks)) as ex:
        res = list(ex.map(lambda ic: run_driver(ic[1], wd, tag="bin_%d" % ic[0], timeout=timeout, dirk=dirk), enumerate(chunks)))
    events, rc, err = [], 0, ""
    for ev, r, e in res:
        events += ev
        if r != 0 and rc == 0:
            rc, err = r, e
    return events, rc, err


def stable_sample(items, n, seed):
    """The behaviours printed by several simulation workers arrive in an order that depends on timing: sort them, then take a
    seeded sample, so that the same seed always replays the same set."""
    items = sorted(items, key=lambda x: json.dumps(x, sort_keys=True))
    random.Random(seed).shuffle(items)
    return items[:n]


def split_scenarios(events):
    """Group events by scenario id (Begin .. End)."""
    out, cur, cid = {}, None, None
    for ev in events:
        if ev.get("ev") == "Begin":
            cid, cur = ev["sc"], []
            out[cid] = cur
        if cur is not None:
            cur.append(ev)
    return out


# --------------------------------------------------------------------------- concretisations
U63 = 2 ** 63
U64 = 2 ** 64


def concretisations(maxi, seed, n_random=1):
    """Order-preserving injections g: 0..2*maxi+1 -> uint64 with g(0)=0, g(maxi) <= 2^63-1 < g(maxi+1)
    and g(2*maxi+1) = 2^64-1 (so that the abstract wrap to -1 is the real one).  Always includes
    the two adjacent maps; plus seeded random ones."""
    n = maxi + 1
    lowadj = list(range(n))                                   # 0,1,2,...
    highadj = [0] + [U63 - n + i for i in range(1, n)]        # 0, ..., 2^63-2, 2^63-1
    up_lo = [U63 + i for i in range(n - 1)] + [U64 - 1]       # 2^63, 2^63+1, ..., 2^64-1
    up_hi = [U64 - n + i for i in range(n)]                   # ..., 2^64-2, 2^64-1
    out = [("adjacent-low", lowadj + up_lo), ("adjacent-high", highadj + up_hi)]
    rnd = random.Random(seed)
    for i in range(n_random):
        lo = [0] + sorted(rnd.sample(range(1, U63), n - 1))
        hi = sorted(rnd.sample(range(U63, U64 - 1), n - 1)) + [U64 - 1]
        out.append(("random-%d" % i, lo + hi))
    return [(name, [str(v) for v in vals]) for name, vals in out]


# --------------------------------------------------------------------------- verdict / evidence
def load_known():
    p = os.path.join(VERIF, "known_findings.json")
    try:
        return json.load(open(p)).get("findings", [])
    except Exception:
        return []


def save_replay(prop, obj):
    d = os.path.join(VERIF, "replays", prop)
    os.makedirs(d, exist_ok=True)
    blob = json.dumps(obj, sort_keys=True, indent=1)
    h = hashlib.sha256(blob.encode()).hexdigest()[:12]
    path = os.path.join(d, h + ".json")
    with open(path, "w") as fh:
        fh.write(blob)
    return path


def write_evidence(prop, tier, seed, level, coverage, wall, violations=0, assumptions=()):
    d = os.environ.get("VERIF_EVIDENCE_DIR") or os.path.join(VERIF, "evidence")   # (mutation runs redirect their evidence)
    os.makedirs(d, exist_ok=True)
    ev = {"property_id": prop, "tier": tier, "seed": int(seed), "level": level, "coverage": coverage,
          "assumptions": list(assumptions), "wall_s": round(wall, 2), "violations": int(violations)}
    text = json.dumps(ev, indent=1, sort_keys=True, default=lambda o: sorted(o) if isinstance(o, (set, frozenset)) else str(o))
    tmp = os.path.join(d, prop + ".json.tmp")
    with open(tmp, "w") as fh:
        fh.write(text)
    os.replace(tmp, os.path.join(d, prop + ".json"))
    return ev


class Verdict:
    """Collects violations for one property; prints VIOLATION / KNOWN-FINDING lines."""

    ALL = []               # every Verdict of this process: an INCONCLUSIVE later phase must not hide a violation already on record

    def __init__(self, prop):
        Verdict.ALL.append(self)
        self.finished = False
        self.prop = prop
        self.violations = []   # (signature, description, replay_obj)
        self.known_hits = []
        self.notes = []

    def violation(self, signature, description, replay_obj):
        for k in load_known():
            if k.get("property") == self.prop and k.get("signature") and k["signature"] in signature:
                self.known_hits.append((k, description))
                return
        self.violations.append((signature, description, replay_obj))

    def finish(self):
        self.finished = True
        for k, d in self.known_hits[:50]:
            print("KNOWN-FINDING: property=%s %s" % (self.prop, k.get("what", k.get("signature"))))
        shown = set()
        for sig, desc, obj in self.violations:
            path = save_replay(self.prop, {"property": self.prop, "signature": sig, "description": desc, "replay": obj})
            if len(shown) < 20:
                print("VIOLATION property=%s replay=%s" % (self.prop, path))
                print("  " + desc[:600])
                shown.add(path)
        return 1 if self.violations else 0

"""Lock state of accounts and wallets (LockState.tla): spec -> code replay and code -> spec trace validation.

Model side : LockState.tla exhaustively (MCLock: 2 initial accounts with different passphrases, 1 creatable, unlocker knowing one
             passphrase, permitted and unpermitted client): TypeOK, SignedOnlyUnlocked, UnlockedIsOpened, OpenedRightly; the documented
             deviation (re-unlock with any passphrase after a first unlock) must be FOUND as a counterexample of UnlockNeedsOwnPass.
Code side  : LockSim behaviours replayed through the real handlers (permdrv: AccountManager Lock/Unlock/Generate, WalletManager
             Lock/Unlock, Signer, restart on the same wallet store and slashing database).
Verdict    : LockTrace.SpecP (NoSigUnopened, RefusedNoChange) - used by C06; LockTrace.SpecD acceptance is DRIFT."""
import json, os, re
from vlib import *
from concurrent.futures import ThreadPoolExecutor

CONSTS = dict(Initial=Raw("<- MCInitial"), Creatable=Raw("<- MCCreatable"), PassOf0=Raw("<- MCPassOf0"), Known=Raw("<- MCKnown"),
              Passes=Raw("<- MCPasses"), Clients=Raw("<- MCClients"), Allowed=Raw("<- MCAllowed"))
PASSES = {"a0": "pass", "a1": "other"}
KIND = {"sign": "att", "unlockacct": "unlockacct", "lockacct": "lockacct", "lockwallet": "lockwallet", "unlockwallet": "unlockwallet", "create": "create", "restart": "restart"}


def model_phase(wd, info):
    r = tlc("MCLock", make_cfg(CONSTS, invariants=["TypeOK", "SignedOnlyUnlocked", "UnlockedIsOpened"], properties=["OpenedRightly"], constraint="Bounded"), wd, name="MCLock", timeout=900)
    require_ok(r, "LockState")
    info["states"] += r.distinct
    info["transitions"] += r.generated
    rm = tlc("MCLock", make_cfg(CONSTS, properties=["UnlockNeedsOwnPass"], constraint="Bounded"), wd, name="MCLock_dev", timeout=900)
    require_killed(rm, "LockState deviation (UnlockNeedsOwnPass must have a counterexample)", ["UnlockNeedsOwnPass"])
    info["model_runs"].append(dict(module="LockState", invariants=["TypeOK", "SignedOnlyUnlocked", "UnlockedIsOpened", "OpenedRightly"], distinct=r.distinct, generated=r.generated,
                                   documented_deviation="UnlockNeedsOwnPass has the counterexample unlock(right) - lock - unlock(wrong)"))


def gen_behaviours(n, depth, seed, wd):
    workers = min(NCPU, 8)
    per = (n + workers - 1) // workers
    c = dict(CONSTS, Depth=depth)
    r = tlc("MCLockSim", make_cfg(c, spec="SimSpec"), wd, name="MCLockSim", workers=workers, simulate="num=1", depth=(depth + 1) * per, seed=seed, timeout=600)
    if r.error or r.violated:
        raise Inconclusive("LockSim failed: %s %s" % (r.error, r.violated))
    out = []
    for line in r.out.splitlines():
        m = re.match(r'<<"HIST", "(.*)">>$', line)
        if m:
            out.append(json.loads(m.group(1).replace('\\"', '"')))
    if not out:
        raise Inconclusive("LockSim produced no behaviours")
    return stable_sample(out, n, seed)


def scenario_for(h, sid):
    ops = []
    epoch = {}
    for i, st in enumerate(h):
        k = KIND[st["op"]]
        op = dict(id="o%d" % i, kind=k, client=st["c"] if st["c"] != "" else "c1", wallet="W1", acct=st["a"])
        if k == "att":
            epoch[st["a"]] = epoch.get(st["a"], 0) + 2
            op["epoch"] = epoch[st["a"]]
        if st["p"]:
            op["pass"] = st["p"]
        ops.append(op)
    world = dict(wallets=[dict(name="W1", type="nd", accounts=[dict(name="a0", key=0, **{"pass": "pass"}), dict(name="a1", key=1, **{"pass": "other"})])],
                 unlocker_passphrases=["pass"], perms=[dict(client="c1", perms=[dict(path="W1", ops=["All"])])])
    return dict(id=sid, world=world, ops=ops)


def run_permdrv(inp, wd, tag):
    exe = build_harness("permdrv")
    f = os.path.join(wd, tag + ".in.json")
    o = os.path.join(wd, tag + ".out.ndjson")
    json.dump(inp, open(f, "w"))
    import subprocess
    p = subprocess.run([exe, "-scenarios", f, "-out", o], cwd=wd, env=dict(os.environ, TMPDIR=wd), stdout=subprocess.PIPE, stderr=subprocess.PIPE, text=True, timeout=900)
    evs = [json.loads(l) for l in open(o)] if os.path.exists(o) else []
    return evs, p.returncode, p.stderr


def project(evs, hists, lines, index, drift):
    cur, start, passes, hist, k = None, None, None, None, 0
    for e in evs:
        if e["ev"] == "Begin":
            cur = e["sc"]
            start = len(lines) + 1
            passes = dict(PASSES)
            hist = hists[cur]
            k = 0
            lines.append(dict(ev="Begin", sc=cur))
        elif e["ev"] == "PermOp":
            st = hist[k]
            k += 1
            m = re.match(r"(SUCCEEDED|DENIED|FAILED|UNKNOWN)", e.get("detail") or "")
            res = "SUCCEEDED" if e["served"] else (m.group(1) if m else "DENIED")
            if e["kind"] == "restart":
                res = "SUCCEEDED"
            if st["op"] == "create" and res == "SUCCEEDED":
                passes[st["a"]] = st["p"]
            locks = e.get("locks") or {}
            unlocked = sorted(a for a, u in locks.items() if u and a != "W1")
            exists = sorted(a for a in locks if a != "W1")
            lines.append(dict(ev="Op", op=st["op"], c=st["c"], a=st["a"], p=st["p"], res=res, unlocked=unlocked, wunlocked=bool(locks.get("W1")), exists=exists, passes=dict(passes)))
            want = (st["res"], sorted(st["unlocked"]), bool(st["wunlocked"]), sorted(st["exists"]))
            got = (res, unlocked, bool(locks.get("W1")), exists)
            if want != got and len(drift) < 10:
                drift.append(dict(scenario=cur, step=k - 1, op=st, expected=want, got=got))
        elif e["ev"] == "End":
            index.append((start, len(lines), cur))


PINV = {"C06": ["NoSigUnopened"], "C07": ["RefusedNoChange"]}


def validate(lines, wd, layer, prop=None):
    name = "LockTrace" + layer
    rundir = os.path.join(wd, name)
    os.makedirs(rundir, exist_ok=True)
    with open(os.path.join(rundir, "trace.ndjson"), "w") as fh:
        for ln in lines:
            fh.write(json.dumps(ln) + "\n")
    c = dict(CONSTS, TraceFile="trace.ndjson")
    inv = PINV.get(prop, ["NoSigUnopened", "RefusedNoChange"]) if layer == "P" else ["TypeOK", "SignedOnlyUnlocked", "UnlockedIsOpened"]
    # LockTrace extends LockState; the constant values live in LockConsts, which the wrapper module brings in
    r = tlc("MCLockTrace", make_cfg(c, spec="Spec" + layer, invariants=inv, constraint="HighWater", postcondition="Accepted"), wd, name=name, workers=1, timeout=900, dump_trace=False,
            java_opts="-Dtlc2.tool.queue.IStateQueue=StateDeque -Xss64m")
    m = re.findall(r"/\\ l = (\d+)", r.out)
    return r, (int(m[-1]) if m else 0)


def phase(tier, seed, wd, info, verdict, prop):
    """Returns coverage dict; adds violations (layer P) to verdict; DRIFT (layer D) is returned in the dict."""
    model_phase(wd, info)
    n = 60 if tier == "quick" else 600
    behs = gen_behaviours(n, 14, seed, wd)
    hists = {"%s-lock-%d" % (prop, i): h for i, h in enumerate(behs)}
    scs = [scenario_for(h, sid) for sid, h in hists.items()]
    chunks = [scs[i::8] for i in range(8) if scs[i::8]]
    with ThreadPoolExecutor(max_workers=8) as ex:
        outs = list(ex.map(lambda a: run_permdrv(dict(check_cases=[], scenarios=a[1]), wd, "lock%d" % a[0]), enumerate(chunks)))
    lines, index, drift = [], [], []
    for evs, rc, err in outs:
        if rc != 0:
            raise Inconclusive("permdrv (lock state) exited %s: %s" % (rc, err[-300:]))
        project(evs, hists, lines, index, drift)
    nsig = sum(1 for ln in lines if ln["ev"] == "Op" and ln["op"] == "sign" and ln["res"] == "SUCCEEDED")
    nden = sum(1 for ln in lines if ln["ev"] == "Op" and ln["op"] == "sign" and ln["res"] != "SUCCEEDED")
    if nsig < 20 or nden < 5:
        raise Inconclusive("lock-state replay looks vacuous: %d signatures, %d refused signing requests" % (nsig, nden))
    rp, pos = validate(lines, wd, "P", prop)
    info["states"] += rp.distinct
    info["transitions"] += rp.generated
    if not rp.ok:
        if rp.violated in ("NoSigUnopened", "RefusedNoChange"):
            sid = None
            for a, b, s in index:
                if a <= pos - 1 <= b + 1:
                    sid = s
            seg = [lines[a - 1:b] for a, b, s in index if s == sid]
            verdict.violation("%s:%s" % (rp.violated, json.dumps(lines[pos - 2], sort_keys=True)[:160] if pos >= 2 else sid),
                              "lock state: %s violated by %s" % (rp.violated, lines[pos - 2] if pos >= 2 else "?"),
                              dict(lock=True, scenario=[s for s in scs if s["id"] == sid][0] if sid else None, history=hists.get(sid), trace=seg[0] if seg else [], invariant=rp.violated))
        else:
            raise Inconclusive("LockTrace (layer P) validation failed: %s %s" % (rp.violated, rp.error))
    rd, dpos = validate(lines, wd, "D")
    info["states"] += rd.distinct
    info["transitions"] += rd.generated
    ddrift = None
    if not rd.ok:
        ddrift = dict(note="recorded lock-state run is not a behaviour of LockState.tla", line=dpos, at=lines[dpos - 2] if dpos >= 2 else None)
    # binding self-test: an altered outcome must be rejected by layer D, a signature of a never-opened account by layer P
    self_d = self_p = None
    if rd.ok and rp.ok:
        a_, b_, _ = next((x for x in index if any(ln["ev"] == "Op" and ln["op"] == "sign" and ln["res"] == "SUCCEEDED" for ln in lines[x[0] - 1:x[1]])), index[0])
        c1 = [json.loads(json.dumps(x)) for x in lines[a_ - 1:b_]]
        for x in c1:
            if x["ev"] == "Op" and x["op"] == "sign" and x["res"] == "SUCCEEDED":
                x["unlocked"] = [u for u in x["unlocked"] if u != x["a"]]
                break
        self_d = not validate(c1, wd, "D")[0].ok
        c2 = [dict(ev="Begin", sc="self"), dict(ev="Op", op="sign", c="c1", a="a1", p="", res="SUCCEEDED", unlocked=["a1"], wunlocked=False, exists=["a0", "a1"], passes=PASSES)]
        rr, _ = validate(c2, wd, "P")
        self_p = (not rr.ok) and rr.violated == "NoSigUnopened"
        if not (self_d and self_p):
            raise Inconclusive("lock-state binding self-test failed (D rejected: %s, P rejected: %s)" % (self_d, self_p))
    return dict(behaviours=len(behs), operations=sum(1 for ln in lines if ln["ev"] == "Op"), signatures=nsig, refused_signing=nden, accepted_by_LockState=rd.ok,
                drift=drift[:5] + ([ddrift] if ddrift else []), drift_count=len(drift) + (1 if ddrift else 0), binding_selftest=dict(layer_d_rejects_altered_state=self_d, layer_p_rejects_unopened_signature=self_p))


def replay(prop, path):
    obj = json.load(open(path))["replay"]
    wd = workdir(prop + "-replay")
    try:
        sc = obj["scenario"]
        evs, rc, err = run_permdrv(dict(check_cases=[], scenarios=[sc]), wd, "replay")
        lines, index, drift = [], [], []
        project(evs, {sc["id"]: obj["history"]}, lines, index, drift)
        for ln in lines:
            print(json.dumps(ln)[:300])
        r, pos = validate(lines, wd, "P", prop)
        if r.ok:
            print("replay: run accepted (%s hold)" % ", ".join(PINV.get(prop, [])))
            return 0
        if r.violated in ("NoSigUnopened", "RefusedNoChange"):
            print("VIOLATION property=%s replay=%s" % (prop, path))
            return 1
        return 2
    finally:
        cleanup(wd)

"""C19 (nothing is served without a certificate from the configured authority; identity = verified subject name) and
C20 (no client request can crash the daemon).

Model side : Api.tla (admission decision table, methods x credential kinds), ApiTable.tla (the complete matrix as JSON),
             ApiShapes.tla (C20: per-method field-shape classes, enumerated pairwise-complete or fully by TLC).
Code side  : the repository's REAL gRPC service (services/api/grpc) listening on 127.0.0.1 with TLS material minted by
             the harness; every cell is exercised over a real connection (C19); every shape message is concretised,
             sent over the wire from an authenticated client and followed by a liveness probe (C20).
Verdict    : ApiTrace.tla (NoServiceWithoutCA, IdentityIsCN); for C20 the directly observed fact "the server process
             died / stopped answering while handling a client message"."""
import json, os, random, subprocess, time
from vlib import *

DIAL = {"plaintext": "plaintext", "tlsnocert": "tls-nocert", "selfsignedc1": "selfsigned-c1", "othercac1": "otherca-c1", "othercasigner2": "otherca-signer-2",
        "expiredc1": "expired-c1", "validc1": "valid-c1", "validc2": "valid-c2", "validnobody": "valid-nobody", "validsigner2": "valid-signer-2",
        "validc2plusselfsignedc1": "valid-c2+selfsigned-c1", "validc2plusothercac1": "valid-c2+otherca-c1",
        "validc1plusselfsignedsigner2": "valid-c1+selfsigned-signer-2"}


def run_apidrv(plan, wd, tag, timeout=900):
    exe = build_harness("apidrv")
    f = os.path.join(wd, tag + ".in.json")
    o = os.path.join(wd, tag + ".out.ndjson")
    json.dump(plan, open(f, "w"))
    try:
        p = subprocess.run([exe, "-scenarios", f, "-out", o], cwd=wd, env=dict(os.environ, TMPDIR=wd), stdout=subprocess.PIPE, stderr=subprocess.PIPE, text=True, timeout=timeout)
        rc, err = p.returncode, p.stderr
    except subprocess.TimeoutExpired:
        rc, err = -99, "timeout"
    evs = []
    if os.path.exists(o):
        for l in open(o):
            try:
                evs.append(json.loads(l))
            except Exception:
                pass
    return evs, rc, err


def run_c19(tier, seed):
    prop = "C19"
    t0 = time.time()
    wd = workdir(prop)
    verdict = Verdict(prop)
    try:
        r = tlc("ApiTable", make_cfg(dict(OutFile="cells.json")), wd, name="ApiTable", workers=1)
        require_ok(r, "ApiTable")
        cells = json.load(open(os.path.join(wd, "ApiTable", "cells.json")))["cells"]
        cells = sorted(cells, key=lambda c: (c["cred"], c["method"], c["target"]))
        # a peer prepares the session that Execute / Commit / Contribute / Abort cells refer to
        calls = [dict(id="setup", cred="valid-signer-2", method="DKG.Prepare", target="c1", epoch=0)]
        # order: refused credentials first (they must change nothing), then valid ones
        order = sorted(cells, key=lambda c: (c["admitted"], c["cred"], c["method"] in ("AccountManager.Lock", "WalletManager.Lock"), c["method"], c["target"]))
        for i, c in enumerate(order):
            calls.append(dict(id="c%d" % i, cred=DIAL[c["cred"]], method=c["method"], target=c["target"], epoch=10 * (i + 1)))
        reps = 1 if tier == "quick" else 3
        evs_all = []
        for rep in range(reps):
            evs, rc, err = run_apidrv(dict(calls=calls), wd, "c19_%d" % rep)
            if rc != 0:
                raise Inconclusive("apidrv exited %s: %s" % (rc, err[-400:]))
            evs_all += evs
        inv = {v: k for k, v in DIAL.items()}
        lines = []
        served = refused = 0
        for e in evs_all:
            if e["ev"] != "ApiCall" or e["id"] == "setup":
                continue
            lines.append(dict(ev="ApiCall", id=e["id"], cred=inv[e["cred"]], method=e["method"], target=e["target"], outcome=e["outcome"], data=bool(e["data"]), detail=e["detail"][:80]))
            served += bool(e["data"])
            refused += e["outcome"] == "transport"
        if served < 20 or refused < 50:
            raise Inconclusive("matrix replay looks vacuous: %d cells obtained data, %d refused at transport" % (served, refused))
        rundir = os.path.join(wd, "ApiTrace")
        os.makedirs(rundir, exist_ok=True)
        with open(os.path.join(rundir, "trace.ndjson"), "w") as fh:
            for ln in lines:
                fh.write(json.dumps(ln) + "\n")
        invs = ["NoServiceWithoutCA", "IdentityIsCN"]
        tr = tlc("ApiTrace", make_cfg(dict(TraceFile="trace.ndjson"), invariants=invs, constraint="HighWater", postcondition="Accepted"), wd, name="ApiTrace", workers=1, timeout=600, dump_trace=False)
        if not tr.ok:
            if tr.violated in invs:
                import re
                m = re.findall(r"/\\ l = (\d+)", tr.out)
                pos = int(m[-1]) if m else 0
                ln = lines[pos - 2] if pos >= 2 else {}
                verdict.violation("%s:%s:%s" % (tr.violated, ln.get("cred"), ln.get("method")),
                                  "call over real TLS %s violates %s" % (ln, tr.violated), dict(call=ln, calls=[c for c in calls if c["id"] in ("setup", ln.get("id"))], invariant=tr.violated))
            else:
                raise Inconclusive("ApiTrace validation failed: %s %s" % (tr.violated, tr.error))
        rc = verdict.finish()
        cov = dict(states=r.distinct + tr.distinct, transitions=len(cells) + tr.generated, traces_validated_against_impl=len(lines),
                   samples=lines[:3] + [l for l in lines if l["data"]][:2], cells=len(cells), cells_obtaining_data=served, cells_refused_at_transport=refused,
                   credential_kinds=sorted(DIAL), exhaustive=True, checker_cmd="tlc ApiTable / ApiTrace; harness cmd/apidrv (real services/api/grpc over TLS on 127.0.0.1)")
        write_evidence(prop, tier, seed, "model_checking", cov, time.time() - t0, violations=len(verdict.violations),
                       assumptions=["the model is a finite decision table; TLC's contribution is the completeness of the matrix and the judgement of the recorded calls",
                                    "Go's crypto/tls and gRPC transport are trusted; certificates are ECDSA P-256 minted by the harness"])
        return rc
    finally:
        cleanup(wd)


def run(prop, tier, seed):
    if prop == "C19":
        return run_c19(tier, seed)
    import fuzzfamily
    return fuzzfamily.run(prop, tier, seed)


def replay(prop, path):
    obj = json.load(open(path))["replay"]
    wd = workdir(prop + "-replay")
    try:
        if "messages" in obj:
            evs, rc, err = run_apidrv(dict(calls=[], fuzz=obj["messages"]), wd, "replay")
            for e in evs[-6:]:
                print(json.dumps(e)[:400])
            print(err[:1500])
            if rc != 0:
                print("VIOLATION property=C20 replay=%s" % path)
                return 1
            return 0
        evs, rc, err = run_apidrv(dict(calls=obj["calls"]), wd, "replay")
        for e in evs:
            print(json.dumps(e)[:400])
        return 0 if rc == 0 else 2
    finally:
        cleanup(wd)

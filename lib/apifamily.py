"""C19 (nothing is served without a certificate from the configured authority; identity = verified subject name) and
C20 (no client request can crash the daemon).

Model side : Api.tla (admission decision table, methods x credential kinds), ApiTable.tla (the complete matrix as JSON),
             ApiShapes.tla (C20: per-method field-shape classes, enumerated pairwise-complete or fully by TLC).
Code side  : the repository's REAL gRPC service (services/api/grpc) listening on 127.0.0.1 with TLS material minted by
             the harness; every cell is exercised over a real connection (C19); every shape message is concretised,
             sent over the wire from an authenticated client and followed by a liveness probe (C20).
Verdict    : ApiTrace.tla (NoServiceWithoutCA, IdentityIsCN); for C20 the directly observed fact "the server process
             died / stopped answering while handling a client message"."""
import json, os, random, subprocess, time
from vlib import *

DIAL = {"plaintext": "plaintext", "tlsnocert": "tls-nocert", "selfsignedc1": "selfsigned-c1", "othercac1": "otherca-c1", "othercasigner2": "otherca-signer-2", "publiccac1": "publicca-c1", "publiccasigner2": "publicca-signer-2",
        "expiredc1": "expired-c1", "ticketothercac1": "ticket-otherca-c1", "ticketothercasigner2": "ticket-otherca-signer-2", "validc1": "valid-c1", "validc2": "valid-c2", "validnobody": "valid-nobody", "validsigner2": "valid-signer-2",
        "validc2sanc1": "valid-c2~san-c1", "validnobodysansigner2": "valid-nobody~san-signer-2", "validupperc1": "valid-C1", "validc1dotted": "valid-c1.partner.example", "validc1trailingdot": "valid-c1.", "validsigner2dotted": "valid-signer-2.partner.example",
        "validc2plusselfsignedc1": "valid-c2+selfsigned-c1", "validc2plusothercac1": "valid-c2+otherca-c1",
        "validc1plusselfsignedsigner2": "valid-c1+selfsigned-signer-2",
        "validc2afterc1": "valid-c2@after-valid-c1", "validc1afterc2": "valid-c1@after-valid-c2", "validnobodyaftersigner2": "valid-nobody@after-valid-signer-2"}


def run_apidrv(plan, wd, tag, timeout=900, dirk=None):
    """dirk: path of the real dirk binary - the calls are then served by the shipped program (own config reading and wiring)."""
    exe = build_harness("apidrv")
    f = os.path.join(wd, tag + ".in.json")
    o = os.path.join(wd, tag + ".out.ndjson")
    json.dump(plan, open(f, "w"))
    try:
        p = subprocess.run([exe, "-scenarios", f, "-out", o] + (["-dirk", dirk] if dirk else []), cwd=wd, env=dict(os.environ, TMPDIR=wd), stdout=subprocess.PIPE, stderr=subprocess.PIPE, text=True, timeout=timeout)
        rc, err = p.returncode, p.stderr
    except subprocess.TimeoutExpired:
        rc, err = -99, "timeout"
    evs = []
    if os.path.exists(o):
        for l in open(o):
            try:
                evs.append(json.loads(l))
            except Exception:
                pass
    return evs, rc, err


def matrix_phase(prop, tier, wd, verdict, select=None, min_served=20, min_refused=50):
    """The method x credential x target x server-set-up matrix of Api.tla over real TLS, judged by ApiTrace.
    select: optional predicate on cells (C16 uses the key-generation methods only)."""
    r = tlc("ApiTable", make_cfg(dict(OutFile="cells.json")), wd, name="ApiTable", workers=1)
    require_ok(r, "ApiTable")
    cells = json.load(open(os.path.join(wd, "ApiTable", "cells.json")))["cells"]
    if select:
        cells = [c for c in cells if select(c)]
    cells = sorted(cells, key=lambda c: (c["server"], c["cred"], c["method"], c["target"]))
    modes = sorted({c["server"] for c in cells})
    reps = 1 if tier == "quick" else 3
    evs_all = []
    calls_by_id = {}
    for mi, mode in enumerate(modes):
        # a peer prepares the session that Execute / Commit / Contribute / Abort cells refer to
        calls = [dict(id="setup", cred="valid-signer-2", method="DKG.Prepare", target="c1", epoch=0)]
        # order: refused credentials first (they must change nothing), then valid ones
        order = sorted([c for c in cells if c["server"] == mode], key=lambda c: (c["admitted"], c["cred"], c["method"] in ("AccountManager.Lock", "WalletManager.Lock"), c["method"], c["target"]))
        if tier == "quick" and mode != "bare" and not select:
            # the other server set-ups: every refused credential in full, the admitted ones for the listing and one signing method
            order = [c for c in order if not c["admitted"] or c["method"] in ("Lister.ListAccounts", "Signer.Sign", "DKG.Abort")]
        for i, c in enumerate(order):
            call = dict(id="%s-c%d" % (mode, i), cred=DIAL[c["cred"]], method=c["method"], target=c["target"], epoch=10 * (i + 1), server=mode)
            calls.append(call)
            calls_by_id[call["id"]] = call
        for rep in range(reps):
            evs, rc, err = run_apidrv(dict(calls=calls, server_mode=mode), wd, "%s_%d_%d" % (prop.lower(), mi, rep))
            if rc != 0:
                raise Inconclusive("apidrv (%s) exited %s: %s" % (mode, rc, err[-400:]))
            evs_all += evs
        # the same cells against the SHIPPED PROGRAM: the real dirk binary started on a configuration file, certificate files and a
        # filesystem wallet store written by the harness (main.go's reading of certificates, permissions, peers and passphrases included)
        bcalls = [calls[0]] + [dict(c, id="bin-" + c["id"]) for c in calls[1:]]
        for c in bcalls[1:]:
            calls_by_id[c["id"]] = c
        evs, rc, err = run_apidrv(dict(calls=bcalls, server_mode=mode), wd, "%s_%d_bin" % (prop.lower(), mi), dirk=build_dirk())
        if rc != 0:
            raise Inconclusive("apidrv against the dirk binary (%s) exited %s: %s" % (mode, rc, err[-400:]))
        nbin = sum(1 for e in evs if e["ev"] == "ApiCall" and e["id"] != "setup")
        if nbin != len(bcalls) - 1:
            raise Inconclusive("the dirk binary answered %d of %d calls" % (nbin, len(bcalls) - 1))
        evs_all += evs
    # the two clients send the SAME listings at the same time (in-process and against the binary): whatever a response CONTAINS
    # is judged like any other cell - sharing work between identical requests must not share the answer across identities
    race_ms = 1500 if tier == "quick" else 6000
    for bin_ in (False, True):
        evs, rc, err = run_apidrv(dict(calls=[], list_race_ms=race_ms), wd, "%s_race_%d" % (prop.lower(), bin_), dirk=build_dirk() if bin_ else None)
        if rc != 0:
            raise Inconclusive("apidrv (concurrent identical listings) exited %s: %s" % (rc, err[-400:]))
        n = [e["responses"] for e in evs if e["ev"] == "ListRace"]
        if not n or n[0] < 40:
            raise Inconclusive("concurrent identical listings: only %s responses" % n)
        evs_all += evs
    inv = {v: k for k, v in DIAL.items()}
    lines = []
    served = refused = 0
    for e in evs_all:
        if e["ev"] != "ApiCall" or e["id"] == "setup":
            continue
        lines.append(dict(ev="ApiCall", id=e["id"], cred=inv[e["cred"]], method=e["method"], target=e["target"], outcome=e["outcome"], data=bool(e["data"]), detail=e["detail"][:80],
                          server=calls_by_id.get(e["id"], {}).get("server", "bare")))
        served += bool(e["data"])
        refused += e["outcome"] == "transport"
    if served < min_served or refused < min_refused:
        raise Inconclusive("matrix replay looks vacuous: %d cells obtained data, %d refused at transport" % (served, refused))
    rundir = os.path.join(wd, "ApiTrace")
    os.makedirs(rundir, exist_ok=True)
    with open(os.path.join(rundir, "trace.ndjson"), "w") as fh:
        for ln in lines:
            fh.write(json.dumps(ln) + "\n")
    invs = ["NoServiceWithoutCA", "IdentityIsCN"]
    tr = tlc("ApiTrace", make_cfg(dict(TraceFile="trace.ndjson"), invariants=invs, constraint="HighWater", postcondition="Accepted"), wd, name="ApiTrace", workers=1, timeout=600, dump_trace=False)
    if not tr.ok:
        if tr.violated in invs:
            import re
            m = re.findall(r"/\\ l = (\d+)", tr.out)
            pos = int(m[-1]) if m else 0
            ln = lines[pos - 2] if pos >= 2 else {}
            verdict.violation("%s:%s:%s" % (tr.violated, ln.get("cred"), ln.get("method")),
                              "call over real TLS %s violates %s" % (ln, tr.violated), dict(call=ln, api=True, server_mode=ln.get("server", "bare"), calls=[dict(id="setup", cred="valid-signer-2", method="DKG.Prepare", target="c1", epoch=0)] +
                                   [c for c in calls_by_id.values() if c["id"] == ln.get("id")], invariant=tr.violated,
                                   list_race_ms=3 * race_ms if str(ln.get("id", "")).startswith("race-") else 0))
        else:
            raise Inconclusive("ApiTrace validation failed: %s %s" % (tr.violated, tr.error))
    return dict(states=r.distinct + tr.distinct, transitions=len(cells) + tr.generated, lines=lines, cells=len(cells), served=served, refused=refused, modes=modes)


def run_c19(tier, seed):
    prop = "C19"
    t0 = time.time()
    wd = workdir(prop)
    verdict = Verdict(prop)
    try:
        m = matrix_phase(prop, tier, wd, verdict)
        lines = m["lines"]
        rc = verdict.finish()
        cov = dict(states=m["states"], transitions=m["transitions"], traces_validated_against_impl=len(lines),
                   samples=lines[:3] + [l for l in lines if l["data"]][:2], cells=m["cells"], cells_obtaining_data=m["served"], cells_refused_at_transport=m["refused"],
                   credential_kinds=sorted(DIAL), server_certificate_setups=m["modes"], exhaustive=True, served_by=["in-process services/api/grpc", "the dirk binary (config file, certificate files, filesystem wallets)"],
                   checker_cmd="tlc ApiTable / ApiTrace; harness cmd/apidrv (real services/api/grpc over TLS on 127.0.0.1, in-process and as the real dirk binary)")
        write_evidence(prop, tier, seed, "model_checking", cov, time.time() - t0, violations=len(verdict.violations),
                       assumptions=["the model is a finite decision table; TLC's contribution is the completeness of the matrix and the judgement of the recorded calls",
                                    "Go's crypto/tls and gRPC transport are trusted; certificates are ECDSA P-256 minted by the harness"])
        return rc
    finally:
        cleanup(wd)


def run(prop, tier, seed):
    if prop == "C19":
        return run_c19(tier, seed)
    import fuzzfamily
    return fuzzfamily.run(prop, tier, seed)


def replay(prop, path):
    obj = json.load(open(path))["replay"]
    wd = workdir(prop + "-replay")
    try:
        if "cluster" in obj:
            import dkgfamily
            evs, rc, err = dkgfamily.run_dkgdrv([obj["cluster"]], wd, "replay", timeout=1500, dirk=build_dirk())
            cl = [e for e in evs if e["ev"] == "Call"]
            silent = [e for e in cl if e.get("noanswer") or e.get("crashed")]
            for e in cl[:2] + silent[:3] + cl[-3:]:
                print(json.dumps(e)[:400])
            if not cl:
                print(err[-400:])
                return 2
            if silent:
                print("VIOLATION property=C20 replay=%s" % path)
                return 1
            print("replay: %d requests, every one answered, every instance alive" % len(cl))
            return 0
        if "storm" in obj:
            bad = 0
            for attempt in range(3):
                evs, rc, err = run_apidrv(dict(calls=[], storm=obj["storm"]), wd, "replay%d" % attempt, timeout=1500)
                for e in evs:
                    if e["ev"] == "Storm":
                        print(json.dumps(e)[:400])
                bad += rc == 3 or (rc == 2 and ("fatal error:" in err or "panic:" in err) and "attestantio/dirk/" in err)
            if bad:
                print("VIOLATION property=C20 replay=%s" % path)
                return 1
            return 0
        if "messages" in obj:
            evs, rc, err = run_apidrv(dict(calls=[], fuzz=obj["messages"]), wd, "replay", dirk=build_dirk() if obj.get("binary") else None)
            for e in evs[-6:]:
                print(json.dumps(e)[:400])
            print(err[:1500])
            if rc != 0:
                print("VIOLATION property=C20 replay=%s" % path)
                return 1
            return 0
        binary = any(str(c.get("id", "")).startswith("bin-") for c in obj["calls"])
        evs, rc, err = run_apidrv(dict(calls=obj["calls"], server_mode=obj.get("server_mode", "bare"), list_race_ms=obj.get("list_race_ms", 0)), wd, "replay", dirk=build_dirk() if binary else None)
        if rc != 0:
            print(err[-400:])
            return 2
        inv = {v: k for k, v in DIAL.items()}
        lines = []
        for e in evs:
            print(json.dumps(e)[:400])
            if e["ev"] == "ApiCall" and e["id"] != "setup":
                lines.append(dict(ev="ApiCall", id=e["id"], cred=inv[e["cred"]], method=e["method"], target=e["target"], outcome=e["outcome"], data=bool(e["data"]), detail=e["detail"][:80]))
        rundir = os.path.join(wd, "ApiTrace")
        os.makedirs(rundir, exist_ok=True)
        with open(os.path.join(rundir, "trace.ndjson"), "w") as fh:
            for ln in lines:
                fh.write(json.dumps(ln) + "\n")
        invs = ["NoServiceWithoutCA", "IdentityIsCN"]
        tr = tlc("ApiTrace", make_cfg(dict(TraceFile="trace.ndjson"), invariants=invs, constraint="HighWater", postcondition="Accepted"), wd, name="ApiTrace", workers=1, timeout=600, dump_trace=False)
        if tr.ok:
            print("replay: calls accepted by ApiTrace (%s hold)" % ", ".join(invs))
            return 0
        if tr.violated in invs:
            print("VIOLATION property=%s replay=%s" % (prop, path))
            return 1
        return 2
    finally:
        cleanup(wd)

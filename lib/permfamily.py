"""C07: operations are served only when the client's permissions allow them.

Model side : Perms.tla (Decide: ordered entries, whole-name case-insensitive match, first bearing item wins, default
             deny) and PermTable.tla: TLC enumerates the complete match table (pattern x name), the complete item-list
             table (list x operation) and every sequence of up to three abstract entries (matches?, verdict).
Code side  : (A) every table row is replayed on the real static checker (transition-complete replay);
             (B) configurations built from the composition table are installed in a real world (4 wallets x 2 accounts)
             and every operation kind is attempted through the real handlers by name, by public key and with both
             supplied and pointing at different accounts.
Verdict    : (A) a row where the real checker says "allowed" and Decide says "refused" (C07 is a safety property; the
             converse is reported as DRIFT); (B) PermTrace.tla on the recorded run: ServedOnlyIfAllowed, RefusedNoChange."""
import json, os, random, subprocess, time
from concurrent.futures import ThreadPoolExecutor
from vlib import *

OPNAME = {"gen": "Sign", "att": "Sign beacon attestation", "prop": "Sign beacon proposal", "list": "Access account", "lockacct": "Lock account",
          "unlockacct": "Unlock account", "create": "Create account", "lockwallet": "Lock wallet", "unlockwallet": "Unlock wallet"}
WALLETS = ["Wallet1", "Wallet2", "Wallet10", "xWallet2"]
ACCTS = ["acc", "Acc1"]


def gen_tables(wd):
    r = tlc("PermTable", make_cfg(dict(OutFile="perm.json")), wd, name="PermTable", workers=1)
    require_ok(r, "PermTable")
    return json.load(open(os.path.join(wd, "PermTable", "perm.json"))), r


def expressible(sc):
    """A configuration FILE maps path -> operations per client (keys are lower-cased by the configuration library): two entries with
    the same path cannot both be written down.  Only such configurations are sent to the real binary."""
    for cp in sc["world"].get("perms", []):
        paths = [pe["path"].lower() for pe in cp["perms"]]
        if len(paths) != len(set(paths)):
            return False
    return True


def unexplained(out, index, lines):
    """A trace whose runs against the real binary are judged by guards is rejected by not being consumable: the high-water mark says
    where.  Returns (scenario id, trace line) when that place lies in a run against the binary, else None."""
    import re as _re
    m = _re.findall(r'"HIGHWATER", (\d+)', out)
    if not m:
        return None
    pos = int(m[-1])
    for a, b, sid in index:
        if a <= pos <= b + 1 and sid.endswith("-bin"):
            return sid, lines[pos - 1] if 0 < pos <= len(lines) else None
    return None


def run_permdrv(inp, wd, tag, dirk=None):
    """dirk: path of the real dirk binary - the scenarios' permission entries then go into its configuration file and the operations
    are sent to it over TLS with the client's certificate."""
    exe = build_harness("permdrv")
    f = os.path.join(wd, tag + ".in.json")
    o = os.path.join(wd, tag + ".out.ndjson")
    json.dump(inp, open(f, "w"))
    p = subprocess.run([exe, "-scenarios", f, "-out", o] + (["-dirk", dirk] if dirk else []), cwd=wd, env=dict(os.environ, TMPDIR=wd), stdout=subprocess.PIPE, stderr=subprocess.PIPE, text=True, timeout=1200)
    evs = [json.loads(l) for l in open(o) if l.strip()] if os.path.exists(o) else []
    return evs, p.returncode, p.stderr


def path_of(wre, are):
    return wre if are == "" else wre + "/" + are


def concretise(seq, tables, rnd, wallet="Wallet1", account="acc", op="Sign"):
    """Turn an abstract entry sequence into concrete entries (pattern ids + item lists) for the target request."""
    pats = {}
    for row in tables["match"]:
        pats.setdefault(row["p"], {"re": row["re"], "m": set()})
        if row["m"]:
            pats[row["p"]]["m"].add(row["name"])
    wp = [p for p in pats if p != "empty"]
    w_yes = [p for p in wp if wallet in pats[p]["m"]]
    w_no = [p for p in wp if wallet not in pats[p]["m"]]
    a_yes = [p for p in pats if account in pats[p]["m"]]
    a_no = [p for p in pats if account not in pats[p]["m"]]
    lists = {"allow": [], "deny": [], "none": []}
    for row in tables["items"]:
        if row["op"] == op and all(it == it.capitalize() or it.startswith("~") or " " in it for it in row["items"]):
            canon = all(it in ("All", "None") or it.lstrip("~") in OPNAME.values() for it in row["items"])
            if canon:
                lists[row["v"]].append(row["items"])
    out = []
    for e in seq:
        if e["m"]:
            w, a = rnd.choice(w_yes), rnd.choice(a_yes)
        elif rnd.random() < 0.5:
            w, a = rnd.choice(w_no), rnd.choice(a_yes)
        else:
            w, a = rnd.choice(w_yes), rnd.choice(a_no)
        out.append(dict(w=w, a=a, ops=rnd.choice(lists[e["v"]]), wre=pats[w]["re"], are=pats[a]["re"]))
    return out


# names of unconfigured clients next to the configured "c1" (Perms.tla: unknown client - refused)
SVC_UNKNOWN = ["zz", "C1", "c11", "c", "C2"]     # (service level: the name travels as a certificate subject)
LOOKALIKES = ["C1", "c1 ", " c1", "c", "c11", "c1\x00", "c1/", "C2"]


def run(prop, tier, seed):
    if prop == "C18":
        return run_c18(tier, seed)
    t0 = time.time()
    wd = workdir(prop)
    verdict = Verdict(prop)
    rnd = random.Random(seed)
    try:
        tables, tr = gen_tables(wd)
        info = dict(states=tr.distinct, transitions=tr.generated)
        # ---------------- (A) checker level, transition complete
        cases, expect = [], {}
        for i, row in enumerate(sorted(tables["match"], key=lambda r: (r["p"], r["name"]))):
            # as a wallet pattern
            if row["p"] != "empty" and row["name"] != "":
                cid = "mw%d" % i
                cases.append(dict(id=cid, perms=[dict(client="c1", perms=[dict(path=row["re"], ops=["All"])])],
                                  reqs=[dict(client="c1", account=row["name"] + "/acc", op="Sign")]))
                expect[cid] = ([row["m"]], dict(kind="match-wallet", pattern=row["re"], name=row["name"]))
            # as an account pattern (name "" = wallet-level operation)
            cid = "ma%d" % i
            cases.append(dict(id=cid, perms=[dict(client="c1", perms=[dict(path=path_of("W", row["re"]), ops=["All"])])],
                              reqs=[dict(client="c1", account="W/" + row["name"] if row["name"] else "W", op="Sign")]))
            expect[cid] = ([row["m"]], dict(kind="match-account", pattern=row["re"], name=row["name"]))
        for i, row in enumerate(sorted(tables["items"], key=lambda r: json.dumps(r, sort_keys=True))):
            cid = "it%d" % i
            cases.append(dict(id=cid, perms=[dict(client="c1", perms=[dict(path="W", ops=row["items"])])],
                              reqs=[dict(client="c1", account="W/acc", op=row["op"])]))
            expect[cid] = ([row["v"] == "allow"], dict(kind="items", items=row["items"], op=row["op"]))
        comp = sorted(tables["compose"], key=lambda r: json.dumps(r, sort_keys=True))
        for i, row in enumerate(comp):
            for rep in range(1 if tier == "quick" else 4):
                ents = concretise(row["entries"], tables, rnd)
                cid = "co%d_%d" % (i, rep)
                perms = [dict(path=path_of(e["wre"], e["are"]), ops=e["ops"]) for e in ents] or [dict(path="Nowhere", ops=["All"])]
                allow = row["allow"] if ents else False
                cases.append(dict(id=cid, perms=[dict(client="c1", perms=perms), dict(client="c2", perms=[dict(path="Wallet1", ops=["None"])])],
                                  reqs=[dict(client="c1", account="Wallet1/acc", op="Sign"), dict(client="zz", account="Wallet1/acc", op="Sign"),
                                        dict(client="", account="Wallet1/acc", op="Sign"), dict(client="c1", account="Wallet1/acc", op="Sign", nilcred=True),
                                        dict(client="c2", account="Wallet1/acc", op="Sign"), dict(client="c1", account="/acc", op="Sign")] +
                                       # client names that are NOT configured but resemble a configured one: a client is known by its exact name
                                       [dict(client=cn, account="Wallet1/acc", op="Sign") for cn in LOOKALIKES]))
                expect[cid] = ([allow, False, False, False, False, False] + [False] * len(LOOKALIKES), dict(kind="compose", entries=row["entries"], concrete=perms))
        evs, rc, err = run_permdrv(dict(check_cases=cases, scenarios=[]), wd, "checker")
        if rc != 0:
            raise Inconclusive("permdrv (checker level) exited %s: %s" % (rc, err[-300:]))
        got = {e["id"]: e for e in evs if e.get("ev") == "CheckCase"}
        drift, nrows = [], 0
        for cid, (want, desc) in expect.items():
            g = got.get(cid)
            if g is None:
                raise Inconclusive("no result for checker case %s" % cid)
            if "error" in g:
                raise Inconclusive("checker refused configuration of case %s: %s (%s)" % (cid, g["error"], desc))
            for j, (w, r_) in enumerate(zip(want, g["res"])):
                nrows += 1
                if r_ and not w:
                    case = [c for c in cases if c["id"] == cid][0]
                    verdict.violation("checker-allows:%s" % json.dumps(desc, sort_keys=True)[:200],
                                      "the real checker ALLOWS request %s although the permission rule refuses it (%s)" % (case["reqs"][j], desc),
                                      dict(kind="checker", case=case, request_index=j, expected=w, got=r_))
                elif w and not r_ and len(drift) < 20:
                    drift.append(dict(case=cid, desc=desc, request=j, expected=w, got=r_))
        # ---------------- (B) service level
        world = dict(wallets=[dict(name=w, type="nd", accounts=[dict(name=a, key=wi * 2 + ai) for ai, a in enumerate(ACCTS)]) for wi, w in enumerate(WALLETS)])
        nconf = 24 if tier == "quick" else 200
        chosen = [comp[i] for i in sorted(rnd.sample(range(len(comp)), min(nconf, len(comp))))]
        scenarios, cfgs = [], {}
        kinds = list(OPNAME)
        for ci, row in enumerate(chosen):
            tw, ta = rnd.choice(WALLETS[:2]), rnd.choice(ACCTS)
            kind_for_cfg = kinds[ci % len(kinds)]
            opn = OPNAME[kind_for_cfg]
            tacct = "" if kind_for_cfg in ("lockwallet", "unlockwallet") else ("W" if kind_for_cfg == "create" else ta)
            ents = concretise(row["entries"], tables, rnd, wallet=tw, account=tacct, op=opn)
            perms = [dict(path=path_of(e["wre"], e["are"]), ops=e["ops"]) for e in ents] or [dict(path="Nowhere", ops=["All"])]
            cfg = {"c1": [dict(w=e["w"], a=e["a"], ops=e["ops"]) for e in ents]} if ents else {"c1": [dict(w="w", a="w", ops=["None"])]}
            if not ents:
                perms = [dict(path="W/W", ops=["None"])]
            w = dict(world, perms=[dict(client="c1", perms=perms)])
            ops = []
            n = 0
            for kind in kinds:
                for wallet in WALLETS:
                    for acct in (ACCTS if kind not in ("lockwallet", "unlockwallet", "create") else ["W" if kind == "create" else ""]):
                        n += 1
                        base = dict(id="o%d" % n, kind=kind, client="c1", wallet=wallet, acct=acct, epoch=10 * n)
                        ops.append(base)
                        if kind in ("gen", "att", "prop"):
                            n += 1
                            ops.append(dict(base, id="o%d" % n, keyof=wallet + "/" + acct, noname=True, epoch=10 * n))
                        if kind in ("lockwallet", "unlockwallet"):
                            # the wallet named with a trailing account component: the wallet that is resolved (and would be locked /
                            # unlocked) is the same, so the decision must be the wallet-level one
                            for extra in ACCTS:
                                n += 1
                                ops.append(dict(base, id="o%d" % n, wraw=wallet + "/" + extra, epoch=10 * n))
                        if kind == "gen":
                            # both supplied, pointing at different accounts: every (named account, keyed account) pair
                            for ow in WALLETS:
                                for oa in ACCTS:
                                    if (ow, oa) != (wallet, acct):
                                        n += 1
                                        ops.append(dict(base, id="o%d" % n, keyof=ow + "/" + oa))
                if kind in ("gen", "att"):
                    # two-entry batches over every pair of accounts from different wallets: each position is decided for its own account
                    bk = "multi2" if kind == "gen" else "atts2"
                    for wi_, w1_ in enumerate(WALLETS):
                        for w2_ in WALLETS[wi_ + 1:] + WALLETS[:wi_]:
                            n += 1
                            ops.append(dict(id="o%d" % n, kind=bk, client="c1", wallet=w1_, acct=ACCTS[n % len(ACCTS)], second="%s/%s" % (w2_, ACCTS[(n + 1) % len(ACCTS)]), epoch=10 * n))
                if kind == "list":
                    # ONE listing over two wallets (every ordered pair; whole wallets and single equally named accounts): each returned
                    # account is an "Access account" served for THAT wallet's account - the decision for one wallet's account says
                    # nothing about the equally named account of the other
                    for wi_, w1_ in enumerate(WALLETS):
                        for w2_ in WALLETS[wi_ + 1:] + WALLETS[:wi_]:
                            n += 1
                            a_ = ACCTS[n % len(ACCTS)]
                            ops.append(dict(id="o%d" % n, kind="listpaths", client="c1", wallet="", acct="", paths=[w1_, w2_] if n % 2 else ["%s/%s" % (w1_, a_), "%s/%s" % (w2_, a_)], epoch=10 * n))
                n += 1
                ops.append(dict(id="o%d" % n, kind=kind, client="", wallet=tw, acct=tacct if tacct else "", epoch=10 * n))
                n += 1
                ops.append(dict(id="o%d" % n, kind=kind, client=SVC_UNKNOWN[n % len(SVC_UNKNOWN)], wallet=tw, acct=tacct if tacct else "", epoch=10 * n))
            sid = "C07-svc-%d" % ci
            scenarios.append(dict(id=sid, world=w, ops=ops))
            cfgs[sid] = cfg
        chunks = [scenarios[i::8] for i in range(8) if scenarios[i::8]]
        with ThreadPoolExecutor(max_workers=8) as ex:
            outs = list(ex.map(lambda a: run_permdrv(dict(check_cases=[], scenarios=a[1]), wd, "svc%d" % a[0]), enumerate(chunks)))
        # the SHIPPED PROGRAM: some configurations go into the real dirk binary's configuration file (its own reading of the permission
        # entries is part of what is exercised) and the same operations are sent to it over TLS with the client's certificate
        bscs = [dict(s_, id=s_["id"] + "-bin") for s_ in [x for x in scenarios if expressible(x)][:6 if tier == "quick" else 48]]
        for s_ in bscs:
            cfgs[s_["id"]] = cfgs[s_["id"][:-4]]
        bchunks = [bscs[i::6] for i in range(6) if bscs[i::6]]
        with ThreadPoolExecutor(max_workers=6) as ex:
            outs += list(ex.map(lambda a: run_permdrv(dict(check_cases=[], scenarios=a[1]), wd, "svcbin%d" % a[0], dirk=build_dirk()), enumerate(bchunks)))
        scenarios = scenarios + bscs
        lines, index, nops, nserved = [], [], 0, 0
        for evs2, rc2, err2 in outs:
            if rc2 != 0:
                raise Inconclusive("permdrv (service level) exited %s: %s" % (rc2, err2[-400:]))
            cur = None
            for e in evs2:
                if e["ev"] == "Begin":
                    cur = e["sc"]
                    start = len(lines) + 1
                    lines.append(dict(ev="Config", sc=cur, cfg=cfgs[cur], unordered=cur.endswith("-bin")))
                elif e["ev"] == "PermOp" and e["kind"] == "listpaths":
                    # one "Access account" per account of the listed wallets (all of the wallet, or the one named): served <=> returned
                    op_ = [o_ for s_ in scenarios if s_["id"] == cur for o_ in s_["ops"] if o_["id"] == e["id"]][0]
                    for pth in op_["paths"]:
                        w_, _, a_ = pth.partition("/")
                        for acct_ in ([a_] if a_ else ACCTS):
                            nops += 1
                            got = ("%s/%s" % (w_, acct_)) in e["listed"]
                            nserved += got
                            lines.append(dict(ev="Op", id="%s:%s/%s" % (e["id"], w_, acct_), client=e["client"], wallet=w_, account=acct_, op="Access account", served=got, changed=False))
                elif e["ev"] == "PermOp":
                    wallet, acct = e["wallet"], e["acct"]
                    if e["keyof"]:
                        if e["served"] and e["kind"] == "gen":
                            if not e["servedfor"]:
                                raise Inconclusive("a served signature verifies for neither candidate account (%s)" % e)
                            wallet, acct = e["servedfor"].split("/")
                        else:
                            wallet, acct = e["keyof"].split("/")
                    if e["kind"] in ("lockwallet", "unlockwallet"):
                        acct = ""
                    nops += 1
                    nserved += bool(e["served"])
                    lines.append(dict(ev="Op", id=e["id"], client=e["client"], wallet=wallet, account=acct, op=OPNAME[e["kind"]], served=bool(e["served"]), changed=bool(e["changed"])))
                elif e["ev"] == "End":
                    index.append((start, len(lines), cur))
        rundir = os.path.join(wd, "PermTrace")
        os.makedirs(rundir, exist_ok=True)
        with open(os.path.join(rundir, "trace.ndjson"), "w") as fh:
            for ln in lines:
                fh.write(json.dumps(ln) + "\n")
        r = tlc("PermTrace", make_cfg(dict(TraceFile="trace.ndjson"), invariants=["ServedOnlyIfAllowed", "RefusedNoChange"], constraint="HighWater", postcondition="Accepted"),
                wd, name="PermTrace", workers=1, timeout=900, dump_trace=False)
        info["states"] += r.distinct
        info["transitions"] += r.generated
        if not r.ok:
            if r.violated in ("ServedOnlyIfAllowed", "RefusedNoChange"):
                import re as _re
                m = _re.findall(r"/\\ l = (\d+)", r.out)
                pos = int(m[-1]) if m else 0
                sid = None
                for a, b, s in index:
                    if a <= pos - 1 <= b + 1:
                        sid = s
                sc = [s for s in scenarios if s["id"] == sid]
                verdict.violation("%s:%s" % (r.violated, json.dumps(lines[pos - 2], sort_keys=True)[:200] if pos >= 2 else sid),
                                  "service level: %s violated by %s under configuration %s" % (r.violated, lines[pos - 2] if pos >= 2 else "?", cfgs.get(sid)),
                                  dict(kind="service", scenario=sc[0] if sc else None, cfg=cfgs.get(sid), op=lines[pos - 2] if pos >= 2 else None, invariant=r.violated))
            elif r.violated == "postcondition" and unexplained(r.out, index, lines) is not None:
                sid, ln = unexplained(r.out, index, lines)
                sc = [s for s in scenarios if s["id"] == sid]
                verdict.violation("ServedOnlyIfAllowed:noorder:%s" % json.dumps(ln, sort_keys=True)[:200],
                                  "the dirk binary (%s): no order of the client's permission entries explains the run; it stops being explainable at %s under configuration %s" % (sid, ln, cfgs.get(sid)),
                                  dict(kind="service", scenario=sc[0] if sc else None, cfg=cfgs.get(sid), op=ln, invariant="ServedOnlyIfAllowed"))
            else:
                raise Inconclusive("PermTrace validation failed: %s %s" % (r.violated, r.error))
        # lock / unlock / create / sign sequences from LockState.tla (incl. restarts): a refused operation changes no lock state
        import lockfamily
        info.setdefault("model_runs", [])
        lock = lockfamily.phase(tier, seed, wd, info, verdict, prop)
        if lock["drift_count"]:
            print("DRIFT: lock-state runs differ from LockState.tla in %d place(s); first: %s" % (lock["drift_count"], lock["drift"][0]))
        # "... or the client ... has no authenticated identity": whose permission entries are scanned is decided by the certificate that was
        # VERIFIED.  Every client method over real TLS for callers that present a genuine certificate alone, with other names among its
        # alternative names, under another spelling, or FOLLOWED by an unverified certificate naming another client (ApiTrace.IdentityIsCN)
        import apifamily
        ident = apifamily.matrix_phase("C07", tier, wd, verdict, min_served=6, min_refused=0,
                                       select=lambda c: c["cred"].startswith("valid") and "signer" not in c["cred"] and not c["method"].startswith("DKG."))
        info["states"] += ident["states"]
        info["transitions"] += ident["transitions"]
        rc = verdict.finish()
        cov = dict(states=info["states"], transitions=info["transitions"], traces_validated_against_impl=len(index) + len(cases), lock_state=lock,
                   identity_over_real_tls=dict(cells=ident["cells"], obtained_data=ident["served"], server_setups=ident["modes"]),
                   samples=[dict(kind="checker-row", case=cases[0], expected=expect[cases[0]["id"]][0]), dict(kind="service-ops", lines=lines[:6])],
                   table_rows=dict(tables["counts"]), checker_rows_replayed=nrows, service_configurations=len(scenarios), service_operations=nops,
                   service_operations_served=nserved, configurations_against_the_dirk_binary=len(bscs), drift=drift[:10], drift_count=len(drift), exhaustive=True,
                   checker_cmd="tlc PermTable / PermTrace; harness cmd/permdrv")
        write_evidence(prop, tier, seed, "model_checking", cov, time.time() - t0, violations=len(verdict.violations),
                       assumptions=["the intended meaning of each catalogue pattern (whole-name, case-insensitive match) is stated extensionally in spec/Perms.tla",
                                    "the order of a client's entries is the order handed to checker.Service (main.go's map iteration is outside this check)"])
        if drift:
            print("DRIFT: %d row(s) where the checker REFUSES what the rule allows (not a C07 violation); first: %s" % (len(drift), drift[0]))
        return rc
    finally:
        cleanup(wd)


PATHCAT = {"w1": "Wallet1", "w2": "Wallet2", "w10": "Wallet10/", "w1acc": "Wallet1/acc", "w1accs": "Wallet1/[aA]cc.*", "w2alt": "Wallet2/Acc1|W",
           "w2anch": "Wallet2/^acc$", "nowhere": "Nowhere", "lower": "wallet1", "empty": "", "badre": "Wallet1/[", "slash": "/acc"}


def run_c18(tier, seed):
    """C18: ListTrace.tla (NoForbidden, Complete, OwnKey) on recorded list requests, before and after dynamic creation."""
    prop = "C18"
    t0 = time.time()
    wd = workdir(prop)
    verdict = Verdict(prop)
    rnd = random.Random(seed)
    try:
        tables, tr = gen_tables(wd)
        info = dict(states=tr.distinct, transitions=tr.generated)
        comp = sorted(tables["compose"], key=lambda r: json.dumps(r, sort_keys=True))
        popnames = {"Wallet1": ["acc", "Acc1", "Wallet1"], "Wallet2": ["acc", "Acc1"], "Wallet10": ["acc"], "xWallet2": ["Acc1", "acc"]}
        world0 = dict(wallets=[dict(name=w, type="nd", accounts=[dict(name=a, key=wi * 4 + ai) for ai, a in enumerate(accts)])
                               for wi, (w, accts) in enumerate(popnames.items())])
        # accounts are told apart by wallet and name, not by key: the same validator key imported into two wallets (Wallet2/acc and
        # xWallet2/acc, Wallet1/Acc1 and Wallet10/acc) and twice into one wallet under two names (Wallet1/acc and Wallet1/Wallet1)
        keyidx = {(w_["name"], a_["name"]): a_ for w_ in world0["wallets"] for a_ in w_["accounts"]}
        keyidx[("xWallet2", "acc")]["key"] = keyidx[("Wallet2", "acc")]["key"]
        keyidx[("Wallet10", "acc")]["key"] = keyidx[("Wallet1", "Acc1")]["key"]
        keyidx[("Wallet1", "Wallet1")]["key"] = keyidx[("Wallet1", "acc")]["key"]
        nconf = 24 if tier == "quick" else 160
        scenarios, cfgs = [], {}
        pids = sorted(PATHCAT)
        for ci in range(nconf):
            # configuration: two or three concrete entries for "Access account" / "Create account" on varied targets
            row = comp[rnd.randrange(len(comp))]
            tw, ta = rnd.choice(list(popnames)), rnd.choice(["acc", "Acc1"])
            ents = concretise(row["entries"], tables, rnd, wallet=tw, account=ta, op="Access account")
            # always allow creation somewhere so that the dynamic part is exercised
            ents.append(dict(w="any", a="any", ops=["Create account"], wre=".*", are=".*"))
            if ci % 3 == 0:
                ents.append(dict(w="star", a="any", ops=["Access account"], wre="Wallet.*", are=".*"))
            perms = [dict(path=path_of(e["wre"], e["are"]), ops=e["ops"]) for e in ents]
            cfg = {"c1": [dict(w=e["w"], a=e["a"], ops=e["ops"]) for e in ents]}
            ops, n = [], 0
            def lists():
                nonlocal n
                out = []
                for k in range(6):
                    n += 1
                    chosen = rnd.sample(pids, rnd.choice([1, 1, 2, 3]))
                    if k == 0:
                        chosen = ["w1", "w2", "w10"]
                    out.append(dict(id="l%d" % n, kind="listpaths", client="c1", wallet="", acct="", paths=[PATHCAT[p] for p in chosen], pids=chosen))
                n += 1
                out.append(dict(id="l%d" % n, kind="listpaths", client=SVC_UNKNOWN[(n + ci) % len(SVC_UNKNOWN)], wallet="", acct="", paths=["Wallet1", "Wallet2"], pids=["w1", "w2"]))
                return out
            ops += lists()
            # several creations, more than one of them in the same wallet, with listings in between
            for w, a in (("Wallet1", "W"), ("Wallet2", "W"), ("Wallet10", "W")):
                n += 1
                ops.append(dict(id="c%d" % n, kind="create", client="c1", wallet=w, acct=a, epoch=n))
            ops += lists()
            for w, a in (("Wallet10", "Acc1"), ("Wallet2", "Wallet1"), ("Wallet10", "Wallet1")):
                n += 1
                ops.append(dict(id="c%d" % n, kind="create", client="c1", wallet=w, acct=a, epoch=n))
                n += 1
                ops.append(dict(id="l%d" % n, kind="listpaths", client="c1", wallet="", acct="", paths=[PATHCAT[p_] for p_ in ("w1", "w2", "w10")], pids=["w1", "w2", "w10"]))
            ops += lists()
            if ci % 2 == 0:
                # a new process image on the same wallet store: what was created through Dirk is still there and is listed
                n += 1
                ops.append(dict(id="r%d" % n, kind="restart"))
                ops += lists()
            sid = "C18-%d" % ci
            scenarios.append(dict(id=sid, world=dict(world0, perms=[dict(client="c1", perms=perms)]), ops=ops))
            cfgs[sid] = cfg
        chunks = [scenarios[i::8] for i in range(8) if scenarios[i::8]]
        strip = lambda sc: dict(sc, ops=[{k: v for k, v in o.items() if k != "pids"} for o in sc["ops"]])
        with ThreadPoolExecutor(max_workers=8) as ex:
            outs = list(ex.map(lambda a: run_permdrv(dict(check_cases=[], scenarios=[strip(s_) for s_ in a[1]]), wd, "lst%d" % a[0]), enumerate(chunks)))
        bscs = [dict(s_, id=s_["id"] + "-bin") for s_ in [x for x in scenarios if expressible(x)][:6 if tier == "quick" else 40]]
        for s_ in bscs:
            cfgs[s_["id"]] = cfgs[s_["id"][:-4]]
        bchunks = [bscs[i::6] for i in range(6) if bscs[i::6]]
        with ThreadPoolExecutor(max_workers=6) as ex:
            outs += list(ex.map(lambda a: run_permdrv(dict(check_cases=[], scenarios=[strip(s_) for s_ in a[1]]), wd, "lstbin%d" % a[0], dirk=build_dirk()), enumerate(bchunks)))
        scenarios = scenarios + bscs
        opmeta = {sc["id"]: {o["id"]: o for o in sc["ops"]} for sc in scenarios}
        lines, index, nlists, nreturned, ncreated = [], [], 0, 0, 0
        for evs2, rc2, err2 in outs:
            if rc2 != 0:
                raise Inconclusive("permdrv exited %s: %s" % (rc2, err2[-400:]))
            cur, pop = None, None
            for e in evs2:
                if e["ev"] == "Begin":
                    cur = e["sc"]
                    start = len(lines) + 1
                    pop = {w: list(a) for w, a in popnames.items()}
                    lines.append(dict(ev="Config", sc=cur, cfg=cfgs[cur], unordered=cur.endswith("-bin")))
                    lines.append(dict(ev="Population", pop={w: list(a) for w, a in pop.items()}))
                elif e["ev"] == "PermOp" and e["kind"] == "create":
                    if e["served"]:
                        ncreated += 1
                        pop[e["wallet"]] = pop[e["wallet"]] + [e["acct"]]
                        lines.append(dict(ev="Population", pop={w: list(a) for w, a in pop.items()}))
                elif e["ev"] == "PermOp" and e["kind"] == "restart" and cur.endswith("-bin"):
                    # a new process of the binary: it builds its entry lists anew, possibly in another order
                    lines.append(dict(ev="Config", sc=cur, cfg=cfgs[cur], unordered=True))
                elif e["ev"] == "PermOp" and e["kind"] == "listpaths":
                    m = opmeta[cur][e["id"]]
                    res = []
                    for nm in e["listed"]:
                        w, _, a = nm.partition("/")
                        res.append(dict(w=w, a=a))
                    nlists += 1
                    nreturned += len(res)
                    lines.append(dict(ev="List", id=e["id"], client=e["client"], paths=m["pids"], result=res, keysok=bool(e["served"]) or not e["listed"]))
                elif e["ev"] == "End":
                    index.append((start, len(lines), cur))
        if ncreated == 0:
            raise Inconclusive("no account was created dynamically: the after-creation half would be vacuous")
        rundir = os.path.join(wd, "ListTrace")
        os.makedirs(rundir, exist_ok=True)
        with open(os.path.join(rundir, "trace.ndjson"), "w") as fh:
            for ln in lines:
                fh.write(json.dumps(ln) + "\n")
        inv = ["NoForbidden", "Complete", "OwnKey"]
        r = tlc("ListTrace", make_cfg(dict(TraceFile="trace.ndjson"), invariants=inv, constraint="HighWater", postcondition="Accepted"),
                wd, name="ListTrace", workers=1, timeout=900, dump_trace=False)
        info["states"] += r.distinct
        info["transitions"] += r.generated
        if not r.ok:
            if r.violated in inv:
                import re as _re
                m = _re.findall(r"/\\ l = (\d+)", r.out)
                pos = int(m[-1]) if m else 0
                sid = None
                for a, b, s_ in index:
                    if a <= pos - 1 <= b + 1:
                        sid = s_
                sc = [s_ for s_ in scenarios if s_["id"] == sid]
                badset = _re.findall(r"bad = (\{.*?\})\n", r.out, _re.S)
                verdict.violation("%s:%s" % (r.violated, json.dumps(lines[pos - 2], sort_keys=True)[:200] if pos >= 2 else sid),
                                  "%s violated by list request %s under configuration %s (%s)" % (r.violated, lines[pos - 2] if pos >= 2 else "?", cfgs.get(sid), badset[-1][:200] if badset else ""),
                                  dict(kind="list", scenario=sc[0] if sc else None, cfg=cfgs.get(sid), popnames=popnames, request=lines[pos - 2] if pos >= 2 else None, invariant=r.violated))
            elif r.violated == "postcondition" and unexplained(r.out, index, lines) is not None:
                sid, ln = unexplained(r.out, index, lines)
                sc = [s_ for s_ in scenarios if s_["id"] == sid]
                verdict.violation("NoForbidden/Complete:noorder:%s" % json.dumps(ln, sort_keys=True)[:200],
                                  "the dirk binary (%s): no order of the client's permission entries explains the listings; it stops being explainable at %s under configuration %s" % (sid, ln, cfgs.get(sid)),
                                  dict(kind="list", scenario=sc[0] if sc else None, cfg=cfgs.get(sid), popnames=popnames, request=ln, invariant="NoForbidden"))
            else:
                raise Inconclusive("ListTrace validation failed: %s %s" % (r.violated, r.error))
        # "the accounts the requesting client is permitted to access": WHO is requesting is the subject name of the certificate that was
        # verified - not an alternative name it also carries, another spelling, or an unverified certificate sent after it.  Listings
        # over real TLS for every such caller (ApiTrace.IdentityIsCN)
        import apifamily
        ident = apifamily.matrix_phase("C18", tier, wd, verdict, min_served=2, min_refused=0,
                                       select=lambda c: c["cred"].startswith("valid") and "signer" not in c["cred"] and c["method"] == "Lister.ListAccounts")
        info["states"] += ident["states"]
        info["transitions"] += ident["transitions"]
        rc = verdict.finish()
        cov = dict(states=info["states"], transitions=info["transitions"], traces_validated_against_impl=len(index),
                   identity_over_real_tls=dict(cells=ident["cells"], obtained_data=ident["served"], server_setups=ident["modes"]),
                   samples=[dict(kind="list-trace", lines=lines[:5])], configurations=len(scenarios), list_requests=nlists, accounts_returned=nreturned,
                   accounts_created_dynamically=ncreated, configurations_against_the_dirk_binary=len(bscs), path_catalogue=PATHCAT, exhaustive=False, checker_cmd="tlc PermTable / ListTrace; harness cmd/permdrv")
        write_evidence(prop, tier, seed, "model_checking", cov, time.time() - t0, violations=len(verdict.violations),
                       assumptions=["the intended whole-name matches of the path catalogue are stated in spec/ListTrace.tla",
                                    "dynamic creation = single-participant Generate through the account manager handler (distributed creation is exercised by C12)"])
        return rc
    finally:
        cleanup(wd)


def replay(prop, path):
    if json.load(open(path))["replay"].get("api"):
        import apifamily
        return apifamily.replay(prop, path)
    if json.load(open(path))["replay"].get("lock"):
        import lockfamily
        return lockfamily.replay(prop, path)
    return _replay(prop, path)


def project_lists(evs, cfgs, opmeta, popnames, lines):
    """C18 projection of permdrv events to the ListTrace alphabet (same code as in run_c18's loop, for replays)."""
    cur, pop = None, None
    for e in evs:
        if e["ev"] == "Begin":
            cur = e["sc"]
            pop = {w: list(a) for w, a in popnames.items()}
            lines.append(dict(ev="Config", sc=cur, cfg=cfgs[cur], unordered=cur.endswith("-bin")))
            lines.append(dict(ev="Population", pop={w: list(a) for w, a in pop.items()}))
        elif e["ev"] == "PermOp" and e["kind"] == "create":
            if e["served"]:
                pop[e["wallet"]] = pop[e["wallet"]] + [e["acct"]]
                lines.append(dict(ev="Population", pop={w: list(a) for w, a in pop.items()}))
        elif e["ev"] == "PermOp" and e["kind"] == "restart" and cur.endswith("-bin"):
            lines.append(dict(ev="Config", sc=cur, cfg=cfgs[cur], unordered=True))
        elif e["ev"] == "PermOp" and e["kind"] == "listpaths":
            m = opmeta[cur][e["id"]]
            res = []
            for nm in e["listed"]:
                w, _, a = nm.partition("/")
                res.append(dict(w=w, a=a))
            lines.append(dict(ev="List", id=e["id"], client=e["client"], paths=m["pids"], result=res, keysok=bool(e["served"]) or not e["listed"]))


def project_service(evs, cfgs, lines, scenarios=()):
    """C07 projection of permdrv events to the PermTrace alphabet (for replays; run() has the same loop with counters)."""
    cur = None
    for e in evs:
        if e["ev"] == "Begin":
            cur = e["sc"]
            lines.append(dict(ev="Config", sc=cur, cfg=cfgs[cur], unordered=cur.endswith("-bin")))
        elif e["ev"] == "PermOp" and e["kind"] == "listpaths":
            op_ = [o_ for s_ in scenarios if s_["id"] == cur for o_ in s_["ops"] if o_["id"] == e["id"]]
            for pth in (op_[0]["paths"] if op_ else []):
                w_, _, a_ = pth.partition("/")
                for acct_ in ([a_] if a_ else ACCTS):
                    lines.append(dict(ev="Op", id="%s:%s/%s" % (e["id"], w_, acct_), client=e["client"], wallet=w_, account=acct_, op="Access account",
                                      served=("%s/%s" % (w_, acct_)) in e["listed"], changed=False))
        elif e["ev"] == "PermOp" and e["kind"] in OPNAME:
            wallet, acct = e["wallet"], e["acct"]
            if e["keyof"]:
                if e["served"] and e["kind"] == "gen":
                    if not e["servedfor"]:
                        raise Inconclusive("a served signature verifies for neither candidate account (%s)" % e)
                    wallet, acct = e["servedfor"].split("/")
                else:
                    wallet, acct = e["keyof"].split("/")
            if e["kind"] in ("lockwallet", "unlockwallet"):
                acct = ""
            lines.append(dict(ev="Op", id=e["id"], client=e["client"], wallet=wallet, account=acct, op=OPNAME[e["kind"]], served=bool(e["served"]), changed=bool(e["changed"])))


def _replay(prop, path):
    """Re-run the case / scenario of a replay file on the current tree and have TLC judge the recorded run again."""
    obj = json.load(open(path))["replay"]
    wd = workdir(prop + "-replay")
    try:
        if obj["kind"] == "checker":
            evs, rc, err = run_permdrv(dict(check_cases=[obj["case"]], scenarios=[]), wd, "replay")
            print(json.dumps(evs))
            got = evs[0]["res"][obj["request_index"]]
            if got and not obj["expected"]:
                print("VIOLATION property=C07 replay=%s" % path)
                return 1
            return 0
        sc = obj["scenario"]
        strip = lambda sc_: dict(sc_, ops=[{k: v for k, v in o.items() if k != "pids"} for o in sc_["ops"]])
        evs, rc, err = run_permdrv(dict(check_cases=[], scenarios=[strip(sc)]), wd, "replay", dirk=build_dirk() if str(sc.get("id", "")).endswith("-bin") else None)
        if rc != 0:
            print(err[-400:])
            return 2
        lines = []
        if obj["kind"] == "list":
            project_lists(evs, {sc["id"]: obj["cfg"]}, {sc["id"]: {o["id"]: o for o in sc["ops"]}}, obj["popnames"], lines)
            module, inv = "ListTrace", ["NoForbidden", "Complete", "OwnKey"]
        else:
            project_service(evs, {sc["id"]: obj["cfg"]}, lines, [sc])
            module, inv = "PermTrace", ["ServedOnlyIfAllowed", "RefusedNoChange"]
        for ln in lines[:300]:
            print(json.dumps(ln)[:300])
        rundir = os.path.join(wd, module)
        os.makedirs(rundir, exist_ok=True)
        with open(os.path.join(rundir, "trace.ndjson"), "w") as fh:
            for ln in lines:
                fh.write(json.dumps(ln) + "\n")
        r = tlc(module, make_cfg(dict(TraceFile="trace.ndjson"), invariants=inv, constraint="HighWater", postcondition="Accepted"), wd, name=module, workers=1, timeout=900, dump_trace=False)
        if r.ok:
            print("replay: run accepted by %s (%s hold)" % (module, ", ".join(inv)))
            return 0
        if r.violated in inv or (r.violated == "postcondition" and str(sc.get("id", "")).endswith("-bin")):
            print("VIOLATION property=%s replay=%s" % (prop, path))
            return 1
        print("replay: %s %s" % (r.violated, r.error))
        return 2
    finally:
        cleanup(wd)

"""The repository's OWN tests as trace sources (layer D, DRIFT only).

The test binaries of services/ruler/golang and services/signer/standard are built from /repo's working tree with the
verif tag; each top-level test runs in its own process with VERIF_TRACE_FILE set, so that the storage observation
points (store.fetch.exit, store.store.exit, store.batch.exit: after the read / write, still inside the key lock) are
logged with a mutex-ordered sequence number and the goroutine as actor.  StoreTrace.tla judges the recorded steps:
AtomicRMW, ReadLatest, Monotone.  The tests' own assertions are not consulted beyond their exit status."""
import json, os, struct, subprocess, time
from vlib import *

PKGS = [("ruler", "./services/ruler/golang"), ("signer", "./services/signer/standard")]


def decode(key, val, isnil):
    kind = key[-2:]
    k = key[:-2]
    if isnil or not val:
        return k, kind, None
    b = bytes.fromhex(val)
    if kind == "02" and len(b) >= 17:
        return k, kind, struct.unpack("<qq", b[1:17])
    if kind == "03" and len(b) >= 9:
        return k, kind, struct.unpack("<q", b[1:9])
    return k, kind, None


def project(path, lines, names):
    """F/S lines; per key a record (s, t, p) is tracked by the spec, so a line carries the full record of its kind and -1 elsewhere."""
    n = 0
    for raw in open(path):
        e = json.loads(raw)
        site = e["site"]
        if site == "store.open":
            lines.append(dict(ev="Open"))
            continue
        if site == "sign.enter":
            base = names.setdefault(e["key"][:96], "k%d" % len(names))
            lines.append(dict(ev="G", g=e["gid"], b=base))
            n += 1
            continue
        if site not in ("store.fetch.exit", "store.store.exit", "store.batch.exit"):
            continue
        k, kind, v = decode(e["key"], e["val"], e["nil"])
        key = names.setdefault(k[:96], "k%d" % len(names)) + ("a" if kind == "02" else "p")
        if kind == "02":
            s, t = v if v else (-1, -1)
            rec = dict(s=s, t=t, p=-1)
        else:
            rec = dict(s=-1, t=-1, p=v[0] if v else -1)
        lines.append(dict(ev="F" if site == "store.fetch.exit" else "S", g=e["gid"], k=key, **rec))
        n += 1
    return n


def run_repo_tests(wd, max_events=4000):
    """Returns (lines, stats) or raises Inconclusive."""
    env = dict(os.environ, GOFLAGS="-mod=mod", GOPROXY="off", GOSUMDB="off", GOTOOLCHAIN="local")
    out = os.path.join(wd, "repotests")
    os.makedirs(out, exist_ok=True)
    lines, stats = [], []
    for tag, pkg in PKGS:
        exe = os.path.join(out, tag + ".test")
        p = subprocess.run(["go", "test", "-c", "-tags", "verif", "-vet=off", "-o", exe, pkg], cwd=REPO, env=env, stdout=subprocess.PIPE, stderr=subprocess.STDOUT, text=True)
        if p.returncode != 0:
            raise Inconclusive("cannot build the repository's test binary for %s: %s" % (pkg, p.stdout[-400:]))
        tests = subprocess.run([exe, "-test.list", "."], cwd=out, stdout=subprocess.PIPE, text=True).stdout.split()
        for t in tests:
            tf = os.path.join(out, "%s_%s.ndjson" % (tag, t))
            td = os.path.join(out, "tmp_%s_%s" % (tag, t))
            os.makedirs(td, exist_ok=True)
            try:
                q = subprocess.run([exe, "-test.run", "^%s$" % t, "-test.count=1", "-test.timeout=5m"], cwd=os.path.join(REPO, pkg), env=dict(env, VERIF_TRACE_FILE=tf, TMPDIR=td),
                                   stdout=subprocess.PIPE, stderr=subprocess.STDOUT, text=True, timeout=400)
                rc = q.returncode
            except subprocess.TimeoutExpired:
                rc = -99
            shutil.rmtree(td, ignore_errors=True)
            if not os.path.exists(tf) or os.path.getsize(tf) == 0:
                continue
            start = len(lines)
            lines.append(dict(ev="Begin", test="%s.%s" % (tag, t), rc=rc))
            n = project(tf, lines, {})
            os.remove(tf)
            if n > max_events:       # the soak tests repeat the same pattern: a prefix is enough
                del lines[start + 1 + max_events:]
                n = max_events
            stats.append(dict(test="%s.%s" % (tag, t), events=n, rc=rc))
    return lines, stats


INVS = ["AtomicRMW", "ReadLatest", "Monotone", "SignAfterStore"]


def validate(lines, wd, name="StoreTrace"):
    rundir = os.path.join(wd, name)
    os.makedirs(rundir, exist_ok=True)
    with open(os.path.join(rundir, "trace.ndjson"), "w") as fh:
        for ln in lines:
            fh.write(json.dumps(ln) + "\n")
    r = tlc("StoreTrace", make_cfg(dict(TraceFile="trace.ndjson"), spec="Spec", invariants=INVS, constraint="HighWater", postcondition="Accepted"), wd, name=name,
            workers=1, timeout=900, dump_trace=False, java_opts="-Dtlc2.tool.queue.IStateQueue=StateDeque -Xss64m")
    return r


def phase(wd, info, max_events=4000):
    """Run, validate, self-test the binding; returns a list of drift strings (empty when the recorded tests conform)."""
    t0 = time.time()
    lines, stats = run_repo_tests(wd, max_events)
    if sum(s["events"] for s in stats) < 100:
        raise Inconclusive("the repository's tests produced almost no storage events under the verif tag: %s" % stats)
    r = validate(lines, wd)
    drift = []
    if not r.ok:
        import re
        m = re.findall(r"/\\ l = (\d+)", r.out)
        pos = int(m[-1]) if m else 0
        drift.append("StoreTrace: %s near line %d: %s" % (r.violated or r.error, pos, lines[max(0, pos - 3):pos]))
    # binding self-test: swap two stores by different goroutines on one key so that one lands between the other's fetch and store
    self_ok = None
    idx = [i for i, ln in enumerate(lines) if ln["ev"] == "S"]
    for a in idx:
        prevf = [j for j in range(max(0, a - 6), a) if lines[j]["ev"] == "F" and lines[j]["k"] == lines[a]["k"] and lines[j]["g"] == lines[a]["g"]]
        if not prevf:
            continue
        bad = list(lines)
        intr = dict(lines[a], g=lines[a]["g"] + 100000)
        bad.insert(a, intr)                      # a foreign store between this actor's fetch and store (without a fetch of its own)
        rb = validate(bad[:a + 3], wd, name="StoreTraceSelf")
        self_ok = (not rb.ok) and rb.violated == "AtomicRMW"
        break
    info["repo_tests_as_traces"] = dict(tests=stats, events=sum(s["events"] for s in stats), accepted=r.ok, states=r.distinct, corrupted_trace_rejected=self_ok, wall_s=round(time.time() - t0, 1))
    if self_ok is False:
        raise Inconclusive("StoreTrace accepted a corrupted trace (binding self-test failed)")
    return drift


def binary_phase(wd, info, seed, tier):
    """Traces recorded from the REAL PROGRAM: the dirk binary built with the verif tag (the same program plus the observation
    points) serves concurrent conflicting requests over TLS; its storage steps, ordered by the tracer's own sequence numbers with the
    goroutine as actor, must satisfy StoreTrace (AtomicRMW, ReadLatest, Monotone).  DRIFT only."""
    import random
    rnd = random.Random(seed * 31 + 5)
    exe = build_dirk(verif=True)
    tdir = os.path.join(wd, "bintraces")
    os.makedirs(tdir, exist_ok=True)
    scs = []
    for i in range(4 if tier == "quick" else 24):
        ops = []
        for rnd_ in range(6):
            e = rnd_ + 1
            group = []
            for j in range(8):
                k = rnd.randrange(3)
                kind = rnd.choice(["att", "att", "prop", "atts"])
                if kind == "prop":
                    group.append(dict(id="g%dr%d" % (rnd_, j), kind="prop", ents=[dict(k=k, slot=e, root="R%d" % j)]))
                elif kind == "atts":
                    group.append(dict(id="g%dr%d" % (rnd_, j), kind="atts", ents=[dict(k=k, s=e - 1, t=e, root="R%d" % j), dict(k=(k + 1) % 3, s=e - 1, t=e, root="R%d" % j)]))
                else:
                    group.append(dict(id="g%dr%d" % (rnd_, j), kind="att", ents=[dict(k=k, s=e - 1, t=e, root="R%d" % j)], by=("name", "key")[j % 2]))
            ops.append(dict(id="par%d" % rnd_, kind="par", ops=group))
        scs.append(dict(id="bintrace%d" % i, world=dict(nkeys=3), conc=[str(v) for v in range(16)], ops=ops))
    events, rc, err = run_driver(scs, wd, tag="bintrace", timeout=600, dirk=exe, env=dict(VERIF_BIN_TRACE_DIR=tdir))
    if rc != 0:
        raise Inconclusive("trace recording from the verif-tagged dirk binary failed: %s %s" % (rc, err[-300:]))
    lines, n = [], 0
    for sc in scs:
        f = os.path.join(tdir, sc["id"] + ".storetrace.ndjson")
        if not os.path.exists(f):
            raise Inconclusive("the verif-tagged dirk binary wrote no trace for %s" % sc["id"])
        lines.append(dict(ev="Begin", test="binary." + sc["id"], rc=0))
        n += project(f, lines, {})
    if n < 100:
        raise Inconclusive("the verif-tagged dirk binary recorded only %d storage events" % n)
    r = validate(lines, wd, name="StoreTraceBinary")
    drift = []
    if not r.ok:
        import re
        m = re.findall(r"/\\ l = (\d+)", r.out)
        pos = int(m[-1]) if m else 0
        drift.append("StoreTrace (real binary): %s near line %d: %s" % (r.violated or r.error, pos, lines[max(0, pos - 3):pos]))
    signed = sum(1 for e in events if e["ev"] == "Release")
    info["real_binary_traces"] = dict(scenarios=len(scs), concurrent_groups=6 * len(scs), storage_events=n, signatures=signed, accepted=r.ok, states=r.distinct)
    return drift

"""C06: signing fails closed.

Model side : Signer.tla with fault disjuncts (precheck, fetch, store, sign) - FailClosed, DurableBeforeSign exhaustively
             for one and two faults; mutant FaultIgnored must be killed.  FaultTable.tla enumerates every
             single-fault plan (endpoint x batch size x call site x position x fault kind) with its scope.
Code side  : every plan is injected into the real stack (interface wrappers, verifhook error returns, garbage
             records, closed store, wrong-length domains) at handler level; multi-fault sequences by seed.
Verdict    : SeqTrace invariants SigIffSucceeded and FailClosed on the recorded run (layer P)."""
import json, os, random, time
from vlib import *
import seqfamily, concfamily

PFX = {"att": "att", "atts": "att", "prop": "prop", "gen": "randao", "multi": "randao"}


def model_phase(tier, wd, info):
    for faults, crashes in ((1, 0), (2, 0)) if tier == "quick" else ((1, 0), (2, 0), (2, 1), (3, 0)):
        r = tlc("MCSigner", make_cfg(concfamily.sconsts("Crash", list("abc"), ["k1", "k2"], crashes=crashes, faults=faults),
                                     invariants=["FailClosed", "DurableBeforeSign", "NoSlashableAtt", "TypeOK"], deadlock=True),
                wd, name="SignerFault_%d_%d" % (faults, crashes), timeout=1500)
        require_ok(r, "Signer(faults=%d,crashes=%d)" % (faults, crashes))
        info["states"] += r.distinct
        info["transitions"] += r.generated
        info["model_runs"].append(dict(module="Signer", mix="Crash", MaxFaults=faults, MaxCrashes=crashes,
                                       invariants=["FailClosed", "DurableBeforeSign", "NoSlashableAtt"], distinct=r.distinct, generated=r.generated))
    # shutdown: the store is closed while requests are in flight (CloseStore action)
    for mix, reqs, keys in (("Crash", "abc", ["k1", "k2"]), ("Opposite", "abcd", ["k1", "k2"])):
        r = tlc("MCSigner", make_cfg(concfamily.sconsts(mix, list(reqs), keys, faults=0 if mix == "Opposite" else 1, MaxCloses=1),
                                     invariants=["FailClosed", "DurableBeforeSign", "NoSlashableAtt", "TypeOK"], deadlock=True), wd, name="SignerClose_" + mix, timeout=1500)
        require_ok(r, "Signer(%s, CloseStore)" % mix)
        info["states"] += r.distinct
        info["transitions"] += r.generated
        info["model_runs"].append(dict(module="Signer", mix=mix, MaxCloses=1, invariants=["FailClosed", "DurableBeforeSign", "NoSlashableAtt", "no deadlock"], distinct=r.distinct, generated=r.generated))
    rm = tlc("MCSigner", make_cfg(concfamily.sconsts("Crash", list("abc"), ["k1", "k2"], faults=1, FaultIgnored=True),
                                  invariants=["FailClosed"], deadlock=False), wd, name="mut_FaultIgnored")
    require_killed(rm, "FaultIgnored=TRUE", ["FailClosed"])
    info["mutants"].append(dict(mutant="FaultIgnored=TRUE", killed_by=[rm.violated]))
    c = dict(OutFile="plans.json", Sizes={2, 3} if tier == "quick" else {2, 3, 5})
    r = tlc("FaultTable", make_cfg(c), wd, name="FaultTable", workers=1)
    require_ok(r, "FaultTable")
    plans = json.load(open(os.path.join(wd, "FaultTable", "plans.json")))["plans"]
    return sorted(plans, key=lambda p: json.dumps(p, sort_keys=True))


def ent_for(kind, key, salt):
    if kind in ("att", "atts"):
        return dict(k=key, s=0, t=1 + salt % 2, root="A")
    if kind == "prop":
        return dict(k=key, slot=1 + salt % 2, root="A")
    return dict(k=key, root="A")


def plan_scenario(plans, sid, nkeys=12):
    """One scenario for one or several (compatible) plans on one request."""
    pl = plans[0]
    kind, n = pl["kind"], pl["n"]
    ents = [ent_for(kind, i, i) for i in range(n)]
    faults, prior, pre_ops = [], [], []
    fpos = []
    op = dict(id="q", kind=kind, ents=ents, by="name")
    for pl in plans:
        i = pl["pos"] - 1
        kname, path = "k%d" % i, "W1/a%d" % i
        site, fk = pl["site"], pl["fault"]
        fpos.append(0 if pl["scope"] == "req" else pl["pos"])
        if site == "fetcher":
            faults.append(dict(site="fetcher.account", rid="q", key=path, kind="error"))
        elif site == "checker":
            faults.append(dict(site="checker", rid="q", key=path, kind="error"))
        elif site == "unlocker.account":
            faults.append(dict(site="fetcher.account", rid="q", key=path, kind="wrap-locked"))
            faults.append(dict(site="unlocker.account", rid="q", kind=fk))
        elif site == "isunlocked":
            faults.append(dict(site="fetcher.account", rid="q", key=path, kind="wrap-error"))
        elif site == "sign.enter":
            faults.append(dict(site="sign.enter", rid="q", key=kname, kind="error"))
        elif site == "hash" and fk.startswith("shift"):
            ents[i]["dom"] = "%s:%s" % (fk, PFX[kind])     # data K bytes short and domain K bytes long (K may be negative): the sum is 64
        elif site == "hash":
            ents[i]["dom"] = PFX[kind] + ":" + fk
        elif site == "rules.atts.pos":
            faults.append(dict(site="rules.atts.pos", rid="q", key=str(i), kind=fk))
        elif site == "rules.atts" and fk == "short":
            faults.append(dict(site="rules.atts", rid="q", kind="short"))
        elif site == "rules.sign" and kind == "multi":
            faults.append(dict(site="rules.sign", rid="q", key=kname, kind=fk))
        elif site in ("ruler.enter", "rules.att", "rules.atts", "rules.prop", "rules.sign"):
            faults.append(dict(site=site, rid="q", kind=fk))
        elif site in ("store.fetch.enter", "store.store.enter", "store.batch.enter"):
            faults.append(dict(site=site, rid="q", key=kname, kind="error"))
            if fk == "error-denied-first":
                ents[0] = dict(k=0, s=3, t=1, root="A")        # target before source: refused by the rules themselves
            elif fk == "error-denied-last":
                ents[-1] = dict(k=len(ents) - 1, s=3, t=1, root="A")
        elif site == "record":
            prior.append(dict(k=i, kind="prop" if kind == "prop" else "att", fmt=fk))
        elif site == "store":
            pre_ops.append(dict(id="cl", kind="close"))
        else:
            raise Inconclusive("unknown plan site %s" % site)
    warm = dict(id="warm", kind="multi", ents=[dict(k=i, root="W") for i in range(max(n, 1))], dom="randao")
    sc = dict(id=sid, world=dict(nkeys=nkeys), conc=["0", "1", "2", "3"], prior=prior, ops=[warm] + pre_ops + [op], faults=faults,
              no_export=bool(pre_ops))
    structural = all(pl["site"] in ("hash", "record", "store") for pl in plans)
    return sc, sorted(set(fpos)), structural


def run(prop, tier, seed):
    t0 = time.time()
    wd = workdir(prop)
    info = dict(states=0, transitions=0, mutants=[], model_runs=[])
    verdict = Verdict(prop)
    try:
        plans = model_phase(tier, wd, info)
        rnd = random.Random(seed)
        scenarios, meta = [], {}
        for i, pl in enumerate(plans):
            sc, fpos, structural = plan_scenario([pl], "C06-single-%d" % i)
            scenarios.append(sc)
            meta[sc["id"]] = dict(plans=[pl], fpos=fpos, structural=structural)
            if pl["n"] > 1:
                # the batch endpoints spread their entries over GOMAXPROCS workers: the same plan with ONE worker (the whole batch is one
                # extent; with the machine's 16 every entry of these small batches is an extent of its own) and with two
                for gmp in (1, 2):
                    sc2 = dict(sc, id="%s-p%d" % (sc["id"], gmp), gomaxprocs=gmp)
                    scenarios.append(sc2)
                    meta[sc2["id"]] = dict(plans=[pl], fpos=fpos, structural=structural)
        # multi-fault sequences: 2-3 plans of the same endpoint and size on one request
        nmulti = 150 if tier == "quick" else 3000
        bykey = {}
        for pl in plans:
            bykey.setdefault((pl["kind"], pl["n"]), []).append(pl)
        keys = sorted(bykey)
        for j in range(nmulti):
            k = rnd.choice(keys)
            cand = bykey[k]
            chosen = rnd.sample(cand, min(len(cand), rnd.choice([2, 2, 3])))
            # at most one "store closed", and not two different kinds on the same site/position
            seen, sel = set(), []
            for pl in chosen:
                # a request-wide site carries ONE fault per request in the harness: two plans on it would leave the second one unfired
                reqwide = pl["site"] in ("ruler.enter", "rules.att", "rules.atts", "rules.prop") or (pl["site"] == "rules.sign" and pl["kind"] != "multi")
                key = (pl["site"],) if reqwide else (pl["site"], pl["pos"])
                if key in seen or (pl["site"] == "store" and any(x["site"] == "store" for x in sel)):
                    continue
                seen.add(key)
                sel.append(pl)
            sc, fpos, structural = plan_scenario(sel, "C06-multi-%d" % j)
            if j % 3:
                sc["gomaxprocs"] = j % 3
            scenarios.append(sc)
            meta[sc["id"]] = dict(plans=sel, fpos=fpos, structural=structural, multi=True)
        # shutdown under load: the store is closed while the request is parked at a storage gate (fetch, store, batch store)
        close_scs = []
        for kind, n_, gate in (("att", 1, "store.fetch.enter"), ("att", 1, "store.store.enter"), ("prop", 1, "store.fetch.enter"), ("prop", 1, "store.store.enter"),
                               ("atts", 2, "store.fetch.enter"), ("atts", 3, "store.batch.enter")):
            op = dict(id="q", kind=kind, ents=[ent_for(kind, i_, i_) for i_ in range(n_)])
            warm = dict(id="warm", kind="multi", ents=[dict(k=i_, root="W") for i_ in range(n_)], dom="randao")
            close_scs.append(dict(id="C06-close-%s-%s" % (kind, gate), world=dict(nkeys=12), conc=["0", "1", "2", "3"], no_export=True,
                                  ops=[warm, dict(id="par", kind="par", gate=True, ops=[op], sched=[dict(r="q", site="until:" + gate), dict(r="q", site="close")])]))
        # control group: the same requests without any fault must be signed (else a fault plan proves nothing)
        controls = {}
        for (kind, n) in keys:
            sc, _, _ = plan_scenario([dict(kind=kind, n=n, site="hash", fault="none", pos=1, scope="ent")], "C06-control-%s-%d" % (kind, n))
            sc["ops"][-1]["ents"][0].pop("dom", None)
            scenarios.append(sc)
            controls[sc["id"]] = (kind, n)

        events, rc, err = run_driver(scenarios, wd, tag="c06", timeout=1800)
        if rc != 0:
            raise Inconclusive("driver exited %s: %s" % (rc, err[-400:]))
        by = split_scenarios(events)
        # control group
        for sid, (kind, n) in controls.items():
            resp = [e for e in by[sid] if e["ev"] == "Respond" and e["r"] == "q"]
            if not resp or resp[0]["res"] != ["SUCCEEDED"] * n:
                raise Inconclusive("control request %s/%d is not signed without faults (%s): fault plans would prove nothing" %
                                   (kind, n, resp[0]["res"] if resp else None))
        close_res = {}
        for csc in close_scs:
            cevs, crc, cerr = run_driver([csc], wd, tag="close", timeout=120)
            if crc not in (0, 3):
                raise Inconclusive("close-in-flight driver exited %s: %s" % (crc, cerr[-300:]))
            if not any(e["ev"] == "CloseStore" for e in cevs):
                raise Inconclusive("close-in-flight scenario %s never closed the store" % csc["id"])
            by[csc["id"]] = cevs
            close_res[csc["id"]] = "hung (no response)" if crc == 3 else "answered"
        lines, index, reached, distinct = [], [], 0, set()
        for sc in scenarios:
            sid = sc["id"]
            if sid in controls:
                continue
            evs = by.get(sid)
            if evs is None:
                raise Inconclusive("scenario %s produced no events" % sid)
            m = meta[sid]
            end = [e for e in evs if e["ev"] == "End"][0]
            hit = bool(end["faults_hit"]) or m["structural"]
            # positions are claimed faulted only when the planned fault really fired (or is structural)
            if m.get("multi"):
                # with several faults an earlier one can pre-empt a later one; claim only what fired
                fired = set()
                for pl in m["plans"]:
                    site = {"fetcher": "fetcher.account", "isunlocked": "fetcher.account"}.get(pl["site"], pl["site"])
                    if pl["site"] in ("hash", "record", "store"):
                        continue  # structural faults may be pre-empted; do not claim them in multi plans
                    if any(h.startswith(site + "/") for h in end["faults_hit"]):
                        if pl["site"] == "unlocker.account" and not any(h.startswith("unlocker.account/") for h in end["faults_hit"]):
                            continue
                        fired.add(0 if pl["scope"] == "req" else pl["pos"])
                fpos = sorted(fired)
            else:
                fpos = m["fpos"] if hit else []
                if m["plans"][0]["site"] == "unlocker.account" and not any(h.startswith("unlocker.account/") for h in end["faults_hit"]):
                    fpos = []
            if fpos:
                reached += 1
                distinct.add(json.dumps([(p["kind"], p["n"], p["site"], p["fault"], p["pos"]) for p in m["plans"]]))
            start = len(lines) + 1
            seqfamily.project_one(sid, {"q": dict(wf=False, ip="none", faults=fpos)}, [], evs, lines)
            index.append((start, len(lines), sid))
        for csc in close_scs:
            start = len(lines) + 1
            seqfamily.project_one(csc["id"], {"q": dict(wf=False, ip="none", faults=[0])}, [], by[csc["id"]], lines)
            index.append((start, len(lines), csc["id"]))
            meta[csc["id"]] = dict(plans=[dict(kind=csc["ops"][1]["ops"][0]["kind"], site="close-in-flight", gate=csc["ops"][1]["sched"][0]["site"])], fpos=[0], structural=True)
            scenarios.append(csc)
            reached += 1
        single_unreached = [meta[s["id"]]["plans"][0] for s in scenarios if s["id"].startswith("C06-single")
                            and not ([e for e in by[s["id"]] if e["ev"] == "End"][0]["faults_hit"] or meta[s["id"]]["structural"])]
        if len(single_unreached) > 0:
            raise Inconclusive("%d single-fault plans never reached their call site, e.g. %s" % (len(single_unreached), single_unreached[0]))
        ok, violated, pos, r = seqfamily.validate(lines, ["SigIffSucceeded", "FailClosed"], 3, wd)
        info["states"] += r.distinct
        info["transitions"] += r.generated
        if not ok:
            if violated == "trace-not-accepted":
                raise Inconclusive("SeqTrace could not consume line %s" % pos)
            sid = seqfamily.locate(index, pos)
            sc = [s for s in scenarios if s["id"] == sid][0]
            seg = [lines[a - 1:b] for a, b, s in index if s == sid][0]
            verdict.violation("%s:%s" % (violated, json.dumps(meta[sid]["plans"], sort_keys=True)),
                              "real run rejected by SeqTrace invariant %s (scenario %s, plan %s)" % (violated, sid, meta[sid]["plans"]),
                              dict(scenario=sc, faults=meta[sid]["fpos"], trace=seg, invariant=violated))
        # the lock state of accounts and wallets (LockState.tla): "a locked account that no configured passphrase opens yields no
        # signature" and "a refused operation changes nothing", on model-generated operation sequences incl. restarts
        import lockfamily
        lock = lockfamily.phase(tier, seed, wd, info, verdict, prop)
        if lock["drift_count"]:
            print("DRIFT: lock-state runs differ from LockState.tla in %d place(s); first: %s" % (lock["drift_count"], lock["drift"][0]))
        rc = verdict.finish()
        cov = dict(evaluations=len(scenarios) - len(controls), distinct_nontrivial=len(distinct), lock_state=lock,
                   rule="one scenario per fault plan enumerated by TLC (FaultTable: endpoint x batch size x call site x position x fault kind) plus seeded "
                        "2-3 fault combinations; a plan counts as non-trivial when the driver reports that the planned fault actually fired at its call site "
                        "(or the structural fault - garbage record, closed store, wrong-length domain - was in place) on a request that is signed without it",
                   samples=[dict(plan=meta[s["id"]]["plans"], faults=s.get("faults"), request=s["ops"][-1]) for s in scenarios[:3]],
                   states=info["states"], transitions=info["transitions"], traces_validated_against_impl=len(index),
                   single_fault_plans=len(plans), plans_reached=reached, close_in_flight=close_res, model_runs=info["model_runs"], mutants=info["mutants"],
                   exhaustive=True, trace_events_validated=len(lines))
        write_evidence(prop, tier, seed, "fault_enumeration", cov, time.time() - t0, violations=len(verdict.violations),
                       assumptions=["fault kinds per call site are those listed in spec/FaultTable.tla",
                                    "a signature is counted only if it verifies (independent SSZ/BLS oracle) for some entry of the request"])
        return rc
    finally:
        cleanup(wd)


def replay(prop, path):
    obj = json.load(open(path))["replay"]
    if obj.get("lock"):
        import lockfamily
        return lockfamily.replay(prop, path)
    wd = workdir(prop + "-replay")
    try:
        events, rc, err = run_driver([obj["scenario"]], wd, tag="replay")
        lines = []
        seqfamily.project_one(obj["scenario"]["id"], {"q": dict(wf=False, ip="none", faults=obj["faults"])}, [], events, lines)
        for ln in lines:
            print(json.dumps(ln))
        ok, violated, pos, r = seqfamily.validate(lines, ["SigIffSucceeded", "FailClosed"], 3, wd)
        if ok:
            print("replay: run accepted")
            return 0
        print("VIOLATION property=C06 replay=%s" % path)
        return 1
    finally:
        cleanup(wd)

"""Sequential signing family: C01, C02, C05 (rule level), C09 (first half).

Model side : SlashSeq.tla exhaustively (shipped configuration must hold, design mutants must be killed),
             SlashTable.tla (complete transition table + all two-step histories), SlashSeqSim.tla (random
             histories with a history variable), mutant counterexamples as attack histories.
Code side  : every generated behaviour is replayed on the real handler->signer->ruler->rules stack under
             several concretisations of the abstract epochs; outcomes compared with the model (DRIFT);
             the recorded run is validated by TLC against the layer-P trace specification SeqTrace.tla,
             whose invariants are the property statements (VERDICT)."""
import json, os, random, re, time
from vlib import *

K = 24  # keys per world (each replayed history gets its own key)
# (loopback addresses: over real TCP - the binary phase - a client can connect FROM any 127.x.y.z)
ADMIN_IP = "127.0.0.1"
IPS = {"listed": ADMIN_IP, "unlisted": "127.9.9.9", "none": ""}
NEAR_IPS = ["127.0.0.10", "127.0.0.11", "127.0.0.100", "127.0.0.12", "127.0.0.19"]     # not listed; the text begins with the listed entry


def ip_of(cls, rid):
    if cls == "near":
        import zlib
        return NEAR_IPS[zlib.crc32(rid.encode()) % len(NEAR_IPS)]
    return IPS[cls]

BASE = dict(MaxI=2, EpochGuard=True, ZeroIsNone=False, TargetGE=False, SourceChecked=True, SourceStrict=False,
            PropGE=False, GenesisRule=True, DeniedKeepsState=True, GenericDeniesSlashable=True, AttestChecksDomain=True, ExitIPCheck="exact")
SEQ_EXTRA = dict(Roots={"A", "B"}, AttDoms={"att", "other"}, PropDoms={"prop", "other"},
                 GenDoms={"att", "prop", "exit", "randao"}, Kinds={"att", "prop"})

PROPS = {
    "C01": dict(kinds={"att"}, inv=["NoSlashableAtt", "Covered"], props=["Monotone"],
                mutants=[("EpochGuard", False), ("ZeroIsNone", True), ("TargetGE", True), ("SourceChecked", False)],
                trace_inv=["NoSlashableAtt"]),
    "C02": dict(kinds={"prop"}, inv=["NoDoubleProposal", "ProposalSlotsIncrease", "Covered"], props=["Monotone"],
                mutants=[("EpochGuard", False), ("ZeroIsNone", True), ("PropGE", True)],
                trace_inv=["NoDoubleProposal", "SlotsIncrease"]),
    "C09": dict(kinds={"att", "prop"}, inv=["AdvancingSigned"], props=[],
                mutants=[("SourceStrict", True), ("GenesisRule", False), ("DeniedKeepsState", False)],
                trace_inv=["AdvancingSigned"]),
    "C05": dict(kinds={"att", "prop"}, inv=["RoutedByDomain"], props=[],
                mutants=[("GenericDeniesSlashable", False), ("AttestChecksDomain", False), ("ExitIPCheck", "none"), ("ExitIPCheck", "prefix")],
                trace_inv=["Routed"]),
}


def consts(maxi, kinds, **over):
    c = dict(BASE)
    c.update(SEQ_EXTRA)
    c["MaxI"] = maxi
    c["Kinds"] = set(kinds)
    c.update(over)
    return c


# ------------------------------------------------------------------ model phase
def model_phase(prop, tier, wd, info):
    p = PROPS[prop]
    maxi = 3 if tier == "quick" else 4
    cfg = make_cfg(consts(maxi, p["kinds"]), invariants=p["inv"], properties=p["props"])
    r = tlc("SlashSeq", cfg, wd, name="SlashSeq_" + prop)
    require_ok(r, "SlashSeq(%s, MaxI=%d)" % (prop, maxi))
    info["states"] += r.distinct
    info["transitions"] += r.generated
    info["model_runs"].append(dict(module="SlashSeq", MaxI=maxi, kinds=sorted(p["kinds"]), invariants=p["inv"] + p["props"],
                                   distinct=r.distinct, generated=r.generated, depth=r.depth, wall_s=round(r.wall, 1)))
    attacks = []
    for name, val in p["mutants"]:
        # one run per invariant so that each yields its own (shortest) attack history
        killed_by = []
        for inv in p["inv"]:
            cfgm = make_cfg(consts(3, p["kinds"], **{name: val}), invariants=[inv])
            rm = tlc("SlashSeq", cfgm, wd, name="mut_%s_%s_%s" % (prop, name, inv))
            if rm.error:
                raise Inconclusive("mutant run %s failed: %s" % (name, rm.error))
            if rm.violated:
                killed_by.append(inv)
                hist = attack_from_trace(rm.trace)
                if hist:
                    attacks.append(dict(mutant="%s=%s" % (name, val), inv=inv, hist=hist))
        if not killed_by:
            raise Inconclusive("design mutant %s=%s survives every invariant of %s: model too weak" % (name, val, prop))
        info["mutants"].append(dict(mutant="%s=%s" % (name, val), killed_by=killed_by))
    return attacks


def apalache_phase(prop, wd, info):
    """Unbounded epochs: the inductive invariant of spec/apalache/Watermark.tla (real uint64 / int64 constants)."""
    mod = os.path.join(SPEC, "apalache", "Watermark.tla")
    ok0, _, _ = apalache(mod, dict(Guard=True), "Init", "IndInv", 0, wd, "apa_init")
    ok1, _, _ = apalache(mod, dict(Guard=True), "IndInit", "IndInv", 1, wd, "apa_step")
    if not (ok0 and ok1):
        raise Inconclusive("Apalache: IndInv of Watermark.tla is not inductive for the shipped design")
    # non-vacuity: the same obligation fails for the pre-fix design, with real values
    okm, viol, states = apalache(mod, dict(Guard=False), "IndInit", "IndInv", 1, wd, "apa_mut", next_="Att" if prop == "C01" else "Prop")
    if not viol:
        raise Inconclusive("Apalache: the unguarded design satisfies IndInv - the invariant is too weak")
    info["model_runs"].append(dict(module="apalache/Watermark", obligations=["Init => IndInv", "IndInv /\\ Next => IndInv'"], discharged=2,
                                   unguarded_design_counterexample=True))
    # the deductive counterpart (TLAPS): Spec => []NoSlashable for every signed maximum M / unsigned maximum 2M+1
    proved, nobl, tail = tlaps(os.path.join(SPEC, "tlaps", "WatermarkProof.tla"), wd)
    if not proved:
        raise Inconclusive("TLAPS proof WatermarkProof.tla did not check: %s" % tail)
    info["model_runs"].append(dict(module="tlaps/WatermarkProof", theorem="Spec => []NoSlashable (unbounded epochs)", obligations_proved=nobl))
    info["mutants"].append(dict(mutant="Watermark Guard=FALSE (Apalache)", killed_by=["IndInv"]))
    concrete = []
    if states:
        last = states[-1]
        big = lambda v: int(v["#bigint"]) if isinstance(v, dict) else int(v)
        for m in last["relA"]["#set"]:
            concrete.append(dict(kind="att", s=big(m["s"]), t=big(m["t"])))
        for m in last["relP"]["#set"]:
            concrete.append(dict(kind="prop", slot=big(m["slot"])))
    return concrete


def attack_from_trace(trace):
    if not trace:
        return None
    hist = []
    for step in trace["counterexample"]["action"]:
        act = step[1]
        c = act.get("context", {})
        if act["name"] == "Att":
            hist.append(dict(op="att", s=c["s"], t=c["t"], root=c["root"], dom=c["dom"]))
        elif act["name"] == "Prop":
            hist.append(dict(op="prop", slot=c["slot"], root=c["root"], dom=c["dom"]))
    return hist


def gen_table(maxi, wd, pairs=True):
    c = dict(BASE)
    c.update(MaxI=maxi, OutFile="table.json", AttDomsT={"att", "other"}, PropDomsT={"prop", "other"},
             GenDomsT={"att", "prop", "exit", "randao", "deposit", "selection", "aggregate", "sync", "syncsel", "contrib", "appmask", "other", "att2", "prop2",
                       "shift4:att", "shift4:prop", "shift1:att", "shift31:prop", "shift16:att", "shift4:exit", "shift4:randao"},
             RootsT={"A", "B"}, WithPairs=pairs)
    r = tlc("SlashTable", make_cfg(c), wd, name="SlashTable", workers=1)
    require_ok(r, "SlashTable")
    return json.load(open(os.path.join(wd, "SlashTable", "table.json")))


def gen_histories(maxi, kinds, n, depth, seed, wd):
    c = consts(maxi, kinds, Depth=depth)
    workers = min(NCPU, 8)
    per = (n + workers - 1) // workers
    r = tlc("SlashSeqSim", make_cfg(c, spec="SimSpec"), wd, name="SlashSeqSim", workers=workers,
            simulate="num=1", depth=(depth + 1) * per, seed=seed, timeout=600)
    if r.error:
        raise Inconclusive("SlashSeqSim failed: %s" % r.error)
    out = []
    for line in r.out.splitlines():
        m = re.match(r'<<"HIST", "(.*)">>$', line)
        if m:
            out.append(json.loads(m.group(1).replace('\\"', '"')))
    if not out:
        raise Inconclusive("SlashSeqSim produced no behaviours")
    return stable_sample(out, n, seed)


# ------------------------------------------------------------------ scenario construction
def unsigned(v, maxi):
    """TLA stored value (int64 view) -> abstract unsigned value (or -1)."""
    return v if v >= -1 else v + 2 * (maxi + 1)


def concrete_i64(v, conc, maxi):
    if v == -1:
        return "-1"
    if v >= 0:
        return conc[v]
    return str(int(conc[v + 2 * (maxi + 1)]) - U64)


class Builder:
    """Packs independent per-key histories into scenarios of K keys."""

    def __init__(self, tag, conc_name, conc, maxi):
        self.tag, self.conc_name, self.conc, self.maxi = tag, conc_name, conc, maxi
        self.scenarios = []
        self.force_batch = None   # None: alternate by scenario parity; True / False: every scenario with / without the batch endpoint
        self.expect = {}   # scenario id -> {"ops": {rid: [verdicts]}, "final": {k: (s,t,p) or None}}
        self.meta = {}     # scenario id -> {rid: {"wf":bool, "ip":class}}
        self._cur = None

    def _new(self):
        sid = "%s-%s-%d" % (self.tag, self.conc_name, len(self.scenarios))
        self._cur = dict(id=sid, world=dict(nkeys=K, admin_ips=[ADMIN_IP], dist=3), conc=self.conc, prior=[], ops=[])
        self._lanes = []
        self.scenarios.append(self._cur)
        self.expect[sid] = dict(ops={}, final={}, floors=[])
        self.meta[sid] = {}
        return sid

    def add_history(self, prior, steps, final, batchable=False):
        """prior: None or dict(kind, s, t / slot) in TLA stored values; steps: list of dict(op,...,v);
        final: expected (s,t,ps) stored values or None to skip."""
        if self._cur is None or len(self._lanes) >= K:
            self.flush()
            self._new()
        k = len(self._lanes)
        self._lanes.append(dict(k=k, steps=steps, batchable=batchable))
        sid = self._cur["id"]
        wf = True
        if prior:
            pr = dict(k=k, kind=prior["kind"], fmt=prior.get("fmt", "v1"))
            if prior["kind"] == "att":
                pr["sv"] = concrete_i64(prior["s"], self.conc, self.maxi)
                pr["tv"] = concrete_i64(prior["t"], self.conc, self.maxi)
                if prior["s"] < -1 or prior["t"] < -1:
                    wf = False
                self.expect[sid]["floors"].append(dict(k="k%d" % k, s=max(prior["s"], -1), t=max(prior["t"], -1), slot=-1))
            else:
                pr["slotv"] = concrete_i64(prior["slot"], self.conc, self.maxi)
                if prior["slot"] < -1:
                    wf = False
                self.expect[sid]["floors"].append(dict(k="k%d" % k, s=-1, t=-1, slot=max(prior["slot"], -1)))
            self._cur["prior"].append(pr)
        self._lanes[-1]["wf"] = wf
        if final is not None:
            self.expect[sid]["final"]["k%d" % k] = tuple(None if x is None else unsigned(x, self.maxi) for x in final)

    def flush(self):
        if self._cur is None or not self._lanes:
            return
        sc, sid = self._cur, self._cur["id"]
        nsteps = max(len(l["steps"]) for l in self._lanes)
        batch_mode = all(l["batchable"] for l in self._lanes) and len(self._lanes) > 1 and (len(self.scenarios) % 2 == 0)
        if self.force_batch is not None:
            batch_mode = self.force_batch and len(self._lanes) > 1
        for i in range(nsteps):
            row = [(l, l["steps"][i]) for l in self._lanes if i < len(l["steps"])]
            if any(st["op"] == "restart" for _, st in row):
                sc["ops"].append(dict(id="rs%d" % i, kind="restart"))
            singles = row
            if batch_mode:
                # the attestation steps of all lanes at this position go through the BATCH endpoint as one request
                # (distinct keys); everything else is sent singly
                atts = [(l, st) for l, st in row if st["op"] == "att"]
                if len(atts) > 1:
                    rid = "b%d" % i
                    ents = [dict(k=l["k"], s=st["s"], t=st["t"], root=st.get("root", "A"), dom=st.get("dom", "att"),
                                 by=st.get("by", "name")) for l, st in atts]
                    sc["ops"].append(dict(id=rid, kind="atts", ents=ents))
                    self.expect[sid]["ops"][rid] = [st.get("v") for _, st in atts]
                    self.meta[sid][rid] = dict(wf=all(l["wf"] for l, _ in atts), ip="none")
                    singles = [(l, st) for l, st in row if st["op"] != "att"]
            for l, st in singles:
                rid = "k%ds%d" % (l["k"], i)
                if st["op"] == "att":
                    op = dict(id=rid, kind="att", by=st.get("by", "name"), dom=st.get("dom", "att"),
                              ents=[dict(k=l["k"], s=st["s"], t=st["t"], root=st.get("root", "A"))])
                elif st["op"] == "prop":
                    op = dict(id=rid, kind="prop", by=st.get("by", "name"), dom=st.get("dom", "prop"),
                              ents=[dict(k=l["k"], slot=st["slot"], root=st.get("root", "A"))])
                elif st["op"] in ("gen", "multi"):
                    op = dict(id=rid, kind=st["op"], dom=st["dom"], ip=ip_of(st.get("ip", "none"), rid),
                              ents=[dict(k=l["k"], root=st.get("root", "A"))] * (1 if st["op"] == "gen" else 1))
                else:
                    continue
                sc["ops"].append(op)
                self.expect[sid]["ops"][rid] = [st.get("v")]
                self.meta[sid][rid] = dict(wf=l["wf"], ip=st.get("ip", "none"))
        self._cur = None
        self._lanes = []


def verdict_state(v):
    return {"APPROVED": "SUCCEEDED", "DENIED": "DENIED"}.get(v)


# ------------------------------------------------------------------ conformance + projection
def compare(builder, by_sc, drift):
    """Layer-D comparison of real outcomes with the model's (DRIFT, never a verdict)."""
    checked = 0
    for sc in builder.scenarios:
        sid = sc["id"]
        evs = by_sc.get(sid)
        if evs is None:
            raise Inconclusive("scenario %s produced no events" % sid)
        exp = builder.expect[sid]
        for ev in evs:
            if ev["ev"] == "Respond" and ev["r"] in exp["ops"]:
                want = [verdict_state(v) for v in exp["ops"][ev["r"]]]
                if None in want:
                    continue
                checked += 1
                if ev["res"] != want and len(drift) < 50:
                    drift.append(dict(scenario=sid, r=ev["r"], expected=want, got=ev["res"]))
            if ev["ev"] == "Export" and ev.get("r") == "final":
                for k, want in exp["final"].items():
                    got = ev["db"].get(k, {"as": -1, "at": -1, "ps": -1})
                    gt = (got["as"], got["at"], got["ps"])
                    w = tuple(want)
                    # compare only the dimensions the history talks about (None = don't care)
                    ok = all(a is None or a == b for a, b in zip(w, gt))
                    checked += 1
                    if not ok and len(drift) < 50:
                        drift.append(dict(scenario=sid, key=k, expected_db=w, got_db=gt))
    return checked


def project_one(sid, meta, floors, evs, lines):
    reqip = {}
    lines.append(dict(ev="Begin", sc=sid))
    for f in floors:
        lines.append(dict(ev="Floor", **f))
    for ev in evs:
        e = ev["ev"]
        if e == "Invoke":
            m = meta.get(ev["r"], dict(wf=False, ip="none"))
            reqip[ev["r"]] = m["ip"]
            lines.append(dict(ev="Invoke", r=ev["r"], kind=ev["kind"], wf=bool(m["wf"]),
                              ents=[dict(k=x["k"], s=x["s"], t=x["t"], slot=x["slot"], root=x["root"], dom=x["dom"]) for x in ev["ents"]]))
            for i in m.get("faults", []):
                lines.append(dict(ev="Fault", r=ev["r"], i=i))
        elif e == "Release":
            lines.append(dict(ev="Release", r=ev["r"], i=ev["i"], pos=ev["pos"], k=ev["k"], kind=ev["kind"], s=ev["s"], t=ev["t"], slot=ev["slot"],
                              root=ev["root"], dom=ev["dom"], ip=reqip.get(ev["r"], "none")))
        elif e == "Respond":
            lines.append(dict(ev="Respond", r=ev["r"], res=ev["res"], sig=ev["sig"]))
        elif e == "BadSig":
            lines.append(dict(ev="BadSig", r=ev["r"]))


def project(builder, by_sc, lines, index):
    """Project recorded events to the SeqTrace alphabet (filtering and renaming only)."""
    for sc in builder.scenarios:
        sid = sc["id"]
        start = len(lines) + 1
        project_one(sid, builder.meta[sid], builder.expect[sid]["floors"], by_sc[sid], lines)
        index.append((start, len(lines), sid))


def validate(lines, invariants, maxi, wd, name="SeqTrace"):
    """Run TLC trace validation; returns (accepted, violated_invariant, line_number)."""
    rundir = os.path.join(wd, name)
    os.makedirs(rundir, exist_ok=True)
    with open(os.path.join(rundir, "trace.ndjson"), "w") as fh:
        for ln in lines:
            fh.write(json.dumps(ln) + "\n")
    cfg = make_cfg(dict(TraceFile="trace.ndjson", MaxI=maxi), invariants=invariants, constraint="HighWater",
                   postcondition="Accepted")
    r = tlc("SeqTrace", cfg, wd, name=name, workers=1, timeout=1200, dump_trace=False,
            java_opts="-Dtlc2.tool.queue.IStateQueue=StateDeque -Xss64m")
    if r.ok:
        return True, None, None, r
    m = re.findall(r"/\\ l = (\d+)", r.out)
    pos = int(m[-1]) if m else None
    if r.violated and r.violated != "postcondition":
        return False, r.violated, pos, r
    if r.violated == "postcondition":
        return False, "trace-not-accepted", pos, r
    raise Inconclusive("trace validation failed to run: %s" % r.error)


def binding_selftest(prop, lines, index, maxi, wd):
    """Corrupt one recorded field of an accepted trace: the layer-P specification must reject it (else it constrains nothing)."""
    inv = PROPS[prop]["trace_inv"]
    want = {"C01": "att", "C02": "prop", "C05": "gen", "C09": None}[prop]
    for a, b, sid in index:
        seg = [json.loads(json.dumps(x)) for x in lines[a - 1:b]]
        rel = [x for x in seg if x["ev"] == "Release" and (want is None or x["kind"] == want)]
        if not rel:
            continue
        if prop in ("C01", "C02"):
            twin = dict(rel[0])
            twin["root"] = twin["root"] + "x"
            twin["r"] = "corrupt"
            seg.append(twin)
        elif prop == "C05":
            rel[0]["dom"] = "att"
        else:
            wf = {x["r"] for x in seg if x["ev"] == "Invoke" and x.get("wf")}
            done = None
            for x in seg:
                if x["ev"] == "Respond" and x["r"] in wf and "SUCCEEDED" in x["res"] and done is None:
                    i_ = x["res"].index("SUCCEEDED")
                    x["res"][i_], x["sig"][i_] = "DENIED", False
                    done = (x["r"], i_)
            if done is None:
                continue
            seg = [x for x in seg if not (x["ev"] == "Release" and x["r"] == done[0] and x["i"] == done[1])]
        ok, violated, pos, r = validate(seg, inv, maxi, wd, name="SeqTraceSelf")
        return dict(corrupted_trace_rejected=not ok, by=violated)
    return dict(corrupted_trace_rejected=None, note="no suitable release in the recorded traces")


def locate(index, pos):
    for a, b, sid in index:
        if a <= pos - 1 <= b + 1:
            return sid
    return None


# ------------------------------------------------------------------ the check
def run(prop, tier, seed):
    t0 = time.time()
    p = PROPS[prop]
    wd = workdir(prop)
    info = dict(states=0, transitions=0, mutants=[], model_runs=[])
    verdict = Verdict(prop)
    drift = []
    try:
        attacks = model_phase(prop, tier, wd, info)
        apa = apalache_phase(prop, wd, info) if prop in ("C01", "C02") else []
        maxi = 3
        table = gen_table(maxi, wd)
        concs = concretisations(maxi, seed, n_random=1 if tier == "quick" else 3)
        rnd = random.Random(seed)
        nsim = 60 if tier == "quick" else 600
        hists = gen_histories(maxi, p["kinds"], nsim, 8 if tier == "quick" else 12, seed, wd)
        builders = []
        for ci, (cname, conc) in enumerate(concs):
            b = Builder(prop, cname, conc, maxi)
            # (1) complete transition table of the property's endpoints
            if "att" in p["kinds"]:
                rows = table["att"]
                if tier == "quick":
                    rows = rnd.sample(rows, 600)
                for row in rows:
                    pr = None if (row["ps"] == -1 and row["pt"] == -1 and (row["s"] + row["t"]) % 2 == 0) else \
                        dict(kind="att", s=row["ps"], t=row["pt"], fmt="gob" if (row["s"] + row["pt"]) % 3 == 0 else "v1")
                    b.add_history(pr, [dict(op="att", s=row["s"], t=row["t"], dom=row["dom"], v=row["v"],
                                            by="key" if (row["s"] + row["t"]) % 2 else "name")],
                                  (row["ns"], row["nt"], None), batchable=True)
            if "prop" in p["kinds"]:
                for row in table["prop"]:
                    pr = None if row["pp"] == -1 and row["slot"] % 2 == 0 else dict(kind="prop", slot=row["pp"], fmt="gob" if row["slot"] % 3 == 0 else "v1")
                    b.add_history(pr, [dict(op="prop", slot=row["slot"], dom=row["dom"], v=row["v"], by="key" if row["slot"] % 2 else "name")],
                                  (None, None, row["np"]))
            if prop == "C05":
                for row in table["gen"]:
                    for opk in ("gen", "multi"):
                        b.add_history(None, [dict(op=opk, dom=row["dom"], ip=row["ip"], v=row["v"])], (-1, -1, -1))
                # two-step histories on one service instance: a verdict must not depend on what was served before
                gp = [(r1, r2) for r1 in table["gen"] for r2 in table["gen"]]
                hot = [q for q in gp if "exit" in (q[0]["dom"], q[1]["dom"]) or q[0]["dom"] in ("att", "prop") or q[1]["dom"] in ("att", "prop")]
                if tier == "quick":
                    gp = hot + rnd.sample(gp, 200)
                b.flush()
                for qi, (r1, r2) in enumerate(gp):
                    # each pair gets a scenario of its own stack: pack one pair per lane, lanes run step 0 first, then step 1
                    b.add_history(None, [dict(op=("gen", "multi")[qi % 2], dom=r1["dom"], ip=r1["ip"], v=r1["v"]),
                                         dict(op=("multi", "gen")[(qi // 2) % 2], dom=r2["dom"], ip=r2["ip"], v=r2["v"])], (-1, -1, -1))
            b.flush()
            # (2) all two-step histories
            if "att" in p["kinds"] and prop in ("C01", "C09"):
                prs = table["attpairs"]
                if tier == "quick":
                    # the pairs whose first request is signed are the ones that can expose a slashable second signature
                    hot = sorted((q for q in prs if q["v1"] == "APPROVED"), key=lambda q: json.dumps(q, sort_keys=True))
                    cold = sorted((q for q in prs if q["v1"] != "APPROVED"), key=lambda q: json.dumps(q, sort_keys=True))
                    prs = rnd.sample(hot, min(len(hot), 900)) + rnd.sample(cold, 100)
                for qi, q in enumerate(prs):
                    b.add_history(None, [dict(op="att", s=q["s1"], t=q["t1"], root=q["r1"], v=q["v1"], by=("name", "key")[qi % 2]),
                                         dict(op="att", s=q["s2"], t=q["t2"], root=q["r2"], v=q["v2"], by=("keypad", "name", "key")[(qi + ci) % 3])],
                                  (q["ns"], q["nt"], None), batchable=True)
                # the same pairs in batches that also carry a REFUSED entry: every pair lane is followed by a companion lane whose
                # request (target before source) is refused at every step, so each batch reads approved/denied alternately
                b.flush()
                b.force_batch = True
                hotp = sorted((q for q in table["attpairs"] if q["v1"] == "APPROVED"), key=lambda q: json.dumps(q, sort_keys=True))
                for qi, q in enumerate(rnd.sample(hotp, min(len(hotp), 120 if tier == "quick" else 1200))):
                    b.add_history(None, [dict(op="att", s=q["s1"], t=q["t1"], root=q["r1"], v=q["v1"]), dict(op="att", s=q["s2"], t=q["t2"], root=q["r2"], v=q["v2"])],
                                  (q["ns"], q["nt"], None), batchable=True)
                    b.add_history(None, [dict(op="att", s=2, t=1, root="Z", v="DENIED"), dict(op="att", s=3, t=1, root="Z", v="DENIED")], (-1, -1, None), batchable=True)
                b.flush()
                b.force_batch = None
            if "prop" in p["kinds"] and prop in ("C02", "C09"):
                for qi, q in enumerate(table["proppairs"]):
                    b.add_history(None, [dict(op="prop", slot=q["slot1"], root=q["r1"], v=q["v1"], by=("name", "key")[qi % 2]),
                                         dict(op="prop", slot=q["slot2"], root=q["r2"], v=q["v2"], by=("keypad", "name", "key")[(qi + ci) % 3])], (None, None, q["np"]))
            b.flush()
            # (3) simulated histories (restarts, by name / by key, foreign domains)
            # each simulated history is replayed singly and, for attestations, once more through the batch endpoint
            for mode in ([False, True] if "att" in p["kinds"] else [False]):
                b.flush()
                b.force_batch = mode
                for h in hists:
                    steps = [dict(x) for x in h]
                    last = steps[-1]["db"]
                    b.add_history(None, steps, (last["s"], last["t"], last["ps"]), batchable=True)
                b.flush()
            b.force_batch = None
            # (4) attack histories from the design mutants (expected outcomes are those of the SHIPPED model,
            #     which we do not have here: no expectation, layer P decides)
            for mode in ([False, True] if "att" in p["kinds"] else [False]):
                b.flush()
                b.force_batch = mode
                # every attack history is followed by EVERY single next duty of the bounded domain ("any continuation"): one lane per
                # continuation, so that what the attack left behind in the database is probed from all sides (and, in batch mode,
                # the lanes' steps form batches)
                follow = []
                if "att" in p["kinds"]:
                    follow += [dict(op="att", s=s_, t=t_, root="B", dom="att") for s_ in range(maxi + 1) for t_ in range(maxi + 1)]
                if "prop" in p["kinds"]:
                    follow += [dict(op="prop", slot=x_, root="B", dom="prop") for x_ in range(maxi + 1)]
                for a in attacks:
                    b.add_history(None, [dict(x) for x in a["hist"]], None, batchable=True)
                    for f in follow:
                        b.add_history(None, [dict(x) for x in a["hist"]] + [dict(f)], None, batchable=True)
                b.flush()
            b.force_batch = None
            builders.append(b)

        if apa:
            # the released messages of the Apalache counterexample (real uint64 values) followed by their conflicting twins
            vals = sorted({0} | {v for m in apa for v in ([m["s"], m["t"]] if m["kind"] == "att" else [m["slot"]])} | {2 ** 64 - 1})
            while len(vals) < 2 * (maxi + 1):
                vals.append(vals[-1])
            ab = Builder(prop + "apa", "apalache-values", [str(v) for v in vals], maxi)
            idx = {v: i for i, v in enumerate(vals)}
            for m in apa:
                if m["kind"] == "att" and prop == "C01":
                    ab.add_history(None, [dict(op="att", s=idx[m["s"]], t=idx[m["t"]], root="A"), dict(op="att", s=idx[m["s"]], t=idx[m["t"]], root="B", by="key")], None)
                    ab.add_history(None, [dict(op="att", s=idx[m["s"]], t=idx[m["t"]], root="A"), dict(op="att", s=idx[m["s"]], t=idx[m["t"]], root="B")], None, batchable=True)
                if m["kind"] == "prop" and prop == "C02":
                    ab.add_history(None, [dict(op="prop", slot=idx[m["slot"]], root="A"), dict(op="prop", slot=idx[m["slot"]], root="B")], None)
            ab.flush()
            if ab.scenarios:
                builders.append(ab)
        lines, index, nsc, nreq = [], [], 0, 0
        compared = 0
        for b in builders:
            events, rc, err = run_driver(b.scenarios, wd, tag=b.tag + "-" + b.conc_name, timeout=1500)
            if rc != 0:
                raise Inconclusive("driver exited %s: %s" % (rc, err[-500:]))
            by_sc = split_scenarios(events)
            compared += compare(b, by_sc, drift)
            project(b, by_sc, lines, index)
            nsc += len(b.scenarios)
            nreq += sum(1 for e in events if e["ev"] == "Respond")
        # the SHIPPED PROGRAM: some of the same scenarios are sent to the real dirk binary over TLS (restart = SIGKILL and a new
        # process on the same storage); the recorded releases join the same trace
        binary = None
        if prop in ("C01", "C02", "C09", "C05"):
            ok_kinds = {"att", "atts", "prop", "restart"} | ({"gen", "multi"} if prop == "C05" else set())
            cand = [(b, s_) for b in builders for s_ in b.scenarios if not s_.get("prior") and all(o["kind"] in ok_kinds for o in s_["ops"])]
            withr = [c_ for c_ in cand if any(o["kind"] == "restart" for o in c_[1]["ops"])]
            plain = [c_ for c_ in cand if c_ not in withr]
            if prop == "C05":
                # the program's own reading of server.rules.admin-ips and its own view of the caller's address: scenarios with
                # voluntary-exit requests from listed, unlisted and near-miss source addresses (the connection is BOUND to that address)
                exits = [c_ for c_ in plain if any(o.get("dom") == "exit" for o in c_[1]["ops"])]
                plain = exits[:10 if tier == "quick" else 80] + [c_ for c_ in plain if c_ not in exits]
            cand = (withr[:4] + plain[:3] + plain[-1:]) if tier == "quick" and prop != "C05" else ((withr[:2] + plain[:12]) if tier == "quick" else (withr[:20] + plain[:20 if prop != "C05" else 100]))
            bscs, bmeta = [], {}
            for b, s_ in cand:
                c_ = dict(s_, id=s_["id"] + "-bin")
                m_ = dict(b.meta[s_["id"]])
                if prop == "C05":
                    # over TCP every request has a source address: one that states none comes from the listed 127.0.0.1
                    c_["ops"] = [dict(o_, ip=ADMIN_IP) if o_["kind"] in ("gen", "multi") and not o_.get("ip") else o_ for o_ in s_["ops"]]
                    for o_ in s_["ops"]:
                        if o_["kind"] in ("gen", "multi") and not o_.get("ip") and o_["id"] in m_:
                            m_[o_["id"]] = dict(m_[o_["id"]], ip="listed")
                bscs.append(c_)
                bmeta[c_["id"]] = (m_, b.expect[s_["id"]]["floors"], c_)
            if bscs:
                bevents, brc, berr = run_driver_parallel_bin(bscs, wd, build_dirk())
                if brc != 0:
                    raise Inconclusive("driver against the dirk binary exited %s: %s" % (brc, berr[-400:]))
                bby = split_scenarios(bevents)
                for sid_, (m_, fl_, c_) in bmeta.items():
                    if sid_ not in bby:
                        raise Inconclusive("the dirk binary run of %s produced no events" % sid_)
                    start = len(lines) + 1
                    project_one(sid_, m_, fl_, bby[sid_], lines)
                    index.append((start, len(lines), sid_))
                    nreq += sum(1 for e in bby[sid_] if e["ev"] == "Respond")
                nsc += len(bscs)
                binary = dict(scenarios=len(bscs), requests=sum(1 for e in bevents if e["ev"] == "Respond"), releases=sum(1 for e in bevents if e["ev"] == "Release"),
                              restarts=sum(1 for e in bevents if e["ev"] == "Restart"))
                remote_lookup = {sid_: v for sid_, v in bmeta.items()}
        # "over its whole lifetime ... restarts in between": a restart that does not wait for the old process - a SECOND process of the
        # program started on the same directories while the first still serves.  If it comes up at all, what the two processes sign
        # for one key is still one key's history: the second of a conflicting pair is sent to the new process, the first to the old one
        ov_scs = []
        if prop in ("C01", "C02"):
            conc0 = concs[0][1]
            # Overlap.tla: with the directory lock at most one process runs and a new one knows everything signed before; without it
            # (design mutant) two processes each keep their own highest slot - the counterexample is the scenario below
            ocfg = dict(Procs={"p1", "p2", "p3"}, MaxSlot=3, Roots={"A", "B"}, DirLock=True)
            ro = tlc("Overlap", make_cfg(ocfg, invariants=["NoDoubleProposal", "OneAtATime", "ViewCovers"], deadlock=False), wd, name="Overlap", timeout=600)
            require_ok(ro, "Overlap")
            rom = tlc("Overlap", make_cfg(dict(ocfg, DirLock=False), invariants=["NoDoubleProposal"], deadlock=False), wd, name="Overlap_mut", timeout=600)
            require_killed(rom, "Overlap mutant DirLock=FALSE", ["NoDoubleProposal"])
            info["model_runs"].append(dict(module="Overlap", distinct=ro.distinct, generated=ro.generated, invariants=["NoDoubleProposal", "OneAtATime", "ViewCovers"], wall_s=round(ro.wall, 1)))
            info["mutants"].append(dict(mutant="Overlap DirLock=FALSE", killed_by=[rom.violated]))
            def pair_(i_):
                if prop == "C02":
                    return ("prop", [dict(k=0, slot=1, root="A")], [dict(k=0, slot=2 + i_ % 2, root="A")], [dict(k=0, slot=2 + i_ % 2, root="B")])
                return ("att", [dict(k=0, s=0, t=1, root="A")], [dict(k=0, s=1, t=3, root="A")], [[dict(k=0, s=1, t=3, root="B")], [dict(k=0, s=2, t=2 + 0, root="B")]][0])
            for oi in range(2 if tier == "quick" else 6):
                kd_, e0_, e1_, e2_ = pair_(oi)
                ops_ = [dict(id="o0", kind=kd_, ents=e0_), dict(id="ov", kind="overlap"), dict(id="o1", kind=kd_, ents=e1_), dict(id="o2", kind=kd_, ents=e2_, alt=True),
                        dict(id="o3", kind=kd_, ents=e1_ if oi % 2 else e2_)]
                ov_scs.append(dict(id="%s-overlap-%d-bin" % (prop, oi), world=dict(nkeys=2), conc=conc0, ops=ops_))
            oev, orc, oerr = run_driver_parallel_bin(ov_scs, wd, build_dirk(), nproc=2)
            if orc != 0:
                raise Inconclusive("overlapping processes on one directory: driver exited %s: %s" % (orc, oerr[-300:]))
            oby = split_scenarios(oev)
            for sc_ in ov_scs:
                evs_ = oby.get(sc_["id"])
                if not evs_ or not any(e["ev"] == "Overlap" for e in evs_):
                    raise Inconclusive("overlapping processes: %s did not reach the start of the second process" % sc_["id"])
                start = len(lines) + 1
                project_one(sc_["id"], {}, [], evs_, lines)
                index.append((start, len(lines), sc_["id"]))
                nreq += sum(1 for e in evs_ if e["ev"] == "Respond")
            nsc += len(ov_scs)
        # generic BATCHES (Multisign) whose entries carry different domain types: every ordered pair of domain classes in one request,
        # so that a verdict taken for one position cannot stand in for another
        mix_scs = []
        if prop == "C05":
            conc0 = concs[0][1]
            doms = sorted({row["dom"] for row in table["gen"]})
            pairs_ = [(d1, d2) for d1 in doms for d2 in doms if d1 != d2 and ({d1, d2} & {"att", "prop", "exit", "shift4:att", "shift4:prop", "att2", "prop2"})]
            for i in range(0, len(pairs_), 40):
                ops = [dict(id="m%d" % j, kind="multi", ents=[dict(k=0, root="A", dom=d1), dict(k=1, root="B", dom=d2), dict(k=2, root="C", dom=d1)])
                       for j, (d1, d2) in enumerate(pairs_[i:i + 40])]
                mix_scs.append(dict(id="C05-mixed-%d" % (i // 40), world=dict(nkeys=3), conc=conc0, ops=ops))
                # the entries of a batch are handled by util.Scatter workers, each taking a slice of the batch: with one worker (all three
                # entries in one slice), with two, and in batches of eight over four keys with two workers (slices of four)
                mix_scs.append(dict(id="C05-mixed-%d-p1" % (i // 40), world=dict(nkeys=3), conc=conc0, ops=ops, gomaxprocs=1))
                ops8 = [dict(id="m%d" % j, kind="multi", ents=[dict(k=x_ % 4, root="ABCDEFGH"[x_], dom=(d1, d2)[(x_ + x_ // 4) % 2]) for x_ in range(8)])
                        for j, (d1, d2) in enumerate(pairs_[i:i + 40])]
                mix_scs.append(dict(id="C05-mixed-%d-p2" % (i // 40), world=dict(nkeys=4), conc=conc0, ops=ops8, gomaxprocs=2))
            mev, mrc, merr = run_driver(mix_scs, wd, tag="mixed", timeout=300)
            if mrc != 0:
                raise Inconclusive("mixed generic batches: driver exited %s: %s" % (mrc, merr[-300:]))
            mby = split_scenarios(mev)
            for sc_ in mix_scs:
                start = len(lines) + 1
                project_one(sc_["id"], {}, [], mby[sc_["id"]], lines)
                index.append((start, len(lines), sc_["id"]))
            nsc += len(mix_scs)
        # "repeat a key inside a batch": both requests of a conflicting pair in ONE batch, the key named twice (by name, by public key,
        # by padded key in every combination), next to an unrelated entry; followed by the same pair one at a time
        dup_scs = []
        if prop == "C01" and "attpairs" in table:
            conc0 = concs[0][1]
            hotd = sorted((q for q in table["attpairs"] if q["v1"] == "APPROVED"), key=lambda q: json.dumps(q, sort_keys=True))
            for qi, q in enumerate(rnd.sample(hotd, min(len(hotd), 60 if tier == "quick" else 600))):
                bys = [("name", "name"), ("name", "key"), ("key", "keypad"), ("keypad", "name")][qi % 4]
                e1 = dict(k=0, s=q["s1"], t=q["t1"], root=q["r1"], by=bys[0])
                e2 = dict(k=0, s=q["s2"], t=q["t2"], root=q["r2"], by=bys[1])
                other = dict(k=1, s=0, t=1, root="A")
                ents = [[e1, e2, other], [other, e1, e2], [e1, other, e2]][qi % 3]
                dup_scs.append(dict(id="C01-dupkey-%d" % qi, world=dict(nkeys=2), conc=conc0,
                                    ops=[dict(id="b", kind="atts", ents=ents), dict(id="x1", kind="att", ents=[dict(e1, by="name")]), dict(id="x2", kind="att", ents=[dict(e2, by="name")])]))
            dev, drc, derr = run_driver(dup_scs, wd, tag="dupkey", timeout=300)
            if drc != 0:
                raise Inconclusive("repeated-key batches: driver exited %s: %s" % (drc, derr[-300:]))
            dby = split_scenarios(dev)
            for sc_ in dup_scs:
                start = len(lines) + 1
                project_one(sc_["id"], {}, [], dby[sc_["id"]], lines)
                index.append((start, len(lines), sc_["id"]))
            nsc += len(dup_scs)
        # "singly or in batches": the two endpoints keep ONE record per key.  An older request through one endpoint, then the first of a
        # conflicting pair through the OTHER endpoint (a batch of two keys / a single request), then the second of the pair through either:
        # a record written by one endpoint must be what the other endpoint's next check reads
        mixep_scs = []
        if prop == "C01" and "attpairs" in table:
            conc0 = concs[0][1]
            # (pairs whose second request is refused BECAUSE of the first: alone - or after the older (0,0) - it would be signed)
            hotm = sorted((q for q in table["attpairs"] if q["v1"] == "APPROVED" and q["v2"] == "DENIED" and 0 < q["t1"] < 4 and q["s2"] < q["t2"] < 4), key=lambda q: json.dumps(q, sort_keys=True))
            for qi, q in enumerate(rnd.sample(hotm, min(len(hotm), 48 if tier == "quick" else 480))):
                e0 = dict(k=0, s=0, t=0, root="A")
                e1 = dict(k=0, s=q["s1"], t=q["t1"], root=q["r1"])
                e2 = dict(k=0, s=q["s2"], t=q["t2"], root=q["r2"])
                def one_(i_, e_):
                    return dict(id="x%d" % i_, kind="att", ents=[e_])
                def two_(i_, e_):
                    o_ = dict(e_, k=1)
                    return dict(id="x%d" % i_, kind="atts", ents=[[e_, o_], [o_, e_]][(qi + i_) % 2])
                shape = [(one_, two_, one_), (one_, two_, two_), (two_, one_, two_), (two_, one_, one_)][qi % 4]
                ops = [shape[0](0, e0), shape[1](1, e1), shape[2](2, e2)]
                if qi % 8 >= 4:
                    ops.insert(2, dict(id="ex", kind="export"))
                mixep_scs.append(dict(id="C01-mixep-%d" % qi, world=dict(nkeys=2), conc=conc0, ops=ops))
            mev_, mrc_, merr_ = run_driver(mixep_scs, wd, tag="mixep", timeout=300)
            if mrc_ != 0:
                raise Inconclusive("mixed-endpoint scenarios: driver exited %s: %s" % (mrc_, merr_[-300:]))
            mby_ = split_scenarios(mev_)
            if os.environ.get("VERIF_DEBUG"):
                json.dump(dict(scs=mixep_scs, ev=mev_), open("/tmp/mixep_dbg.json", "w"))
            for sc_ in mixep_scs:
                start = len(lines) + 1
                project_one(sc_["id"], {}, [], mby_[sc_["id"]], lines)
                index.append((start, len(lines), sc_["id"]))
                nreq += sum(1 for e in mby_[sc_["id"]] if e["ev"] == "Respond")
            nsc += len(mixep_scs)
        # the write of the record fails (injected storage error that persists over retries) for a request AND for its conflicting twin:
        # a lifetime that includes a full disk or a store being closed must not contain both signatures either
        fault_scs = []
        unfired = []
        if prop in ("C01", "C02"):
            conc0 = concs[0][1]
            def fsc(i, kind, site, e1, e2):
                return dict(id="%s-storefault-%d" % (prop, i), world=dict(nkeys=2), conc=conc0,
                            faults=[dict(site=site, rid=r_, key="k0", kind="error") for r_ in ("q1", "q2")],
                            ops=[dict(id="q1", kind=kind, ents=e1), dict(id="q2", kind=kind, ents=e2), dict(id="rs", kind="restart"), dict(id="q3", kind=kind, ents=e2)])
            if prop == "C01":
                fault_scs = [fsc(0, "att", "store.store.enter", [dict(k=0, s=0, t=1, root="A")], [dict(k=0, s=0, t=1, root="B")]),
                             fsc(1, "atts", "store.batch.enter", [dict(k=0, s=0, t=1, root="A"), dict(k=1, s=0, t=1, root="A")], [dict(k=0, s=0, t=1, root="B"), dict(k=1, s=0, t=1, root="B")]),
                             fsc(2, "att", "store.store.enter", [dict(k=0, s=1, t=3, root="A")], [dict(k=0, s=2, t=2, root="B")])]
            else:
                fault_scs = [fsc(0, "prop", "store.store.enter", [dict(k=0, slot=2, root="A")], [dict(k=0, slot=2, root="B")]),
                             fsc(1, "prop", "store.store.enter", [dict(k=0, slot=3, root="A")], [dict(k=0, slot=1, root="B")])]
            fev, frc, ferr = run_driver(fault_scs, wd, tag="storefault", timeout=300)
            if frc != 0:
                raise Inconclusive("store-fault scenarios: driver exited %s: %s" % (frc, ferr[-300:]))
            fby = split_scenarios(fev)
            for sc_ in fault_scs:
                end = [e for e in fby[sc_["id"]] if e["ev"] == "End"]
                if not (end and end[0]["faults_hit"]):
                    # (the run is still judged: a change that moves the write elsewhere shows in the other phases; only if nothing
                    # is found does the missing fault make the whole check inconclusive)
                    unfired.append(sc_["id"])
                start = len(lines) + 1
                project_one(sc_["id"], {}, [], fby[sc_["id"]], lines)
                index.append((start, len(lines), sc_["id"]))
            nsc += len(fault_scs)
        race = None
        race_scs = []
        if prop in ("C01", "C02"):
            # "whether requests arrive singly or in batches ... over its whole lifetime": requests also arrive CONCURRENTLY.  The
            # interleavings that designs without effective locking admit (SignerSim, broken LockMode) are imposed on the real
            # code through the gates; the recorded releases join the same trace and the same invariants decide.
            import concfamily
            race_scs = concfamily.race_scenarios(prop, seed, wd, 24 if tier == "quick" else 240, concs[0][1])
            rev, rdead, rstuck = concfamily.drive(race_scs, wd, tag="race")
            if rstuck:
                raise Inconclusive("race phase: watchdog fired without blocked-in-Lock evidence in %s" % rstuck[:3])
            for sc_ in race_scs:
                if sc_["id"] in rev and sc_["id"] not in {d_[0] for d_ in rdead}:
                    start = len(lines) + 1
                    project_one(sc_["id"], {}, [], rev[sc_["id"]], lines)
                    index.append((start, len(lines), sc_["id"]))
                    nreq += sum(1 for e in rev[sc_["id"]] if e["ev"] == "Respond")
            nsc += len(race_scs)
            race = dict(schedules=len(race_scs), deadlocked=[d_[0] for d_ in rdead],
                        releases=sum(1 for sid_, evs_ in rev.items() for e in evs_ if e["ev"] == "Release"))
            if rdead:
                print("NOTE: %d race schedule(s) deadlocked (decided under C15); excluded here" % len(rdead))
            # SEQUENTIAL CLIENTS IN PARALLEL, ONE PER KEY (free-running, no gates: true parallelism).  Each client walks its own key
            # upwards and asks for every duty twice - the duty and its conflicting twin - so any state that one key's request leaves in
            # something shared with another key's request (a buffer, a cache, a record under the wrong key) shows as a released twin.
            nk, steps = 8, 15
            pconc = concretisations(steps, seed, 0)[0][1]
            par_scs = []
            for pi in range(6 if tier == "quick" else 40):
                pops = []
                for k in range(nk):
                    for j in range(steps):
                        by = ("name", "key")[(k + j + pi) % 2]
                        if prop == "C02":
                            pops.append(dict(id="p%dk%dj%da" % (pi, k, j), kind="prop", lane=k + 1, by=by, ents=[dict(k=k, slot=j, root="A")]))
                            pops.append(dict(id="p%dk%dj%db" % (pi, k, j), kind="prop", lane=k + 1, by=by, ents=[dict(k=k, slot=j, root="B")]))
                        else:
                            pops.append(dict(id="p%dk%dj%da" % (pi, k, j), kind="att", lane=k + 1, by=by, ents=[dict(k=k, s=j, t=j + 1, root="A")]))
                            pops.append(dict(id="p%dk%dj%db" % (pi, k, j), kind="att", lane=k + 1, by=by, ents=[dict(k=k, s=j, t=j + 1, root="B")]))
                            if j >= 2 and j % 3 == 2:   # surrounded by what the key has signed (j-1 -> j ... ): source below, target below
                                pops.append(dict(id="p%dk%dj%dc" % (pi, k, j), kind="att", lane=k + 1, by=by, ents=[dict(k=k, s=j - 2, t=j + 2 if j + 2 <= steps else j + 1, root="C")]))
                par_scs.append(dict(id="%s-parclients-%d" % (prop, pi), world=dict(nkeys=nk, dist=3), conc=pconc, ops=[dict(id="par", kind="par", gate=False, ops=pops)]))
            pev, prc, perr = run_driver_parallel(par_scs, wd, tag="parclients", timeout=900) if len(par_scs) > 8 else run_driver(par_scs, wd, tag="parclients", timeout=900)
            if prc != 0:
                raise Inconclusive("parallel clients: driver exited %s: %s" % (prc, perr[-300:]))
            pby = split_scenarios(pev)
            for sc_ in par_scs:
                start = len(lines) + 1
                project_one(sc_["id"], {}, [], pby[sc_["id"]], lines)
                index.append((start, len(lines), sc_["id"]))
                nreq += sum(1 for e in pby[sc_["id"]] if e["ev"] == "Respond")
            nsc += len(par_scs)
            race["parallel_clients"] = dict(scenarios=len(par_scs), keys=nk, requests=sum(1 for e in pev if e["ev"] == "Respond"), releases=sum(1 for e in pev if e["ev"] == "Release"))
        conc_adv = None
        if prop == "C09":
            # "... is signed": also when well-formed requests OVERLAP IN TIME.  Rounds of two batches over the same keys in different
            # orders, sent at the same moment; the higher one (H: target above the lower one's, same source) exceeds everything signed
            # before and everything signed beside it, so it must be signed whatever the interleaving (the lower one, L, may lose the
            # race and is not judged).  A round that is never answered is reported from the lock / goroutine evidence as in C15.
            import concfamily
            nk, rounds = 4, 7
            cconc = concretisations(2 * rounds + 2, seed, 0)[0][1]
            cscs, cmeta = [], {}
            orders = [([0, 1, 2, 3], [3, 2, 1, 0]), ([0, 1], [1, 0]), ([0, 2, 1], [1, 2, 0]), ([2, 3, 0, 1], [0, 1, 2, 3]), ([1, 3], [3, 1]), ([0, 1, 2], [2, 0, 1])]
            for ci in range(6 if tier == "quick" else 40):
                ops, meta_ = [], {}
                for r_ in range(rounds):
                    lo, ho = orders[(ci + r_) % len(orders)]
                    L = dict(id="c%dr%dL" % (ci, r_), kind="atts", by=("name", "key")[(ci + r_) % 2], ents=[dict(k=k_, s=2 * r_, t=2 * r_ + 1, root="A") for k_ in lo])
                    H = dict(id="c%dr%dH" % (ci, r_), kind="atts", by=("key", "name")[(ci + r_) % 2], ents=[dict(k=k_, s=2 * r_, t=2 * r_ + 2, root="B") for k_ in ho])
                    extra = [dict(id="c%dr%dP" % (ci, r_), kind="prop", ents=[dict(k=lo[0], slot=r_ + 1, root="A")])] if r_ % 2 else []
                    ops.append(dict(id="round%d" % r_, kind="par", gate=False, ops=[L, H] + extra))
                    meta_[L["id"]] = dict(wf=False, ip="none")
                    meta_[H["id"]] = dict(wf=True, ip="none")
                    for x_ in extra:
                        meta_[x_["id"]] = dict(wf=True, ip="none")
                sid_ = "C09-overlap-%d" % ci
                cscs.append(dict(id=sid_, world=dict(nkeys=nk, dist=3), conc=cconc, ops=ops))
                cmeta[sid_] = meta_
            cev, cdead, cstuck = concfamily.drive(cscs, wd, tag="overlap")
            for sid_, evs_ in cdead:
                sc_ = [x_ for x_ in cscs if x_["id"] == sid_][0]
                verdict.violation("AdvancingSigned:never-answered:" + sid_, "well-formed, advancing batches sent at the same time over the same keys in different orders are never "
                                  "answered in %s (their goroutines wait on each other)" % sid_, dict(scenario=sc_, meta={}, floors=[], trace=evs_[-40:], invariant="AdvancingSigned", overlap=True))
            if cstuck and not cdead:
                raise Inconclusive("overlapping batches: watchdog fired without blocked-in-Lock evidence in %s" % cstuck[:3])
            dead_ids = {d_[0] for d_ in cdead}
            for sc_ in cscs:
                if sc_["id"] in cev and sc_["id"] not in dead_ids and any(e["ev"] == "End" for e in cev[sc_["id"]]):
                    start = len(lines) + 1
                    project_one(sc_["id"], cmeta[sc_["id"]], [], cev[sc_["id"]], lines)
                    index.append((start, len(lines), sc_["id"]))
                    nreq += sum(1 for e in cev[sc_["id"]] if e["ev"] == "Respond")
            nsc += len(cscs)
            conc_adv = dict(scenarios=len(cscs), rounds_each=rounds, never_answered=sorted(dead_ids))
            overlap_scs = cscs
        ok, violated, pos, r = validate(lines, p["trace_inv"], maxi, wd)
        info["states"] += r.distinct
        info["transitions"] += r.generated
        if ok and unfired:
            raise Inconclusive("store-fault scenario %s: the injected error never fired" % unfired[0])
        sample_trace = lines[index[0][0] - 1:index[0][0] + 11] if index else []
        selftest = binding_selftest(prop, lines, index, maxi, wd) if ok else {}
        if ok and selftest.get("corrupted_trace_rejected") is False:
            raise Inconclusive("binding self-test failed: a corrupted trace was accepted by SeqTrace (%s)" % selftest)
        if not ok:
            sid = locate(index, pos) if pos else None
            sc, smeta, sfloors = None, None, None
            for b in builders:
                for s in b.scenarios:
                    if s["id"] == sid:
                        sc, smeta, sfloors = s, b.meta[sid], b.expect[sid]["floors"]
            for s in race_scs + fault_scs + dup_scs + mixep_scs + ov_scs + mix_scs + (par_scs if prop in ('C01', 'C02') else []) + (overlap_scs if prop == "C09" else []):
                if s["id"] == sid:
                    sc, smeta, sfloors = s, {}, []
            if binary and sid in remote_lookup:
                smeta, sfloors, sc = remote_lookup[sid]
            seg = []
            for a, bb, s in index:
                if s == sid:
                    seg = lines[a - 1:bb]
            if violated == "trace-not-accepted":
                raise Inconclusive("layer-P trace specification could not consume line %s (scenario %s)" % (pos, sid))
            verdict.violation("%s:%s" % (violated, sid), "real run rejected by SeqTrace invariant %s at trace line %s (scenario %s)" % (violated, pos, sid),
                              dict(scenario=sc, meta=smeta, floors=sfloors, trace=seg, invariant=violated, maxi=maxi))
        batch_cov = None
        if prop == "C09":
            # second half of C09: a batch equals its entries one at a time, for every size and degree of parallelism
            import batchfamily
            sp = batchfamily.scatter_phase(tier, wd, info)
            bres = batchfamily.run_batches(prop, tier, seed, wd, info, verdict, twin=True)
            batch_cov = dict(scatter=sp, batches={k: v for k, v in bres.items() if k != "sample"})
            nsc += bres["batches"]
            if sp["drift"]:
                print("DRIFT: util.Scatter extents differ from Scatter.tla in %d cell(s), e.g. %s" % (len(sp["drift"]), sp["drift"][0]))
        rc = verdict.finish()
        cov = dict(states=info["states"], transitions=info["transitions"], traces_validated_against_impl=nsc, batch_equals_sequential=batch_cov, concurrent_arrival=race, against_the_dirk_binary=binary,
                   samples=[dict(kind="recorded-trace-prefix", lines=sample_trace),
                            dict(kind="attack-histories", items=attacks[:4])],
                   model_runs=info["model_runs"], mutants=info["mutants"], mutants_expected=len(p["mutants"]),
                   mutants_killed=len(info["mutants"]), requests_replayed=nreq, outcomes_compared_with_model=compared,
                   trace_events_validated=len(lines), binding_selftest=selftest, concretisations=[c[0] for c in concs], drift=drift[:20],
                   drift_count=len(drift), exhaustive=(tier != "quick"),
                   checker_cmd="tlc SlashSeq / SlashTable / SlashSeqSim / SeqTrace (see lib/seqfamily.py)")
        write_evidence(prop, tier, seed, "model_checking", cov, time.time() - t0, violations=len(verdict.violations),
                       assumptions=["BLS verification (herumi) and sha256 are correct",
                                    "abstract epoch domain 0..2*MaxI+1 with order-preserving concretisations incl. both adjacent maps"])
        if drift:
            print("DRIFT: %d outcome(s) of the real code differ from the sequential model (see evidence); first: %s" % (len(drift), drift[0]))
        return rc
    finally:
        cleanup(wd)


def replay(prop, path):
    """Re-run the scenario of a replay file on the current tree and validate it again."""
    obj = json.load(open(path))["replay"]
    if obj.get("batch"):
        import batchfamily
        return batchfamily.replay(prop, path)
    wd = workdir(prop + "-replay")
    try:
        remote = obj["scenario"]["id"].endswith("-bin")
        events, rc, err = run_driver([obj["scenario"]], wd, tag="replay", dirk=build_dirk() if remote else None)
        if rc != 0:
            raise Inconclusive("driver exited %s: %s" % (rc, err[-300:]))
        lines = []
        project_one(obj["scenario"]["id"], obj["meta"], obj["floors"], events, lines)
        ok, violated, pos, r = validate(lines, PROPS[prop]["trace_inv"], obj.get("maxi", 3), wd)
        for ln in lines:
            print(json.dumps(ln))
        if ok:
            print("replay: run accepted by SeqTrace (%s hold)" % ", ".join(PROPS[prop]["trace_inv"]))
            return 0
        print("VIOLATION property=%s replay=%s" % (prop, path))
        print("  invariant %s violated at trace line %s" % (violated, pos))
        return 1
    finally:
        cleanup(wd)

"""Concurrency family: C04 (linearizability of concurrent requests) and C15 (no deadlock / completion).

Model side : Signer.tla (layer D) exhaustively for several request mixes: NoSlashable*, Linearizable (outcome =
             sequential run in Check order), deadlock freedom, Termination under weak fairness; design mutants
             (LockMode first/none, UnlockEarly, UsePreLock=FALSE, DupCheck=FALSE) must be killed and their
             counterexamples become ATTACK SCHEDULES; SignerSim.tla generates random legal behaviours.
Code side  : every behaviour / attack schedule is imposed on the real stack through the gates of the
             harness (locker wrapper + Store hooks); the invoke/response history and final export are
             validated by TLC against AtomicTrace.tla (layer P: linearizable w.r.t. the sequential rules);
             a deadlock is established from logged lock ownership (all live requests blocked on held locks)."""
import sys, json, os, random, re, time
from vlib import *
import seqfamily

KEYS = ["k1", "k2", "k3"]
KIDX = {"k1": 0, "k2": 1, "k3": 2}
INV = ["NoSlashableAtt", "NoDoubleProposal", "Linearizable", "TypeOK"]

MIXES = {
    "quick": [("Opposite", "abcd", ["k1", "k2"]), ("Surround", "abcd", ["k1"]), ("Crossing", "abcd", ["k1", "k2", "k3"])],
    "thorough": [("Opposite", "abcd", ["k1", "k2"]), ("Surround", "abcd", ["k1"]), ("Crossing", "abcd", ["k1", "k2", "k3"]),
                 ("Five", "abcde", ["k1", "k2", "k3"])],
}
MUTANTS = {
    "C04": [("LockMode", "first", "Opposite", "abcd", ["k1", "k2"], ["Linearizable", "NoSlashableAtt", "Monotone"]),
            ("LockMode", "none", "Surround", "abcd", ["k1"], ["Linearizable", "NoSlashableAtt", "NoDoubleProposal"]),
            ("UnlockEarly", True, "Surround", "abcd", ["k1"], ["Linearizable", "NoSlashableAtt"]),
            ("AbandonReleasesLocks", True, "Abandon", "abc", ["k1"], ["NoDoubleProposal"])],
    "C15": [("UsePreLock", False, "Opposite", "abcd", ["k1", "k2"], ["deadlock"]),
            ("UsePreLock", False, "Crossing", "abcd", ["k1", "k2", "k3"], ["deadlock"]),
            ("DupCheck", False, "Opposite", "abcd", ["k1", "k2"], ["deadlock"]),
            ("BusyDropsMap", True, "Crossing", "abcd", ["k1", "k2", "k3"], ["deadlock"])],
}


def sconsts(mix, reqs, keys, crashes=0, faults=0, **over):
    c = dict(seqfamily.BASE)
    c.update(MaxI=3, Keys=set(keys), Reqs=set(reqs), Catalog=Raw("<- Cat" + mix), MaxCrashes=crashes, MaxFaults=faults, MaxCloses=0,
             LockMode="all", UsePreLock=True, DupCheck=True, StoreBeforeSign=True, FaultIgnored=False, UnlockEarly=False, StoreMode="atomic", BusyDropsMap=False, AbandonReleasesLocks=False, FetchCache=False)
    c.update(over)
    return c


def model_phase(prop, tier, wd, info):
    for mix, reqs, keys in MIXES[tier]:
        r = tlc("MCSigner", make_cfg(sconsts(mix, list(reqs), keys), invariants=INV, properties=["Monotone"], deadlock=True),
                wd, name="Signer_" + mix, timeout=1500)
        require_ok(r, "Signer(%s)" % mix)
        info["states"] += r.distinct
        info["transitions"] += r.generated
        info["model_runs"].append(dict(module="Signer", mix=mix, requests=len(reqs), keys=len(keys), invariants=INV + ["Monotone", "no deadlock"],
                                       distinct=r.distinct, generated=r.generated, depth=r.depth, wall_s=round(r.wall, 1)))
    if prop == "C15":
        # liveness: everything ends under weak fairness (no state constraint)
        for mix, reqs, keys in MIXES[tier][:2 if tier == "quick" else 3]:
            r = tlc("MCSigner", make_cfg(sconsts(mix, list(reqs), keys), spec="FairSpec", properties=["Termination"], deadlock=True),
                    wd, name="SignerLive_" + mix, timeout=1500)
            require_ok(r, "Signer liveness(%s)" % mix)
            info["states"] += r.distinct
            info["transitions"] += r.generated
            info["model_runs"].append(dict(module="Signer", mix=mix, spec="FairSpec", properties=["Termination"], distinct=r.distinct,
                                           generated=r.generated, wall_s=round(r.wall, 1)))
    attacks = []
    for name, val, mix, reqs, keys, expected in MUTANTS[prop]:
        killed = []
        for inv in expected:
            kw = dict(invariants=[inv], deadlock=False) if inv not in ("deadlock", "Monotone") else \
                (dict(invariants=[], deadlock=True) if inv == "deadlock" else dict(invariants=[], properties=["Monotone"], deadlock=False))
            rm = tlc("MCSigner", make_cfg(sconsts(mix, list(reqs), keys, faults=1 if name == "AbandonReleasesLocks" else 0, **{name: val}), **kw), wd,
                     name="mut_%s_%s_%s_%s" % (name, val, mix, inv), timeout=600)
            if rm.error:
                raise Inconclusive("mutant run %s=%s failed: %s" % (name, val, rm.error))
            if rm.violated:
                killed.append(rm.violated)
                b = behaviour_from_trace(rm.trace)
                if b:
                    b["origin"] = "mutant %s=%s on %s violating %s" % (name, val, mix, rm.violated)
                    attacks.append(b)
        if not killed:
            raise Inconclusive("design mutant %s=%s survives on mix %s: model too weak" % (name, val, mix))
        info["mutants"].append(dict(mutant="%s=%s" % (name, val), mix=mix, killed_by=killed))
    return attacks


def behaviour_from_trace(trace):
    if not trace:
        return None
    ce = trace["counterexample"]
    last = ce["state"][-1][1]
    sched = []
    for step in ce["action"]:
        act = step[1]
        if act["name"] in ("Choose",):
            continue
        sched.append(dict(a=act["name"], r=act.get("context", {}).get("r")))
    return dict(defs=last["def"], sched=sched, res=None, disk=None, attack=True)


def lock_order_attacks(wd, info):
    """Count schedules that deadlock under SOME lock acquisition order (LockOrder.tla), as gate scenarios."""
    r = tlc("LockOrder", make_cfg(dict(OutFile="lockorder.json", Keys=set(KEYS))), wd, name="LockOrder", workers=1)
    require_ok(r, "LockOrder")
    atk = json.load(open(os.path.join(wd, "LockOrder", "lockorder.json")))["attacks"]
    info["model_runs"].append(dict(module="LockOrder", attacks=len(atk)))
    out = []
    for n, a in enumerate(sorted(atk, key=lambda x: json.dumps(x, sort_keys=True))):
        def op(rid, q, root):
            return dict(id=rid, kind="atts", ents=[dict(k=KIDX[k], s=0, t=1, root=root) for k in q])
        sched = [dict(r="a", site="start"), dict(r="b", site="start"), dict(r="a", site="ruler.enter"), dict(r="b", site="ruler.enter")]
        sched += [dict(r="a", site="lock")] * a["i"] + [dict(r="b", site="lock")] * a["j"]
        out.append((a, dict(id="par", kind="par", gate=True, ops=[op("a", a["q1"], "A"), op("b", a["q2"], "B")], sched=sched)))
    return out


def gen_behaviours(n, seed, wd, broken=None, catalog=None):
    """Random behaviours of the shipped design (broken=None) or of a broken design (attack schedules:
    e.g. LockMode="none" admits every interleaving of the fetch/check/store steps)."""
    c = sconsts("Opposite", list("abcd") if not broken else list("abc"), KEYS if not broken else KEYS[:2], **(broken or {}))
    c["Catalog"] = Raw("<- SimCatalog") if not broken else Raw("<- " + (catalog or "ConflictCatalog"))
    if broken and "MaxFaults" in broken:
        c["MaxFaults"] = broken["MaxFaults"]
    workers = min(NCPU, 8)
    r = tlc("SignerSim", make_cfg(c, spec="SimSpec", invariants=[] if broken else ["NoSlashableAtt", "Linearizable"]), wd,
            name="SignerSim" + ("_broken" if broken else "") + ("_" + catalog if catalog else ""), workers=workers,
            simulate="num=1", depth=max(200, int(n * 60 / workers)), seed=seed, timeout=900)
    if r.error or r.violated:
        raise Inconclusive("SignerSim failed: %s %s" % (r.error, r.violated))
    out = []
    for line in r.out.splitlines():
        m = re.match(r'<<"BEHAVIOUR", "(.*)">>$', line)
        if m:
            b = json.loads(m.group(1).replace('\\"', '"'))
            out.append(dict(defs=b["def"], sched=b["sched"], res=None if broken else b["res"], disk=b["disk"], attack=bool(broken),
                            origin="behaviour of the broken design %s" % broken if broken else "behaviour of the shipped design"))
    if not out:
        raise Inconclusive("SignerSim produced no behaviours")
    return stable_sample(out, n, seed)


# ------------------------------------------------------------------ behaviour -> scenario
SITE = {"PreLock": "prelock", "LockNext": "lock", "LockYield": "lock", "PostLock": "postlock", "Fetch": "store.fetch.enter"}


def tokens_for(b):
    """Map a TLC schedule (action, request) to gate tokens of the harness."""
    toks = []
    defs = b["defs"]
    storecount = {}
    for st in b["sched"]:
        a, r = st["a"], st["r"]
        d = defs[r]
        n = len(d["ents"])
        if a == "Invoke":
            toks.append(dict(r=r, site="start"))
        elif a == "Validate":
            toks.append(dict(r=r, site="ruler.enter"))
        elif a in SITE:
            toks.append(dict(r=r, site=SITE[a]))
        elif a == "Store":
            i = storecount.get(r, 0)
            storecount[r] = i + 1
            if d["kind"] == "atts" and n > 1:
                toks.append(dict(r=r, site="store.batch.enter"))
            elif b["res"] is None or b["res"][r][i] == "APPROVED":
                toks.append(dict(r=r, site="store.store.enter"))
        elif a == "Unlock":
            keys = [e["k"] for e in d["ents"]]
            for _ in keys:
                toks.append(dict(r=r, site="unlock"))
        elif a == "Abandon":
            toks.append(dict(r=r, site="cancel"))      # the caller goes away: the request's context is cancelled
        elif a in ("Reply",):
            toks.append(dict(r=r, site="done"))
    return toks


def scenario_for(b, sid, conc):
    ops = []
    for r in sorted(b["defs"]):
        d = b["defs"][r]
        if d["kind"] == "none":
            continue
        kind = d["kind"]
        ents = []
        for e in d["ents"]:
            if kind == "prop":
                ents.append(dict(k=KIDX[e["k"]], slot=e["slot"], root=e["root"]))
            else:
                ents.append(dict(k=KIDX[e["k"]], s=e["s"], t=e["t"], root=e["root"]))
        if kind == "att" and len(ents) != 1:
            kind = "atts"
        ops.append(dict(id=r, kind=kind, ents=ents, by="key" if (len(sid) + ord(r[0])) % 2 else "name"))
    par = dict(id="par", kind="par", gate=True, ops=ops, sched=tokens_for(b))
    return dict(id=sid, world=dict(nkeys=3), conc=conc, ops=[par])


def free_scenario(bs, sid, conc):
    """Several behaviours' requests merged into one free-running concurrent group (no gates)."""
    ops = []
    for j, b in enumerate(bs):
        sc = scenario_for(b, "x", conc)
        for o in sc["ops"][0]["ops"]:
            o = dict(o)
            o["id"] = "%s%d" % (o["id"], j)
            ops.append(o)
    return dict(id=sid, world=dict(nkeys=3), conc=conc, ops=[dict(id="par", kind="par", gate=False, ops=ops)])


def stored(v, maxi=3):
    return v if v <= maxi else v - 2 * (maxi + 1)


def project(sid, evs, lines):
    lines.append(dict(ev="Begin", sc=sid))
    for ev in evs:
        e = ev["ev"]
        if e == "Invoke":
            lines.append(dict(ev="Invoke", r=ev["r"], kind="prop" if ev["kind"] == "prop" else "att",
                              ents=[dict(k=x["k"], s=x["s"], t=x["t"], slot=x["slot"], dom=x["dom"]) for x in ev["ents"]]))
        elif e == "Respond":
            lines.append(dict(ev="Respond", r=ev["r"], res=ev["res"]))
        elif e == "Export" and ev.get("r") == "final":
            lines.append(dict(ev="Export", db={k: dict(s=stored(v["as"]), t=stored(v["at"]), ps=stored(v["ps"])) for k, v in ev["db"].items()}))


def validate(lines, wd, name="AtomicTrace"):
    rundir = os.path.join(wd, name)
    os.makedirs(rundir, exist_ok=True)
    with open(os.path.join(rundir, "trace.ndjson"), "w") as fh:
        for ln in lines:
            fh.write(json.dumps(ln) + "\n")
    c = dict(seqfamily.BASE)
    c.update(MaxI=3, TraceFile="trace.ndjson")
    cfg = make_cfg(c, constraint="HighWater", postcondition="Accepted")
    r = tlc("AtomicTrace", cfg, wd, name=name, workers=1, timeout=1200, dump_trace=False,
            java_opts="-Dtlc2.tool.queue.IStateQueue=StateDeque -Xss64m")
    if r.ok:
        return True, None, r
    if r.violated == "postcondition":
        m = re.search(r"TLCGet\(1\)|Accepted", r.out)
        return False, None, r
    raise Inconclusive("AtomicTrace validation failed to run: %s %s" % (r.error, r.violated))


DETAIL = {"Invoke", "RulerEnter", "PreLock", "LockAcq", "PostLock", "Fetch", "Store", "Unlock", "RulesExit", "Respond"}


def project_detail(sid, evs, lines):
    """Detailed (layer D) projection: one line per Signer.tla action, logged fields kept."""
    lines.append(dict(ev="Begin", sc=sid))
    for ev in evs:
        e = ev["ev"]
        if e not in DETAIL and not (e == "Export" and ev.get("r") == "final"):
            continue
        if e == "Invoke":
            lines.append(dict(ev="Invoke", r=ev["r"], kind=ev["kind"], ents=[dict(k=x["k"], s=x["s"], t=x["t"], slot=x["slot"] if ev["kind"] == "prop" else -1,
                                                                                root=x["root"]) for x in ev["ents"]]))
        elif e in ("Fetch", "Store"):
            lines.append(dict(ev=e, r=ev["r"], k=ev["k"], kind=ev.get("kind", "att"), s=ev.get("s", -1), t=ev.get("t", -1), slot=ev.get("slot", -1)))
        elif e in ("LockAcq", "Unlock"):
            lines.append(dict(ev=e, r=ev["r"], k=ev["k"]))
        elif e in ("RulerEnter", "PreLock", "PostLock"):
            lines.append(dict(ev=e, r=ev["r"]))
        elif e == "RulesExit":
            lines.append(dict(ev=e, r=ev["r"], res=ev["res"]))
        elif e == "Respond":
            lines.append(dict(ev=e, r=ev["r"], res=ev["res"]))
        elif e == "Export":
            lines.append(dict(ev="Export", db={k: dict(s=stored(v["as"]), t=stored(v["at"]), ps=stored(v["ps"])) for k, v in ev["db"].items()}))


def validate_detail(lines, reqs, wd, name="SignerTrace"):
    """Validate detailed traces against Signer.tla; returns (accepted, furthest line, TlcResult)."""
    rundir = os.path.join(wd, name)
    os.makedirs(rundir, exist_ok=True)
    with open(os.path.join(rundir, "trace.ndjson"), "w") as fh:
        for ln in lines:
            fh.write(json.dumps(ln) + "\n")
    c = sconsts("Opposite", sorted(reqs), ["k0", "k1", "k2"])
    c["Catalog"] = Raw("<- NoCatalog")
    c["TraceFile"] = "trace.ndjson"
    cfg = make_cfg(c, spec="TraceSpec", constraint="HighWater", postcondition="Accepted")
    r = tlc("SignerTrace", cfg, wd, name=name, workers=1, timeout=1500, dump_trace=False, java_opts="-Dtlc2.tool.queue.IStateQueue=StateDeque -Xss64m")
    if r.ok:
        return True, None, r
    if r.violated == "postcondition":
        return False, None, r
    raise Inconclusive("SignerTrace validation failed to run: %s %s" % (r.error, r.violated))


def first_rejected(lines, index, wd):
    """Find the first scenario whose history is not linearizable (validate scenario by scenario, bisecting)."""
    lo, hi = 0, len(index)
    # bisect on prefixes: the concatenated trace is accepted iff every scenario is accepted
    while hi - lo > 1:
        mid = (lo + hi) // 2
        a = index[lo][0] - 1
        b = index[mid - 1][1]
        ok, _, _ = validate(lines[a:b], wd, name="AtomicBisect")
        if ok:
            lo = mid
        else:
            hi = mid
    return index[lo]


def seq_conformance(wd, seed):
    """The linearizability oracle uses SlashRules as the sequential meaning; make sure the real code's
    sequential behaviour agrees with it on a sample before trusting a rejection."""
    table = seqfamily.gen_table(3, wd, pairs=False)
    rnd = random.Random(seed)
    cname, conc = concretisations(3, seed, 0)[0]
    b = seqfamily.Builder("seqconf", cname, conc, 3)
    for row in rnd.sample(table["att"], 240):
        pr = dict(kind="att", s=row["ps"], t=row["pt"])
        b.add_history(pr, [dict(op="att", s=row["s"], t=row["t"], dom=row["dom"], v=row["v"])], (row["ns"], row["nt"], None), batchable=True)
    for row in table["prop"]:
        b.add_history(dict(kind="prop", slot=row["pp"]), [dict(op="prop", slot=row["slot"], dom=row["dom"], v=row["v"])], (None, None, row["np"]))
    b.flush()
    events, rc, err = run_driver(b.scenarios, wd, tag="seqconf")
    if rc != 0:
        raise Inconclusive("driver exited %s: %s" % (rc, err[-300:]))
    drift = []
    seqfamily.compare(b, split_scenarios(events), drift)
    return drift


def drive(scenarios, wd, tag="conc", env=None):
    """Run gate-scheduled scenarios; a deadlock makes the child exit(3) - continue with the rest in a new child.
    Returns (events by scenario, [(scenario id, events)] deadlocked, [scenario ids] stuck without blocked-in-Lock evidence)."""
    all_events = {}
    todo = list(scenarios)
    deadlocks, stuck = [], []
    rounds = 0
    while todo:
        rounds += 1
        events, rc, err = run_driver(todo, wd, tag="%s%d" % (tag, rounds), timeout=1500, env=env)
        by = split_scenarios(events)
        all_events.update(by)
        if rc == 0:
            break
        if rc == 3:
            # the scenario that was running when the child gave up is the last one begun
            last = [e["sc"] for e in events if e["ev"] == "Begin"][-1]
            evs = by[last]
            sch = [e for e in evs if e["ev"] in ("Sched", "Watchdog")]
            if os.environ.get("VERIF_DEBUG"):
                print("watchdog:", last, sch[-1:], err[-3000:], file=sys.stderr)
            if sch and (sch[-1].get("deadlock") or sch[-1].get("goroutines_in_mutex_lock", 0) >= 2 or sch[-1].get("waiting_in_dirk")):
                deadlocks.append((last, evs))
            else:
                # the watchdog fired without evidence of requests blocked on each other: on a loaded machine a schedule step can
                # simply be late.  The scenario is run again on its own before anything is concluded from it.
                sc_ = [s for s in todo if s["id"] == last][0]
                settled = False
                for again in range(2):
                    ev2, rc2, err2 = run_driver([sc_], wd, tag="%s_retry%d_%d" % (tag, rounds, again), timeout=600, env=env)
                    by2 = split_scenarios(ev2)
                    if rc2 == 0 and last in by2:
                        all_events[last] = by2[last]
                        settled = True
                        break
                    sch2 = [e for e in by2.get(last, []) if e["ev"] in ("Sched", "Watchdog")]
                    if rc2 == 3 and sch2 and (sch2[-1].get("deadlock") or sch2[-1].get("goroutines_in_mutex_lock", 0) >= 2 or sch2[-1].get("waiting_in_dirk")):
                        deadlocks.append((last, by2[last]))
                        settled = True
                        break
                if not settled:
                    stuck.append(last)
            idx = [s["id"] for s in todo].index(last)
            todo = todo[idx + 1:]
            if len(deadlocks) >= 3:
                break  # enough evidence; every further deadlock costs a watchdog period
            continue
        raise Inconclusive("driver exited %s: %s" % (rc, err[-400:]))
    return all_events, deadlocks, stuck


def race_scenarios(prop, seed, wd, n, conc):
    """Schedules for the SEQUENTIAL properties' concurrent clause (C01 / C02: 'over its whole lifetime', any arrival pattern):
    the interleavings that designs without effective per-key locking admit (SignerSim with LockMode none / first) plus
    shipped-design behaviours, imposed on the real code through the gates."""
    behs = gen_behaviours(n, seed + 11, wd, broken=dict(LockMode="none")) + gen_behaviours(n // 2, seed + 12, wd, broken=dict(LockMode="first")) + \
        gen_behaviours(n // 2, seed + 13, wd)
    # a caller that goes away while the rules run (its context is cancelled): behaviours of the design in which the abandoned request's
    # locks are let go while its evaluation carries on (any request mix), and the counterexample on the three-proposal mix
    behs += gen_behaviours(n // 2, seed + 14, wd, broken=dict(AbandonReleasesLocks=True, MaxFaults=1), catalog="SimCatalog")
    rm = tlc("MCSigner", make_cfg(sconsts("Abandon", list("abc"), ["k1"], faults=1, AbandonReleasesLocks=True), invariants=["NoDoubleProposal"], deadlock=False), wd,
             name="mut_Abandon_race", timeout=600)
    require_killed(rm, "AbandonReleasesLocks=TRUE", ["NoDoubleProposal"])
    b_ = behaviour_from_trace(rm.trace)
    if b_:
        b_["origin"] = "mutant AbandonReleasesLocks=TRUE violating NoDoubleProposal"
        behs.append(b_)
    if prop == "C01":
        # the two endpoints keep ONE record per key: the design in which the store remembers what single requests wrote, but not what
        # batches wrote, and prefers that to the database (FetchCache) signs a double vote on the three-request mix - that run, as
        # a schedule; the shipped design passes the same mix
        rs = tlc("MCSigner", make_cfg(sconsts("Endpoints", list("abc"), ["k1", "k2"]), invariants=["NoSlashableAtt", "Linearizable"], deadlock=False), wd, name="Signer_Endpoints", timeout=600)
        require_ok(rs, "Signer(Endpoints)")
        rm = tlc("MCSigner", make_cfg(sconsts("Endpoints", list("abc"), ["k1", "k2"], FetchCache=True), invariants=["NoSlashableAtt"], deadlock=False), wd, name="mut_FetchCache", timeout=600)
        require_killed(rm, "FetchCache=TRUE", ["NoSlashableAtt"])
        b_ = behaviour_from_trace(rm.trace)
        if b_:
            b_["origin"] = "mutant FetchCache=TRUE violating NoSlashableAtt"
            behs.append(b_)
    scs = []
    for i, b in enumerate(behs):
        scs.append(scenario_for(b, "%s-race-%s%d" % (prop, "atk" if b["attack"] else "sim", i), conc))
    return scs


def run(prop, tier, seed):
    t0 = time.time()
    wd = workdir(prop)
    info = dict(states=0, transitions=0, mutants=[], model_runs=[])
    verdict = Verdict(prop)
    try:
        attacks = model_phase(prop, tier, wd, info)
        nsim = 40 if tier == "quick" else 400
        behs = gen_behaviours(nsim, seed, wd)
        lock_atk = lock_order_attacks(wd, info)
        if prop == "C04":
            # every interleaving of fetch/check/store steps that a design WITHOUT effective locking admits
            attacks += gen_behaviours(nsim * 2, seed + 1, wd, broken=dict(LockMode="none"))
            attacks += gen_behaviours(nsim, seed + 2, wd, broken=dict(LockMode="first"))
        concs = concretisations(3, seed, 0 if tier == "quick" else 1)
        scenarios, meta = [], {}
        for ci, (cname, conc) in enumerate(concs):
            for i, b in enumerate(attacks + behs):
                sid = "%s-%s-%s%d" % (prop, cname, "atk" if b["attack"] else "sim", i)
                scenarios.append(scenario_for(b, sid, conc))
                meta[sid] = b
            if ci == 0:
                for n, (a, par) in enumerate(lock_atk if prop == "C15" else lock_atk[:12]):
                    sid = "%s-%s-lockorder%d" % (prop, cname, n)
                    scenarios.append(dict(id=sid, world=dict(nkeys=3), conc=conc, ops=[par]))
                    meta[sid] = None
            # free-running groups of 8 requests (two behaviours merged)
            for j in range(0, min(len(behs), 12 if tier == "quick" else 120) - 1, 2):
                sid = "%s-%s-free%d" % (prop, cname, j)
                scenarios.append(free_scenario(behs[j:j + 2], sid, conc))
                meta[sid] = None
        if prop == "C04":
            # KEYS SIDE BY SIDE: rounds of proposals (and attestations) for DIFFERENT keys sent at the same moment, each round one step
            # higher, every third round repeating the last step with another root.  One-at-a-time processing per key means each key's
            # answers are those of its own sequence whatever its neighbours do at the same time (a buffer, a cache or a record shared
            # between the requests of different keys shows as an answer no order explains).
            for gi in range(4 if tier == "quick" else 32):
                ops = []
                # (in one round the keys ask for DIFFERENT values - key k for the value (round + k) mod 3 + 1 - so that whatever one key's
                # request leaves in something shared shows in another key's record; each key's second pass must be refused throughout;
                # values stay inside the abstract domain of the trace specification)
                for rnd_ in range(6):
                    grp = []
                    for k_ in range(8):
                        rid = "s%dr%dk%d" % (gi, rnd_, k_)
                        v_ = (1, 2, 3)[(rnd_ + k_) % 3]
                        if gi % 4 == 3 and k_ % 2:
                            grp.append(dict(id=rid, kind="att", ents=[dict(k=k_, s=v_ - 1, t=v_, root="AB"[rnd_ // 3])]))
                        else:
                            grp.append(dict(id=rid, kind="prop", ents=[dict(k=k_, slot=v_, root="AB"[rnd_ // 3])]))
                    ops.append(dict(id="round%d" % rnd_, kind="par", gate=False, ops=grp))
                cname_, conc_ = concs[gi % 2]
                sid = "%s-%s-sidebyside%d" % (prop, cname_, gi)
                scenarios.append(dict(id=sid, world=dict(nkeys=8), conc=conc_, ops=ops, gomaxprocs=(1, 2, 16, 4)[gi % 4]))
                meta[sid] = None
        if prop == "C15":
            # ACCOUNTS ARRIVING WHILE BATCHES RUN: four accounts created at run time (they live in the fetcher's run-time tables), then
            # twelve sequential clients send generic batches BY PUBLIC KEY over rotated and reversed selections of the two start-up and
            # the four run-time accounts while a stream of further accounts keeps being created through the process service
            for ai in range(3 if tier == "quick" else 12):
                pops = []
                for lane in range(1, 17):
                    for j in range(30):
                        ks = [(lane + j + x) % 6 for x in range(2 + (lane + j) % 3)]
                        if (lane + j) % 2:
                            ks.reverse()
                        pops.append(dict(id="a%dl%dj%d" % (ai, lane, j), kind="multi", dom="randao", by=("key", "key", "name")[(lane + j) % 3], lane=lane,
                                         ents=[dict(k=k_, root="R%d" % (j % 5)) for k_ in ks]))
                sid = "%s-%s-arrivals%d" % (prop, concs[0][0], ai)
                scenarios.append(dict(id=sid, world=dict(nkeys=2), conc=concs[0][1], no_export=True,
                                      ops=[dict(id="mk", kind="create", n=4), dict(id="par", kind="par", gate=False, arrivals=True, ops=pops)]))
                meta[sid] = None
        big_scs = []
        if prop == "C15":
            # LARGE BATCHES AT THE SAME TIME under FEW processors: every batch names 2 x GOMAXPROCS - 1 keys (one scatter worker per entry,
            # the largest number of workers a single request gets), six sequential clients send them in rotated and reversed orders -
            # whatever the requests share besides the key locks (worker pools, semaphores, buffers) is contended here
            # (each in a driver process of its own that STARTS with that many processors - whatever is sized at first use is sized as
            # in a daemon started on such a machine)
            for bi, p_ in enumerate((2, 4) if tier == "quick" else (1, 2, 3, 4, 8)):
                nk_ = max(2 * p_ - 1, 2)
                pops = []
                for lane in range(1, 7):
                    for j in range(40):
                        ks = [(lane + j + x) % nk_ for x in range(nk_)]
                        if (lane + j) % 2:
                            ks.reverse()
                        pops.append(dict(id="g%dl%dj%d" % (bi, lane, j), kind="multi", dom="randao", by=("key", "name")[(lane + j) % 2], lane=lane,
                                         ents=[dict(k=k_, root="R%d" % (j % 5)) for k_ in ks]))
                sid = "%s-%s-bigbatches%d" % (prop, concs[0][0], bi)
                big_scs.append((p_, dict(id=sid, world=dict(nkeys=nk_), conc=concs[0][1], no_export=True, gomaxprocs=p_, ops=[dict(id="par", kind="par", gate=False, ops=pops)])))
                meta[sid] = None
        fu_meta = {}
        if prop == "C15":
            # FIRST USE (Unlock.tla): on a fresh instance every account is still locked; requests naming the same accounts in different
            # orders are released at the same moment, so that their pre-check workers meet the locked accounts together
            info["first_use_model"] = first_use_model(tier, wd, info)
            for fi in range(8 if tier == "quick" else 48):
                cname_, wants_ = FIRST_USE[fi % len(FIRST_USE)]
                rops = []
                for ri, (rid_, accts_) in enumerate(sorted(wants_.items())):
                    ents_ = [dict(k="abc".index(a_), s=ri, t=ri + 1, root="F") for a_ in accts_]
                    rops.append(dict(id=rid_, kind="att" if len(ents_) == 1 else "atts", by=("name", "key")[(fi + ri) % 2], ents=ents_))
                sid = "%s-firstuse-%s-%d" % (prop, cname_, fi)
                scenarios.append(dict(id=sid, world=dict(nkeys=3, tag="firstuse-%d-%d" % (seed, fi)), conc=concs[0][1], no_export=True, gomaxprocs=(16, 2, 4, 8)[fi % 4],
                                      ops=[dict(id="par", kind="par", gate=False, ops=rops)]))
                meta[sid] = None
                fu_meta[sid] = wants_
        all_events, deadlocks, stuck = drive(scenarios, wd)
        for p_, sc_ in big_scs:
            ev_, dl_, st_ = drive([sc_], wd, tag="big%d_" % p_, env=dict(GOMAXPROCS=str(p_)))
            all_events.update(ev_)
            deadlocks += dl_
            stuck += st_
            scenarios.append(sc_)
        # the SHIPPED PROGRAM under real concurrency: the free-running groups are also sent to the real dirk binary, every request
        # from its own goroutine over TLS; the final database is read through badger
        bin_groups = 0
        if prop == "C04" and not deadlocks:     # (requests that never return are already established in-process: no need to wait for the binary to hang too)
            bscs = [dict(s_, id=s_["id"] + "-bin") for s_ in scenarios if "-free" in s_["id"]][:12 if tier == "quick" else 120]
            bev, brc, berr = run_driver_parallel_bin(bscs, wd, build_dirk())
            if brc != 0:
                raise Inconclusive("free-running groups against the dirk binary: driver exited %s: %s" % (brc, berr[-300:]))
            for sid_, evs_ in split_scenarios(bev).items():
                if any(e["ev"] == "Respond" and "ERROR" in e["res"] for e in evs_):
                    raise Inconclusive("a request to the dirk binary ended in a transport error in %s" % sid_)
                for e in evs_:
                    if e["ev"] == "RawDump":
                        evs_.append(dict(ev="Export", r="final", db=e["db"]))
                        break
                all_events[sid_] = evs_
            scenarios += bscs
            for s_ in bscs:
                meta[s_["id"]] = None
            bin_groups = len(bscs)
        if stuck and not deadlocks:
            # (a schedule that ended without a verdict does not take away the deadlocks established in other schedules)
            raise Inconclusive("watchdog fired without blocked-in-Lock evidence in %s" % stuck[:3])
        ndev = sum(1 for sid, evs in all_events.items() for e in evs if e["ev"] == "Sched" and e["deviations"])
        nblocked = sum(1 for sid, evs in all_events.items() for e in evs if e["ev"] == "Blocked")
        drift = []
        sample = None
        if prop == "C15":
            for sid, evs in deadlocks:
                sc = [s for s in scenarios if s["id"] == sid][0]
                blocked = [e for e in evs if e["ev"] == "Blocked"]
                wd_ = [e for e in evs if e["ev"] == "Watchdog" and e.get("waiting_in_dirk")]
                if wd_ and not blocked:
                    blocked = ["goroutines of requests blocked for good inside the repository's code: %s" % wd_[-1]["waiting_in_dirk"][:6]]
                verdict.violation("deadlock:" + sid, "requests wait on each other for ever in scenario %s: %s" % (sid, blocked[-4:]),
                                  dict(scenario=sc, trace=evs[-60:]))
        else:
            # requests that wait on each other for ever are never answered: no one-at-a-time order of the requests explains a history
            # in which an invoked request gets no outcome at all (the same observation decides C15)
            for sid, evs in deadlocks:
                sc = [s for s in scenarios if s["id"] == sid][0]
                blocked = [e for e in evs if e["ev"] == "Blocked"]
                verdict.violation("unanswered:" + sid, "requests of scenario %s are never answered (they wait on each other for ever: %s); a sequential run answers every request"
                                  % (sid, blocked[-4:]), dict(scenario=sc, trace=evs[-60:], deadlock=True))
        lines, index = [], []
        if prop == "C04":
            dl = {sid for sid, _ in deadlocks}
            for sc in scenarios:
                sid = sc["id"]
                if sid in dl or sid not in all_events:
                    continue
                start = len(lines) + 1
                project(sid, all_events[sid], lines)
                index.append((start, len(lines), sid))
                # layer-D comparison with the TLC behaviour (only when the schedule was followed exactly)
                b = meta.get(sid)
                evs = all_events[sid]
                if b and not b["attack"] and not any(e["ev"] == "Sched" and e["deviations"] for e in evs):
                    for e in evs:
                        if e["ev"] == "Respond":
                            want = [{"APPROVED": "SUCCEEDED"}.get(x, x) for x in b["res"][e["r"]]]
                            if want != e["res"] and len(drift) < 30:
                                drift.append(dict(scenario=sid, r=e["r"], expected=want, got=e["res"]))
            ok, _, r = validate(lines, wd)
            info["states"] += r.distinct
            info["transitions"] += r.generated
            if not ok:
                # the one-at-a-time meaning is that of SlashRules (whose agreement with the unchanged code's sequential behaviour C01 / C09
                # establish with zero drift); if the code's own sequential behaviour has moved as well, that is said, not hidden
                sdrift = seq_conformance(wd, seed)
                a, b_, sid = first_rejected(lines, index, wd)
                sc = [s for s in scenarios if s["id"] == sid][0]
                note = "" if not sdrift else " (the code's SEQUENTIAL behaviour differs from the rules as well: %d differences, e.g. %s)" % (len(sdrift), sdrift[0])
                verdict.violation("nonlinearizable:" + sid, "history of scenario %s is not linearizable w.r.t. the sequential rules%s" % (sid, note),
                                  dict(scenario=sc, trace=lines[a - 1:b_]))
            sample = lines[index[0][0] - 1:index[0][1]] if index else []
            # layer D: the detailed traces must be behaviours of Signer.tla (DRIFT signal, never a verdict)
            dlines, dindex, reqs = [], [], set()
            for sc in scenarios:
                sid = sc["id"]
                if sid in dl or sid not in all_events or sid.endswith("-bin"):      # the binary's internal steps are not observable
                    continue
                st_ = len(dlines) + 1
                project_detail(sid, all_events[sid], dlines)
                dindex.append((st_, len(dlines), sid))
                reqs |= {o["id"] for o in sc["ops"][0]["ops"]}
            dok, _, dr = validate_detail(dlines, reqs, wd)
            info["states"] += dr.distinct
            info["transitions"] += dr.generated
            detail_drift = None
            if not dok:
                # locate the first scenario that Signer.tla cannot explain
                lo, hi = 0, len(dindex)
                while hi - lo > 1:
                    mid = (lo + hi) // 2
                    okm, _, _ = validate_detail(dlines[dindex[lo][0] - 1:dindex[mid - 1][1]], reqs, wd, name="SignerTraceBisect")
                    if okm:
                        lo = mid
                    else:
                        hi = mid
                detail_drift = dict(scenario=dindex[lo][2], note="detailed trace is not a behaviour of Signer.tla")
                drift.append(detail_drift)
            # binding self-test: a corrupted field / a removed event must be rejected, else the trace specifications constrain nothing
            selftest = {}
            if dok and dindex:
                a, b, _ = next((x for x in dindex if any(l_["ev"] == "Store" for l_ in dlines[x[0] - 1:x[1]])), dindex[0])
                seg = [dict(x) for x in dlines[a - 1:b]]
                c1 = [dict(x) for x in seg]
                for x in c1:
                    if x["ev"] == "Store":
                        x["t"] = x["t"] + 1 if x["kind"] != "prop" else x["t"]
                        x["slot"] = x["slot"] + 1 if x["kind"] == "prop" else x["slot"]
                        break
                c2 = [dict(x) for x in seg]
                for i_, x in enumerate(c2):
                    if x["ev"] == "LockAcq":
                        del c2[i_]
                        break
                selftest["store_value_corrupted_rejected"] = not validate_detail(c1, reqs, wd, name="SignerTraceSelf1")[0]
                selftest["lock_event_removed_rejected"] = not validate_detail(c2, reqs, wd, name="SignerTraceSelf2")[0]
                # a response flipped from SUCCEEDED to DENIED: not every such flip is observable (a later, higher update of the same key
                # can hide it - the flipped history is then still linearizable), so candidates are tried until one is rejected; a trace
                # specification that constrains nothing rejects none of them
                cands = [x for x in index if any(l_["ev"] == "Respond" and "SUCCEEDED" in l_["res"] for l_ in lines[x[0] - 1:x[1]])][:12]
                flipped = False
                for pa, pb, _ in cands:
                    c3 = [json.loads(json.dumps(x)) for x in lines[pa - 1:pb]]
                    for x in c3:
                        if x["ev"] == "Respond" and "SUCCEEDED" in x["res"]:
                            x["res"][x["res"].index("SUCCEEDED")] = "DENIED"
                            break
                    if not validate(c3, wd, name="AtomicTraceSelf")[0]:
                        flipped = True
                        break
                selftest["response_flipped_rejected_by_AtomicTrace"] = flipped
                if not all(selftest.values()):
                    raise Inconclusive("binding self-test failed: a corrupted trace was accepted (%s)" % selftest)
            # the repository's own tests (soak tests included) as trace sources: StoreTrace (AtomicRMW, ReadLatest, Monotone), DRIFT only
            import repotrace
            for d_ in repotrace.phase(wd, info, 4000 if tier == "quick" else 40000):
                drift.append(dict(note=d_))
            for d_ in repotrace.binary_phase(wd, info, seed, tier):
                drift.append(dict(note=d_))
            info["detail"] = dict(detailed_traces=len(dindex), detailed_events=len(dlines), accepted=dok, first_unexplained=detail_drift, binding_selftest=selftest)
        if fu_meta:
            info["first_use_traces"] = first_use_traces(fu_meta, all_events, {sid for sid, _ in deadlocks}, wd, info, drift)
        rc = verdict.finish()
        gated = [s for s in scenarios if s["ops"][0].get("gate")]
        cov = dict(states=info["states"], transitions=info["transitions"], traces_validated_against_impl=len(all_events),
                   samples=[dict(kind="attack-schedule", origin=a["origin"], schedule=a["sched"][:40]) for a in attacks[:2]] +
                           [dict(kind="recorded-history", lines=sample)] if sample else
                           [dict(kind="attack-schedule", origin=a["origin"], schedule=a["sched"][:40]) for a in attacks[:3]],
                   model_runs=info["model_runs"], mutants=info["mutants"], mutants_expected=len(MUTANTS[prop]), mutants_killed=len(info["mutants"]),
                   schedules_imposed=len(gated), free_running_groups=len(scenarios) - len(gated), free_running_groups_against_the_dirk_binary=bin_groups,
                   schedules_with_deviation=ndev, blocked_observations=nblocked, deadlocks_observed=len(deadlocks),
                   drift=drift[:10], drift_count=len(drift), exhaustive=False, layer_d_trace_validation=info.get("detail"), repo_tests_as_traces=info.get("repo_tests_as_traces"), first_use_model=info.get("first_use_model"), first_use_traces=info.get("first_use_traces"), real_binary_traces=info.get("real_binary_traces"),
                   checker_cmd="tlc MCSigner / SignerSim / AtomicTrace (see lib/concfamily.py)")
        write_evidence(prop, tier, seed, "model_checking", cov, time.time() - t0, violations=len(verdict.violations),
                       assumptions=["gates at locker calls and Store hooks are the only scheduling points that matter for the slashing records",
                                    "a request blocked on a mutex whose holder is parked stays blocked (Go mutex semantics)"])
        if drift:
            print("DRIFT: %d response(s) differ from the layer-D behaviour although the schedule was followed; first: %s" % (len(drift), drift[0]))
        return rc
    finally:
        cleanup(wd)


# ------------------------------------------------------------------------------------------ first use (Unlock.tla)
FIRST_USE = [("cross", dict(r1=["a", "b"], r2=["b", "a"], r3=["b", "c", "a"])), ("one", dict(r1=["a"], r2=["a"], r3=["a"])),
             ("twice", dict(r1=["a", "a"], r2=["a", "b"], r3=["b", "a"])), ("four", dict(r1=["a", "b"], r2=["b", "a"], r3=["a"], r4=["b"]))]
FIRST_USE_MC = dict(cross=("R3", "WantsCross"), one=("R3", "WantsOne"), twice=("R3", "WantsTwice"), four=("R4", "WantsFour"))
UNLOCK_INV = ["TypeOK", "NoDeadlock", "NoSpuriousDenial", "OpenAfterUnlock"]


def first_use_model(tier, wd, info):
    """Unlock.tla: the shipped design (every worker unlocks for itself) and the correct sharing design pass in every configuration - also
    with a LockAccount arriving in between; 'one token for all waiters' and 'report locked while an unlock is in progress' are killed."""
    runs, killed = 0, []
    for nm, (reqs, wants) in FIRST_USE_MC.items():
        for mode, relock in (("each", 0), ("each", 1), ("waitClose", 0)):
            if tier == "quick" and nm in ("twice", "four") and (mode, relock) != ("each", 0):
                continue
            c = dict(Accts={"a", "b", "c"}, Reqs=Raw("<- " + reqs), Wants=Raw("<- " + wants), ShareMode=mode, MaxRelock=relock)
            r = tlc("MCUnlock", make_cfg(c, invariants=UNLOCK_INV, deadlock=False), wd, name="Unlock_%s_%s%d" % (nm, mode, relock), timeout=600)
            require_ok(r, "Unlock(%s, %s, relock %d)" % (nm, mode, relock))
            info["states"] += r.distinct
            info["transitions"] += r.generated
            runs += 1
    c = dict(Accts={"a", "b", "c"}, Reqs=Raw("<- R3"), Wants=Raw("<- WantsCross"), ShareMode="each", MaxRelock=0)
    r = tlc("MCUnlock", make_cfg(c, spec="FairSpec", properties=["Termination"], deadlock=False), wd, name="UnlockLive", timeout=600)
    require_ok(r, "Unlock liveness")
    info["states"] += r.distinct
    info["transitions"] += r.generated
    for mode, nm in (("waitToken", "one"), ("waitToken", "cross"), ("denyBusy", "cross")):
        reqs, wants = FIRST_USE_MC[nm]
        c = dict(Accts={"a", "b", "c"}, Reqs=Raw("<- " + reqs), Wants=Raw("<- " + wants), ShareMode=mode, MaxRelock=0)
        rm = tlc("MCUnlock", make_cfg(c, invariants=UNLOCK_INV, deadlock=False), wd, name="Unlock_mut_%s_%s" % (mode, nm), timeout=600)
        require_killed(rm, "Unlock mutant ShareMode=%s (%s)" % (mode, nm))
        killed.append(dict(mutant=dict(ShareMode=mode), configuration=nm, killed_by=[rm.violated]))
        info["mutants"].append(dict(mutant=dict(ShareMode=mode), module="Unlock", killed_by=[rm.violated]))
    return dict(configurations_passed=runs, mutants=killed)


def first_use_lines(wants, evs, corrupt=False):
    acct = {"W1/a0": "a", "W1/a1": "b", "W1/a2": "c"}
    lines = [dict(ev="Config", r="", a="", ok=True, accts=["a", "b", "c"], reqs=[dict(r=r_, wants=w_) for r_, w_ in sorted(wants.items())])]
    for e in evs:
        if e["ev"] == "UnlockEnter" and e["r"] in wants:
            lines.append(dict(ev="UnlockEnter", r=e["r"], a=acct[e["a"]], ok=True))
        elif e["ev"] == "PreCheckUnlock" and e["r"] in wants and "a" in e:
            lines.append(dict(ev="UnlockExit", r=e["r"], a=acct[e["a"]], ok=bool(e["ok"])))
        elif e["ev"] == "Respond" and e["r"] in wants:
            lines.append(dict(ev="Respond", r=e["r"], a="", ok=True))
    if corrupt:
        # binding self-test: the last return of an unlock is turned into "still locked"
        for ln in reversed(lines):
            if ln["ev"] == "UnlockExit":
                ln["ok"] = False
                break
    return lines


def first_use_traces(fu_meta, all_events, dead, wd, info, drift):
    """Layer D: what the wrapper around the real unlocker saw in every first-use group must be a behaviour of Unlock.tla (shipped design)."""
    n = acc = enters = 0
    selftest = None
    for sid, wants in sorted(fu_meta.items()):
        evs = all_events.get(sid)
        if not evs or sid in dead or not any(e["ev"] == "End" for e in evs):
            continue
        for corrupt in ((False, True) if selftest is None else (False,)):
            lines = first_use_lines(wants, evs, corrupt)
            rundir = os.path.join(wd, "UnlockTrace_%d%s" % (n, "c" if corrupt else ""))
            os.makedirs(rundir, exist_ok=True)
            with open(os.path.join(rundir, "trace.ndjson"), "w") as fh:
                for ln in lines:
                    fh.write(json.dumps(ln) + "\n")
            tr = tlc("UnlockTrace", make_cfg(dict(TraceFile="trace.ndjson"), constraint="HighWater", postcondition="Accepted"), wd, name=os.path.basename(rundir), workers=1, timeout=300,
                     dump_trace=False)
            info["states"] += tr.distinct
            info["transitions"] += tr.generated
            if corrupt:
                if not any(ln["ev"] == "UnlockExit" for ln in lines):
                    continue
                selftest = dict(corrupted_trace_rejected=not tr.ok)
                if tr.ok:
                    raise Inconclusive("UnlockTrace accepted a trace in which an unlock came back 'still locked': the trace specification binds nothing")
                continue
            n += 1
            enters += sum(1 for ln in lines if ln["ev"] == "UnlockEnter")
            if tr.ok:
                acc += 1
            elif len(drift) < 30:
                drift.append(dict(note="first-use group %s: what the unlocker wrapper saw is not a behaviour of Unlock.tla (shipped design): %s %s" % (sid, tr.violated, (tr.error or "")[:200])))
    if n and enters < n:
        raise Inconclusive("first-use groups: only %d unlock calls were seen in %d groups (the accounts were not locked?)" % (enters, n))
    return dict(groups_validated=n, accepted=acc, unlock_calls_seen=enters, binding_selftest=selftest)


def replay(prop, path):
    obj = json.load(open(path))["replay"]
    wd = workdir(prop + "-replay")
    try:
        events, rc, err = run_driver([obj["scenario"]], wd, tag="replay")
        for e in events:
            print(json.dumps(e))
        if prop == "C15" or obj.get("deadlock"):
            dead = any(e["ev"] == "Sched" and e["deadlock"] for e in events)
            dead = dead or (rc == 3 and any(e["ev"] == "Watchdog" and (e.get("goroutines_in_mutex_lock", 0) >= 2 or e.get("waiting_in_dirk")) for e in events))
            if dead:
                print("VIOLATION property=%s replay=%s" % (prop, path))
                return 1
            return 0 if rc == 0 else 2
        lines = []
        project(obj["scenario"]["id"], events, lines)
        ok, _, r = validate(lines, wd)
        if ok:
            print("replay: history accepted as linearizable")
            return 0
        print("VIOLATION property=C04 replay=%s" % path)
        return 1
    finally:
        cleanup(wd)

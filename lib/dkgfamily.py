"""Distributed key generation family: C12, C13, C16, C17.

Model side : Dkg.tla (layer D: prepare/execute/contribute/commit with abstract cryptography, one fault per run,
             mutants VerifyShare / CheckVVecLen / ThresholdMode), DkgPlans.tla (every single-fault plan),
             DkgSessionRules.tla / DkgSession.tla (C17 lifecycle: complete transition relation as JSON).
Code side  : clusters of REAL process services connected through the REAL receiver handlers by the harness's
             intercepting network (caller identity in the context as the interceptor sets it, protobuf round trip),
             driven through the real account-manager handler; cryptographic oracle: herumi BLS (threshold recovery
             over all t- and (t-1)-subsets).
Verdict    : DkgTrace.tla (Agreement, ThresholdRule, FaultNoAccount, PeersOnly, NoCrash) and SessionTrace.tla
             (Lifecycle, PeersOnly) on the recorded runs."""
import itertools, json, os, random, re, subprocess, time
from collections import deque
from concurrent.futures import ThreadPoolExecutor
from vlib import *

MUSTFAIL_MSG = {"lost", "errreply"}


def run_dkgdrv(scs, wd, tag, timeout=1800, dirk=None):
    """dirk: path of the real dirk binary - each (fault-free) generation then runs on a cluster of real binaries over gRPC / TLS."""
    exe = build_harness("dkgdrv")
    f = os.path.join(wd, tag + ".in.json")
    o = os.path.join(wd, tag + ".out.ndjson")
    json.dump(scs, open(f, "w"))
    try:
        p = subprocess.run([exe, "-scenarios", f, "-out", o] + (["-dirk", dirk] if dirk else []), cwd=wd, env=dict(os.environ, TMPDIR=wd), stdout=subprocess.PIPE, stderr=subprocess.PIPE, text=True, timeout=timeout)
        rc, err = p.returncode, p.stderr
    except subprocess.TimeoutExpired:
        rc, err = -99, "timeout"
    evs = [json.loads(l) for l in open(o) if l.strip()] if os.path.exists(o) else []
    return evs, rc, err


def run_parallel(scs, wd, tag, workers=8):
    chunks = [scs[i::workers] for i in range(workers) if scs[i::workers]]
    with ThreadPoolExecutor(max_workers=workers) as ex:
        outs = list(ex.map(lambda a: run_dkgdrv(a[1], wd, "%s%d" % (tag, a[0])), enumerate(chunks)))
    by = {}
    for evs, rc, err in outs:
        if rc != 0:
            raise Inconclusive("dkgdrv exited %s: %s" % (rc, err[-400:]))
        by.update(split_scenarios(evs))
    return by


def dconsts(N, T, mf=1, **o):
    d = dict(N=N, T=T, MaxFaults=mf, VerifyShare=True, CheckVVecLen=True, CommitNeedsAll=True, ConfirmAll=True, ThresholdMode="gtHalf",
             Initiator=1, OldCandidates=set(), StoreErrChecked=True)
    d.update(o)
    return d


DINV = ["AgreementOnSuccess", "FaultNoAccount", "RefusedCreatesNothing"]


def model_phase(prop, tier, wd, info):
    nts = [(2, 1), (2, 2), (3, 1), (3, 2), (3, 3), (4, 2), (4, 3), (4, 4)] if tier == "quick" else \
        [(n, t) for n in range(2, 8) for t in range(1, n + 1)]
    for n, t in nts:
        r = tlc("Dkg", make_cfg(dconsts(n, t, 1 if tier == "quick" else 2), invariants=DINV), wd, name="Dkg_%d_%d" % (n, t), timeout=900)
        require_ok(r, "Dkg(%d,%d)" % (n, t))
        info["states"] += r.distinct
        info["transitions"] += r.generated
    # the requested name is already taken on some instances (an earlier generation among other instances of a larger cluster)
    olds = 0
    for n, t in [(2, 2), (3, 2)] if tier == "quick" else [(2, 2), (3, 2), (3, 3), (4, 3)]:
        for init in range(1, n + 1):
            r = tlc("Dkg", make_cfg(dconsts(n, t, 1, Initiator=init, OldCandidates=set(range(1, n + 1))), invariants=DINV), wd, name="Dkg_old", timeout=900)
            require_ok(r, "Dkg(%d,%d,initiator %d, every set of old holders)" % (n, t, init))
            info["states"] += r.distinct
            info["transitions"] += r.generated
            olds += 2 ** n
    info["model_runs"].append(dict(module="Dkg", nts=nts, invariants=DINV, MaxFaults=1 if tier == "quick" else 2, configurations_with_old_holders=olds))
    muts = {"C12": [dict(ThresholdMode="geHalf", _nt=(4, 2)), dict(ThresholdMode="any", _nt=(3, 1)), dict(ConfirmAll=False, _nt=(3, 2)),
                    dict(StoreErrChecked=False, OldCandidates={3}, _nt=(3, 2))],
            "C13": [dict(VerifyShare=False, _nt=(3, 2)), dict(CheckVVecLen=False, _nt=(3, 2))]}.get(prop, [])
    for m in muts:
        n, t = m.pop("_nt")
        rm = tlc("Dkg", make_cfg(dconsts(n, t, **m), invariants=DINV), wd, name="Dkg_mut")
        require_killed(rm, "Dkg mutant %s" % m)
        info["mutants"].append(dict(mutant=m, killed_by=[rm.violated]))


def validate(module, lines, invariants, wd, name=None):
    name = name or module
    rundir = os.path.join(wd, name)
    os.makedirs(rundir, exist_ok=True)
    with open(os.path.join(rundir, "trace.ndjson"), "w") as fh:
        for ln in lines:
            fh.write(json.dumps(ln) + "\n")
    r = tlc(module, make_cfg(dict(TraceFile="trace.ndjson"), invariants=invariants, constraint="HighWater", postcondition="Accepted"),
            wd, name=name, workers=1, timeout=900, dump_trace=False)
    if r.ok:
        return True, None, None, r
    m = re.findall(r"/\\ l = (\d+)", r.out)
    pos = int(m[-1]) if m else None
    if r.violated in invariants:
        badset = re.findall(r"bad = (\{.*?\})\n", r.out, re.S)
        return False, r.violated, pos, (r, badset[-1][:300] if badset else "")
    raise Inconclusive("%s validation failed: %s %s" % (module, r.violated, r.error))


def clean(ev):
    out = {}
    for k, v in ev.items():
        if v is None:
            v = [] if k in ("vvec", "for_others", "crashed", "faults_hit") else ({} if k == "participants" else "")
        out[k] = v
    return out


def project_gen(sid, sc, evs, lines, mustfail_kinds):
    lines.append(dict(ev="Begin", sc=sid, n=sc["n"], t=sc["t"], probe=bool(sc.get("probe"))))
    out = [e for e in evs if e["ev"] == "Outcome"]
    hit = out[0]["faults_hit"] if out else []
    for h in hit or []:
        site, _, kind = h.split(":", 2)[0], None, h.rsplit(":", 1)[1]
        if site in ("prepare", "execute", "contribute.req", "contribute.rep") and kind in mustfail_kinds:
            lines.append(dict(ev="FaultHit", site=site, kind=kind))
    for e in evs:
        if e["ev"] in ("Outcome", "Holds", "Usable", "Threshold", "ContribReply", "End"):
            c = clean(e)
            if e["ev"] == "Outcome":
                c["participants"] = e.get("participants") or []
            lines.append(c)


def locate(index, pos):
    for a, b, sid in index:
        if a <= pos - 1 <= b + 1:
            return sid
    return None


def idsets(n, rnd):
    # (small; large; near 2^64; identifiers that agree in their ten low bits: 1, 1025, 2049, ...)
    return [list(range(1, n + 1)), [2 ** 32 + 7 * i for i in range(1, n + 1)], [2 ** 64 - 1 - 3 * i for i in range(n)], [1 + 1024 * i for i in range(n)]]


# ------------------------------------------------------------------------------------------ concurrent generations (DkgConc.tla)
CONC_CFGS = [("rot-diff", {1, 2, 3}, "NamesDiff", "InitsA", "PartsRot"), ("ovl-same", {1, 2, 3}, "NamesSame", "InitsA", "PartsOverlap"),
             ("four-diff", {1, 2, 3, 4}, "NamesDiff", "InitsB", "PartsFour"), ("opp-same", {1, 2}, "NamesSame", "InitsC", "PartsOpp"),
             ("rot-same", {1, 2, 3}, "NamesSame", "InitsA", "PartsRot"), ("ovl-diff", {1, 2, 3}, "NamesDiff", "InitsA", "PartsOverlap"), ("opp-diff", {1, 2}, "NamesDiff", "InitsC", "PartsOpp")]
CONC_INV = ["TypeOK", "NoDeadlock", "Agreement", "MutexReleased", "NoSessionAfterSuccess", "SessionsSane", "OwnSession", "DifferentNamesBothSucceed"]


def conc_model_phase(tier, wd, info):
    """DkgConc.tla: two generations at the same time on overlapping instances - every interleaving of their messages under the
    instances' process mutexes (held across the contribution swaps of an execute).  Shipped design: no deadlock, both end, success
    => the generation's own account on all its participants; each design mutant must be killed."""
    base = dict(ContribTo="higher", SessionKey="name", PrepareOverwrites=False, Gens=Raw("<- G2"))
    n = 0
    for nm, I, names, inits, parts in CONC_CFGS[:4 if tier == "quick" else 7]:
        c = dict(base, I=I, NameOf=Raw("<- " + names), InitOf=Raw("<- " + inits), PartsOf=Raw("<- " + parts))
        r = tlc("MCDkgConc", make_cfg(c, invariants=CONC_INV, deadlock=False), wd, name="DkgConc_" + nm, timeout=600)
        require_ok(r, "DkgConc(%s)" % nm)
        info["states"] += r.distinct
        info["transitions"] += r.generated
        n += 1
        if tier != "quick" or nm in ("rot-diff", "ovl-same"):
            r = tlc("MCDkgConc", make_cfg(c, spec="FairSpec", properties=["Termination"], deadlock=False), wd, name="DkgConcLive_" + nm, timeout=600)
            require_ok(r, "DkgConc liveness(%s)" % nm)
            info["states"] += r.distinct
            info["transitions"] += r.generated
    killed = []
    for m, (nm, I, names, inits, parts) in ((dict(ContribTo="all"), CONC_CFGS[0]), (dict(SessionKey="instance"), CONC_CFGS[0]), (dict(PrepareOverwrites=True), CONC_CFGS[1])):
        c = dict(base, I=I, NameOf=Raw("<- " + names), InitOf=Raw("<- " + inits), PartsOf=Raw("<- " + parts))
        c.update(m)
        rm = tlc("MCDkgConc", make_cfg(c, invariants=CONC_INV[1:], deadlock=False), wd, name="DkgConc_mut", timeout=600)
        require_killed(rm, "DkgConc mutant %s" % m)
        killed.append(dict(mutant=m, killed_by=[rm.violated]))
        info["mutants"].append(dict(mutant=m, module="DkgConc", killed_by=[rm.violated]))
    return dict(configurations=n, mutants=killed)


def conc_message_flow(sc, evs, wd, name, corrupt=False):
    """Layer D: the messages the instances sent each other during concurrent generations (every send and every return, as the harness
    network saw them) must be a behaviour of DkgConc.tla (DkgConcTrace: TLC places the handlers' silent steps).  Returns None if the
    trace is explained, else a short description (DRIFT)."""
    rank = {i_: n_ + 1 for n_, i_ in enumerate(sorted(sc["ids"]))}      # (TLC's integers are 32 bits wide: identifiers by rank, order kept)
    gens = []
    for gi, g_ in enumerate(sc["conc_gens"]):
        parts = []
        for e in evs:
            if e["ev"] == "Msg" and e["type"] == "prepare" and e["from"] == g_["initiator"] and e.get("account") == g_["account"] and e["to"] not in parts:
                parts.append(e["to"])
        gens.append(dict(g="g%d" % gi, name=g_["account"], init=rank[g_["initiator"]], parts=[rank[p_] for p_ in (parts or [g_["initiator"]])]))
    if len({(g_["init"], g_["name"]) for g_ in gens}) != len(gens) or any(e["ev"] == "ConcOutcome" and e["hung"] for e in evs):
        return None
    lines = [dict(ev="Config", type="", I=sorted(rank.values()), gens=gens, ok=True, account="", g="", to=0, **{"from": 0})]
    for e in evs:
        if e["ev"] in ("Msg", "MsgDone") and e["type"] in ("prepare", "execute", "contribute", "commit"):
            lines.append(dict(ev=e["ev"], type=e["type"], to=rank[e["to"]], account=e.get("account", ""), ok=bool(e.get("ok", True)), g="", **{"from": rank[e["from"]]}))
    for e in evs:
        if e["ev"] == "ConcOutcome":
            lines.append(dict(ev="Outcome", type="", to=0, account="", ok=bool(e["ok"]), g="g%d" % e["g"], **{"from": 0}))
    if corrupt:
        # binding self-test: a contribution sent DOWNWARDS (sender and receiver swapped) is no behaviour of the model
        for ln in lines:
            if ln["ev"] == "Msg" and ln["type"] == "contribute":
                ln["from"], ln["to"] = ln["to"], ln["from"]
                break
        else:
            return "no contribution message to corrupt"
    rundir = os.path.join(wd, name)
    os.makedirs(rundir, exist_ok=True)
    with open(os.path.join(rundir, "trace.ndjson"), "w") as fh:
        for ln in lines:
            fh.write(json.dumps(ln) + "\n")
    r = tlc("DkgConcTrace", make_cfg(dict(TraceFile="trace.ndjson"), constraint="HighWater", postcondition="Accepted"), wd, name=name, workers=1, timeout=300, dump_trace=False)
    if r.ok:
        return None
    m = re.findall(r'"HIGHWATER", (\d+)', r.out)
    at = int(m[-1]) if m else None
    return "message flow of %s is not a behaviour of DkgConc.tla (explained up to line %s of %d: %s)" % (sc["id"], at, len(lines), lines[at - 1] if at and at <= len(lines) else r.error or r.violated)


def conc_gens_phase(tier, seed, wd, info, verdict):
    """Two or three generations requested at the same time of different instances of one real in-process cluster (different names
    and the same name; full and partial overlap; messages delayed by seeded random times so that the interleavings vary).  What each
    client is told and what every instance then holds is judged per generation by DkgTrace (Agreement: success => every listed
    participant holds that key).  A generation that never ends, or generations under DIFFERENT names that make each other fail,
    contradict DkgConc.tla and are recorded as drift of the model (no listed property speaks about them)."""
    scs = []
    k = 0
    reps = 3 if tier == "quick" else 12
    shapes = [([1, 2, 3], [(1, 3, 2, "DW/ca"), (3, 3, 2, "DW/cb")]),                       # different names, every instance in both
              ([1, 2, 3], [(1, 2, 2, "DW/cs"), (3, 2, 2, "DW/cs")]),                       # the same name, two of three each
              ([1, 2, 3, 4], [(1, 3, 2, "DW/ca"), (4, 3, 2, "DW/cb")]),                    # partial overlap
              ([1, 2, 3], [(1, 3, 2, "DW/cs"), (2, 3, 2, "DW/cs")]),                       # the same name, every instance in both
              ([1, 2, 3], [(1, 3, 3, "DW/ca"), (2, 3, 2, "DW/cb"), (3, 2, 2, "DW/cc")]),   # three at once
              ([5, 9, 2 ** 40, 7], [(5, 2, 2, "DW/ca"), (9, 3, 2, "DW/ca"), (7, 4, 3, "DW/cb")])]
    for ids, gens in shapes:
        for rep in range(reps):
            k += 1
            scs.append(dict(id="C12-conc-%d" % k, ids=ids, n=0, t=0, initiator=ids[0], account="DW/unused", generate=False, jitter_us=(0, 300, 2500)[rep % 3] + rep,
                            conc_gens=[dict(initiator=i_, n=n_, t=t_, account=a_) for i_, n_, t_, a_ in gens]))
    by = run_parallel(scs, wd, "c12conc")
    # the same on clusters of REAL dirk binaries: the generations' messages travel side by side through the binaries' own gRPC senders and
    # receivers; what every instance holds is read from its listing and, after the processes have been stopped, from its wallet store
    bscs = [dict(sc_, id=sc_["id"].replace("C12-conc-", "C12-conc-bin-"), jitter_us=0) for sc_ in scs[::reps][:(3 if tier == "quick" else 6)] if all(i_ < 100 for i_ in sc_["ids"])]
    if bscs:
        bchunks = [bscs[i::3] for i in range(3) if bscs[i::3]]
        with ThreadPoolExecutor(max_workers=3) as ex:
            bouts = list(ex.map(lambda a: run_dkgdrv(a[1], wd, "c12concbin%d" % a[0], timeout=900, dirk=build_dirk()), enumerate(bchunks)))
        for evs_, rc_, err_ in bouts:
            if rc_ != 0:
                raise Inconclusive("concurrent generations on dirk binaries: dkgdrv exited %s: %s" % (rc_, err_[-400:]))
            by.update(split_scenarios(evs_))
        scs = scs + bscs
    lines, index, gmeta = [], [], {}
    nok = nfail = 0
    drift = []
    for sc in scs:
        evs = by.get(sc["id"])
        if evs is None:
            raise Inconclusive("scenario %s produced no events" % sc["id"])
        outs = {e["g"]: e for e in evs if e["ev"] == "ConcOutcome"}
        if len(outs) != len(sc["conc_gens"]):
            raise Inconclusive("scenario %s: %d of %d concurrent generations reported" % (sc["id"], len(outs), len(sc["conc_gens"])))
        crashed = [e["crashed"] for e in evs if e["ev"] == "End"][0] if any(e["ev"] == "End" for e in evs) else []
        names = [g_["account"] for g_ in sc["conc_gens"]]
        for gi, g_ in enumerate(sc["conc_gens"]):
            o = outs[gi]
            gid = "%s/g%d" % (sc["id"], gi)
            start = len(lines) + 1
            lines.append(dict(ev="Begin", sc=gid, n=g_["n"], t=g_["t"], probe=False))
            lines.append(clean(dict(ev="Outcome", ok=o["ok"], n=g_["n"], t=g_["t"], hung=bool(o["hung"]), message=o.get("message", ""), pubkey=o.get("pubkey", ""),
                                    participants=o.get("participants") or [], faults_hit=[])))
            for e in evs:
                if e["ev"] == "ConcHolds" and e["g"] == gi:
                    c_ = clean(dict(e, ev="Holds"))
                    c_.pop("g", None)
                    lines.append(c_)
            lines.append(dict(ev="End", sc=gid, crashed=crashed or []))
            index.append((start, len(lines), gid))
            gmeta[gid] = dict(scenario=sc, generation=g_)
            nok += bool(o["ok"])
            nfail += not o["ok"]
            if o["hung"]:
                drift.append("%s: the generation never ended (no answer to the client within 40 s)" % gid)
            if not o["ok"] and names.count(g_["account"]) == 1 and not o["hung"]:
                drift.append("%s: a generation failed although no other generation used its name: %s" % (gid, o.get("message", "")))
        if crashed:
            drift.append("%s: instance(s) %s died" % (sc["id"], crashed))
    # layer D: the message flow of some of the in-process runs against DkgConc.tla
    flows = 0
    for sc in [s_ for s_ in scs if "-bin-" not in s_["id"]][::(4 if tier == "quick" else 2)][:(5 if tier == "quick" else 30)]:
        d_ = conc_message_flow(sc, by[sc["id"]], wd, "DkgConcTrace_" + sc["id"])
        flows += 1
        if d_:
            drift.append(d_)
    selftest = None
    for sc in [s_ for s_ in scs if "-bin-" not in s_["id"]][:1]:
        selftest = conc_message_flow(sc, by[sc["id"]], wd, "DkgConcTrace_selftest", corrupt=True) is not None
        if not selftest:
            drift.append("binding self-test: a contribution sent to a lower identifier was accepted by DkgConcTrace")
    if nok < 6:
        raise Inconclusive("only %d concurrent generations succeeded: the agreement check would be vacuous" % nok)
    ok, violated, pos, extra = validate("DkgTrace", lines, ["Agreement", "ThresholdRule"], wd, name="DkgTraceConc")
    tr = extra if ok else extra[0]
    info["states"] += tr.distinct
    info["transitions"] += tr.generated
    if not ok:
        gid = locate(index, pos)
        seg = [lines[a - 1:b] for a, b, s_ in index if s_ == gid][0]
        verdict.violation("%s:concurrent:%s" % (violated, extra[1][:80]),
                          "generations requested at the same time (%s, %s): real run rejected by DkgTrace invariant %s %s" % (gid, gmeta[gid]["scenario"]["conc_gens"], violated, extra[1]),
                          dict(scenario=gmeta[gid]["scenario"], trace=seg[:40], invariant=violated, module="DkgTrace", conc=True))
    if drift and not verdict.violations:
        # the model of concurrent generations no longer describes the code; nothing of this is a statement of C12
        print("DRIFT (DkgConc.tla): " + "; ".join(drift[:4]))
    return dict(scenarios=len(scs), of_which_on_clusters_of_dirk_binaries=len(bscs), generations=nok + nfail, succeeded=nok, failed=nfail,
                message_flows_validated_against_DkgConc=flows, corrupted_flow_rejected=selftest, drift=drift[:10])


# ------------------------------------------------------------------------------------------ C12
def run_c12(tier, seed, wd, info, verdict):
    rnd = random.Random(seed)
    scs, meta = [], {}
    k = 0
    for n in range(2, 8):
        for t in range(0, n + 2):          # (threshold 0 - the value of an absent field - is outside the rule like any other)
            valid = 2 * t > n and t <= n
            sets = idsets(n, rnd) if (n == 3 or tier != "quick") else [list(range(1, n + 1))]
            for ids in sets[:(4 if valid else 1)]:
                inits = ids if (tier != "quick" and valid and n <= 4) else [ids[k % n]]
                for init in inits:
                    orders = [None]
                    if valid and n <= (3 if tier == "quick" else 4):
                        orders = list(itertools.permutations(ids))
                        if tier == "quick":
                            orders = rnd.sample(orders, min(3, len(orders)))
                    elif valid:
                        orders = [tuple(rnd.sample(ids, n)) for _ in range(1 if tier == "quick" else 8)]
                    for od in orders:
                        k += 1
                        sid = "C12-%d" % k
                        sc = dict(id=sid, ids=ids, n=n, t=t, initiator=init, account="DW/g%d" % k, generate=True, probe=valid,
                                  commit_order=list(od) if od else [], warm=bool(valid and k % 2))    # every other one: not the wallet's first dynamic account
                        scs.append(sc)
                        meta[sid] = sc
    # tampered commit replies
    for kind in ("pubkey-alter", "sig-alter", "pubkey-empty", "sig-empty", "errreply", "lost"):
        for to in (1, 2, 3):
            k += 1
            sid = "C12-%d" % k
            sc = dict(id=sid, ids=[1, 2, 3], n=3, t=2, initiator=1 + k % 3, account="DW/g%d" % k, generate=True, probe=True,
                      faults=[dict(site="commit", to=to, kind=kind)])
            scs.append(sc)
            meta[sid] = sc
    # a FAULTY participant (Dkg.tla: byz): its confirmation signature - and everything it signs afterwards - is made with a key
    # that is not its share.  Every list position, several (n, t): success may not be reported (if it is, the probe finds that
    # subsets containing that participant do not combine).
    for n, t in ((3, 2), (4, 3), (5, 3)) if tier == "quick" else ((3, 2), (4, 3), (5, 3), (5, 4), (6, 4), (7, 4), (7, 5)):
        for to in range(1, n + 1):
            for init in ((1, n) if tier == "quick" else range(1, n + 1)):
                k += 1
                sid = "C12-%d" % k
                sc = dict(id=sid, ids=list(range(1, n + 1)), n=n, t=t, initiator=init, account="DW/g%d" % k, generate=True, probe=True,
                          faults=[dict(site="commit", to=to, kind="byzsig")])
                scs.append(sc)
                meta[sid] = sc
    # the requested NAME IS ALREADY TAKEN on some instances: an earlier generation of the same name among n0 instances of a larger
    # cluster, then the generation under test requested of an instance that does not hold the name (Dkg.tla: old holders).  The
    # program chooses the participants; whenever one of them holds the old account it cannot store the new one - success may then
    # not be reported (if it is, Agreement finds that participant holding another key).
    nprior = 0
    for m, (n0, t0), (n, t) in ((3, (2, 2), (2, 2)), (4, (3, 2), (3, 2)), (5, (3, 2), (3, 2)), (4, (2, 2), (2, 2)), (4, (2, 2), (3, 2)), (5, (3, 3), (4, 3))):
        for rep in range(2 if tier == "quick" else 6):
            k += 1
            sid = "C12-%d" % k
            sc = dict(id=sid, ids=list(range(1, m + 1)), n=n, t=t, initiator=0, initiator_nonholder=True, prior=dict(initiator=1 + (k + rep) % m, n=n0, t=t0),
                      account="DW/g%d" % k, generate=True, probe=True)
            scs.append(sc)
            meta[sid] = sc
            nprior += 1
    # MORE PARTICIPANTS REQUESTED THAN THE CLUSTER HAS INSTANCES ("success for n participants": a generation that runs among fewer
    # participants than requested is not the one the client asked for - DkgTrace 'participants'), with thresholds inside the permitted
    # range for the REQUESTED n, some of them above the number of instances
    for m, n, t in ((3, 4, 3), (3, 5, 3), (3, 5, 4), (3, 7, 4), (2, 3, 2), (4, 5, 3), (4, 7, 7)) if tier != "quick" else ((3, 4, 3), (3, 5, 3), (3, 5, 4), (2, 3, 2), (4, 7, 4)):
        for init in (1, m):
            k += 1
            sid = "C12-%d" % k
            sc = dict(id=sid, ids=list(range(1, m + 1)), n=n, t=t, initiator=init, account="DW/g%d" % k, generate=True, probe=False)
            scs.append(sc)
            meta[sid] = sc
    conc_model = conc_model_phase(tier, wd, info)
    by = run_parallel(scs, wd, "c12")
    conc = conc_gens_phase(tier, seed, wd, info, verdict)
    # clusters of REAL dirk binaries: each instance a process of the shipped program with its own wallet store, certificate and
    # configuration file, talking to its peers through the repository's own gRPC sender and receiver over mutual TLS
    bnts = [(2, 2), (3, 2), (3, 3), (4, 3), (3, 1), (3, 4), (4, 2), (3, 0), (2, 0)] if tier == "quick" else [(n, t) for n in range(2, 6) for t in range(0, n + 2)]
    bscs = []
    for n, t in bnts:
        for init in ([1, n] if tier == "quick" and 2 * t > n and t <= n else [1 + (n + t) % n] if tier == "quick" else range(1, n + 1)):
            k += 1
            sid = "C12-bin-%d" % k
            sc = dict(id=sid, ids=list(range(1, n + 1)), n=n, t=t, initiator=init, account="DW/b%d" % k, generate=True, probe=2 * t > n and t <= n)
            bscs.append(sc)
            meta[sid] = sc
    if tier != "quick":
        for ids in ([2 ** 32 + 7, 2 ** 32 + 14, 2 ** 32 + 21], [2 ** 64 - 1, 2 ** 64 - 4, 2 ** 64 - 7]):
            k += 1
            sid = "C12-bin-%d" % k
            sc = dict(id=sid, ids=ids, n=3, t=2, initiator=ids[1], account="DW/b%d" % k, generate=True, probe=True)
            bscs.append(sc)
            meta[sid] = sc
    chunks = [bscs[i::6] for i in range(6) if bscs[i::6]]
    with ThreadPoolExecutor(max_workers=6) as ex:
        bouts = list(ex.map(lambda a: run_dkgdrv(a[1], wd, "c12bin%d" % a[0], dirk=build_dirk()), enumerate(chunks)))
    nbin = 0
    for evs_, rc_, err_ in bouts:
        if rc_ != 0:
            raise Inconclusive("dkgdrv against dirk binaries exited %s: %s" % (rc_, err_[-400:]))
        bb = split_scenarios(evs_)
        by.update(bb)
        nbin += sum(1 for evs2 in bb.values() if any(e["ev"] == "Outcome" and e["ok"] for e in evs2))
    if nbin < 3:
        raise Inconclusive("only %d generations on clusters of dirk binaries succeeded" % nbin)
    scs = scs + bscs
    lines, index = [], []
    nok = 0
    for sc in scs:
        evs = by.get(sc["id"])
        if evs is None:
            raise Inconclusive("scenario %s produced no events" % sc["id"])
        start = len(lines) + 1
        project_gen(sc["id"], sc, evs, lines, set())
        index.append((start, len(lines), sc["id"]))
        nok += any(e["ev"] == "Outcome" and e["ok"] for e in evs)
    if nok < 10:
        raise Inconclusive("only %d generations succeeded: the agreement check would be vacuous" % nok)
    inv = ["Agreement", "ThresholdRule", "PeersOnly"]
    ok, violated, pos, extra = validate("DkgTrace", lines, inv, wd)
    tr = extra if ok else extra[0]
    info["states"] += tr.distinct
    info["transitions"] += tr.generated
    if not ok:
        sid = locate(index, pos)
        seg = [lines[a - 1:b] for a, b, s in index if s == sid][0]
        verdict.violation("%s:n=%s,t=%s:%s" % (violated, meta[sid]["n"], meta[sid]["t"], extra[1][:80]),
                          "generation %s (n=%d t=%d ids=%s initiator=%s): real run rejected by DkgTrace invariant %s %s" %
                          (sid, meta[sid]["n"], meta[sid]["t"], meta[sid]["ids"], meta[sid]["initiator"], violated, extra[1]),
                          dict(scenario=meta[sid], trace=seg[:60], invariant=violated, module="DkgTrace"))
    taken = [by[sc_["id"]] for sc_ in scs if sc_.get("prior")]
    prior_ok = sum(1 for evs_ in taken if any(e["ev"] == "Prior" and e["ok"] for e in evs_))
    if prior_ok * 2 < nprior:
        raise Inconclusive("only %d of %d earlier generations of the same name succeeded" % (prior_ok, nprior))
    return dict(scenarios=len(scs), successful_generations=nok, concurrent_generations=dict(model=conc_model, replay=conc), name_already_taken=dict(scenarios=nprior, earlier_generation_succeeded=prior_ok,
                second_generation_succeeded=sum(1 for evs_ in taken if any(e["ev"] == "Outcome" and e["ok"] for e in evs_))),
                generations_on_clusters_of_dirk_binaries=len(bscs), of_which_successful=nbin, trace_events=len(lines),
                sample=lines[index[0][0] - 1:index[0][1]][:8])


# ------------------------------------------------------------------------------------------ C13
def run_c13(tier, seed, wd, info, verdict):
    nts = [(3, 2)] if tier == "quick" else [(3, 2), (3, 3), (4, 3)]
    scs, meta = [], {}
    k = 0
    contrib_kinds = None
    for n, t in nts:
        c = dconsts(n, t)
        c.update(OutFile="plans.json", Initiator=1)
        r = tlc("DkgPlans", make_cfg(c), wd, name="DkgPlans_%d_%d" % (n, t), workers=1)
        require_ok(r, "DkgPlans")
        plans = json.load(open(os.path.join(wd, "DkgPlans_%d_%d" % (n, t), "plans.json")))["plans"]
        plans = sorted(plans, key=lambda p: json.dumps(p, sort_keys=True))
        for init in ([1, n] if tier == "quick" else range(1, n + 1)):
            for pl in plans:
                k += 1
                sid = "C13-%d" % k
                f = dict(site=pl["site"], to=pl["to"], kind=pl["kind"])
                if pl["site"] not in ("prepare", "execute"):
                    f["from"] = pl["from"]
                sc = dict(id=sid, ids=list(range(1, n + 1)), n=n, t=t, initiator=init, account="DW/f%d" % k, generate=True, probe=pl["kind"] == "dup", faults=[f])
                scs.append(sc)
                meta[sid] = sc
        # control: the same generation without fault succeeds
        k += 1
        sid = "C13-control-%d-%d" % (n, t)
        scs.append(dict(id=sid, ids=list(range(1, n + 1)), n=n, t=t, initiator=1, account="DW/ctl%d" % k, generate=True, probe=True))
        meta[sid] = scs[-1]
    # IDENTIFIERS THAT AGREE IN THEIR LOW BITS (1 and 1025, 1 and 257, 3 and 65539): the genuine share a participant computed for
    # one of them, handed to the other (share-swapped) - at every message of the swap where such a share is known by then
    for ids_ in ([1, 2, 1025], [1, 257, 2], [3, 5, 65539]):      # (below 2^31: the trace specification reads identifiers as TLC integers)
        for init_ in (ids_[0], ids_[2]):
            for site_, frm_, to_ in (("contribute.req", ids_[1] if ids_[1] < ids_[2] else ids_[0], ids_[2]), ("contribute.rep", ids_[2], ids_[1] if ids_[1] < ids_[2] else ids_[0]),
                                     ("contribute.req", min(ids_), sorted(ids_)[1]), ("contribute.rep", sorted(ids_)[1], min(ids_))):
                k += 1
                sid = "C13-%d" % k
                sc = dict(id=sid, ids=ids_, n=3, t=2, initiator=init_, account="DW/f%d" % k, generate=True, probe=False, faults=[dict(site=site_, to=to_, kind="share-swapped", **{"from": frm_})])
                scs.append(sc)
                meta[sid] = sc
    if tier != "quick":
        rnd = random.Random(seed)
        base = [s for s in scs if s.get("faults")]
        for j in range(300):   # double faults
            a, b = rnd.sample(base, 2)
            if a["n"] != b["n"] or a["t"] != b["t"]:
                continue
            k += 1
            sid = "C13-%d" % k
            scs.append(dict(a, id=sid, account="DW/f%d" % k, faults=[dict(a["faults"][0]), dict(b["faults"][0])]))
            meta[sid] = scs[-1]
    by = run_parallel(scs, wd, "c13")
    # THE REAL TRANSPORT under a faulty participant: two instances are real dirk binaries, the third (highest identifier: it only ever
    # answers contribution requests) is served by the harness over real gRPC / TLS with the repository's own service, receiver handler and
    # process service, its contribution REPLIES tampered with.  The binaries' own services/sender/grpc carries the faulty reply.
    gkinds = ["vvec-long-identity", "vvec-long-key", "vvec-long-poly", "vvec-short", "vvec-short-poly", "vvec-double", "vvec-empty", "vvec-alter", "share-replaced", "share-otherid"]
    gscs = []
    for gi, gk in enumerate(gkinds if tier != "quick" else gkinds[:3] + [gkinds[3 + seed % 7], gkinds[3 + (seed + 3) % 7]]):
        k += 1
        gscs.append(dict(id="C13-grpc-%d" % k, ids=[1, 2, 3], n=3, t=2, initiator=1 + gi % 2, account="DW/gf%d" % k, generate=True, probe=False, faulty_grpc=True,
                         faults=[dict(site="contribute.rep", **{"from": 3, "to": 0, "kind": gk})]))
    gchunks = [gscs[i::4] for i in range(4) if gscs[i::4]]
    with ThreadPoolExecutor(max_workers=4) as ex:
        gouts = list(ex.map(lambda a: run_dkgdrv(a[1], wd, "c13grpc%d" % a[0], timeout=900, dirk=build_dirk()), enumerate(gchunks)))
    ghit = 0
    for evs_, rc_, err_ in gouts:
        if rc_ != 0:
            raise Inconclusive("faulty participant over gRPC: dkgdrv exited %s: %s" % (rc_, err_[-400:]))
        gb = split_scenarios(evs_)
        by.update(gb)
        ghit += sum(1 for evs2 in gb.values() if any(e["ev"] == "Outcome" and e["faults_hit"] for e in evs2))
    if ghit < len(gscs):
        raise Inconclusive("faulty participant over gRPC: the fault was applied in only %d of %d generations" % (ghit, len(gscs)))
    for sc_ in gscs:
        meta[sc_["id"]] = sc_
    scs = scs + gscs
    # a generation that never ended (no answer to the client within 40 s) is run again on its own before anything is concluded
    hung = [sc for sc in scs if any(e["ev"] == "Outcome" and e.get("hung") for e in by.get(sc["id"], []))]
    unreproduced = []
    for sc in hung[:6]:
        ev2, rc2, err2 = run_dkgdrv([sc], wd, "c13again_" + sc["id"], timeout=300)
        evs2 = split_scenarios(ev2).get(sc["id"], [])
        if not any(e["ev"] == "Outcome" and e.get("hung") for e in evs2) and any(e["ev"] == "End" for e in evs2):
            unreproduced.append(sc["id"])
            by[sc["id"]] = evs2
    if unreproduced:
        raise Inconclusive("generation(s) %s got no answer once, but did when run again" % unreproduced)
    lines, index = [], []
    mustfail = MUSTFAIL_MSG | {"share-replaced", "share-swapped", "share-otherid", "vvec-alter", "vvec-short", "vvec-empty", "vvec-double", "vvec-long-key", "vvec-long-identity", "vvec-long-poly", "vvec-short-poly"}
    reached, distinct = 0, set()
    for sc in scs:
        evs = by.get(sc["id"])
        if evs is None:
            raise Inconclusive("scenario %s produced no events" % sc["id"])
        out = [e for e in evs if e["ev"] == "Outcome"]
        if "control" in sc["id"]:
            if not (out and out[0]["ok"]):
                raise Inconclusive("control generation %s failed without faults: %s" % (sc["id"], out))
        if out and out[0]["faults_hit"]:
            reached += 1
            distinct.add(json.dumps([sc["n"], sc["t"], sc["initiator"], sc["faults"]], sort_keys=True))
        start = len(lines) + 1
        project_gen(sc["id"], sc, evs, lines, mustfail)
        index.append((start, len(lines), sc["id"]))
    inv = ["FaultNoAccount", "Agreement", "NoCrash"]
    ok, violated, pos, extra = validate("DkgTrace", lines, inv, wd)
    tr = extra if ok else extra[0]
    info["states"] += tr.distinct
    info["transitions"] += tr.generated
    if not ok:
        sid = locate(index, pos)
        seg = [lines[a - 1:b] for a, b, s in index if s == sid][0]
        verdict.violation("%s:%s" % (violated, json.dumps(meta[sid].get("faults"), sort_keys=True)),
                          "generation %s with fault %s (n=%d t=%d initiator=%s): real run rejected by DkgTrace invariant %s %s" %
                          (sid, meta[sid].get("faults"), meta[sid]["n"], meta[sid]["t"], meta[sid]["initiator"], violated, extra[1]),
                          dict(scenario=meta[sid], trace=seg[:60], invariant=violated, module="DkgTrace"))
    return dict(evaluations=len(scs), distinct_nontrivial=len(distinct), reached=reached, trace_events=len(lines),
                sample=[dict(scenario=scs[0], trace=lines[index[0][0] - 1:index[0][1]][:8])])


# ------------------------------------------------------------------------------------------ C16 / C17
def sess_table(wd):
    r = tlc("DkgSession", make_cfg(dict(OutFile="sess.json")), wd, name="DkgSession", workers=1)
    require_ok(r, "DkgSession")
    return json.load(open(os.path.join(wd, "DkgSession", "sess.json")))["table"], r


def skey(st):
    return json.dumps({a: [st[a]["active"], sorted(st[a]["got"]), st[a]["exists"]] for a in sorted(st)})


def paths_to_states(table):
    """Shortest message path from the initial state to every state (ticks avoided where possible)."""
    edges = {}
    for row in table:
        edges.setdefault(skey(row["from"]), []).append(row)
    init = {"DW/s1": dict(active=False, got=[], exists=False), "DW/s2": dict(active=False, got=[], exists=False)}
    dist = {skey(init): []}
    dq = deque([skey(init)])
    while dq:
        s = dq.popleft()
        for row in sorted(edges.get(s, []), key=lambda r: (r["msg"]["m"] == "tick", json.dumps(r["msg"], sort_keys=True))):
            t = skey(row["to"])
            if t not in dist and row["class"] == "ok" and row["msg"]["m"] != "tick":
                dist[t] = dist[s] + [row["msg"]]
                dq.append(t)
    return dist, init


def call_of(msg, tick_ms):
    if msg["m"] == "tick":
        return dict(msg="tick", tick_ms=tick_ms)
    c = dict(inst=3, msg=msg["m"], account=msg["a"], caller="signer-1", t=2, participants=[1, 2, 3])
    if msg["m"] == "contribute":
        c["caller"] = "signer-%d" % msg["from"]
    return c


def project_calls(sid, sc, evs, lines, peers):
    lines.append(dict(ev="Begin", sc=sid))
    calls = sc["calls"]
    for e in evs:
        if e["ev"] == "Call":
            i = e["i"]
            c = calls[i]
            if e["msg"] == "tick":
                lines.append(dict(ev="Call", msg="tick", account="", result="ok", peer=True, changed=False, crashed=False, **{"from": 0}))
                continue
            frm = int(c["caller"].split("-")[1]) if c["msg"] == "contribute" and c["caller"].startswith("signer-") and c["caller"].split("-")[1].isdigit() else 0
            lines.append(dict(ev="Call", msg="oddprepare" if c.get("odd") else e["msg"], account=e["account"], result="ok" if e["result"] == "ok" else ("hung" if e["result"] == "hung" else "refused"), peer=c["caller"] in peers, changed=bool(e["changed"]),
                              crashed=bool(e["crashed"]), caller=c["caller"], **{"from": frm}))


def run_c17(tier, seed, wd, info, verdict, with_nonpeers=False):
    table, r = sess_table(wd)
    info["states"] += r.distinct
    info["transitions"] += len(table)
    dist, init = paths_to_states(table)
    rnd = random.Random(seed)
    rows = sorted(table, key=lambda r: json.dumps(r, sort_keys=True))
    rows = [r for r in rows if skey(r["from"]) in dist]
    unreachable = len(table) - len(rows)
    tick_rows = [r for r in rows if r["msg"]["m"] == "tick"]
    other = [r for r in rows if r["msg"]["m"] != "tick"]
    if tier == "quick":
        other = rnd.sample(other, 330)
        # states with at least one active session are the interesting ones for expiry
        tick_rows = rnd.sample([r_ for r_ in tick_rows if any(v["active"] for v in r_["from"].values())], 26)
    TIMEOUT, TICK = 1500, 1800
    peers = {"signer-1", "signer-2", "signer-3"}
    nonpeers = ["c1", "", "unknown", "signer-9", "Signer-1", "signer-1 "]
    scs = []
    for k, row in enumerate(other + tick_rows):
        path = dist[skey(row["from"])]
        calls = [call_of(m, TICK) for m in path]
        if with_nonpeers:
            # a non-peer sends a message for the same account first: refused, no effect on what follows
            m = row["msg"] if row["msg"]["m"] != "tick" else dict(m="abort", a="DW/s1", **{"from": 0})
            for np_ in (rnd.sample(nonpeers, 2)):
                for mm in ("prepare", "execute", "commit", "abort", "contribute"):
                    c = call_of(dict(m=mm, a=m["a"], **{"from": 1}), TICK)
                    c["caller"] = np_
                    calls.append(c)
        calls.append(call_of(row["msg"], TICK))
        # after the transition, observe the resulting state through one more round of messages
        follow = []
        if row["msg"]["m"] == "tick":
            # directly after the timeout, with no other message in between, every kind of message must see the session gone
            kinds = [dict(m=m_, a=a_, **{"from": 0}) for a_ in ("DW/s1", "DW/s2") for m_ in ("prepare", "execute", "commit", "abort")] + \
                    [dict(m="contribute", a=a_, **{"from": j_}) for a_ in ("DW/s1", "DW/s2") for j_ in (1, 2)] + [dict(m="tick", a="", **{"from": 0})]
            follow.append(kinds[k % len(kinds)])
        for a in ("DW/s1", "DW/s2"):
            follow.append(dict(m="execute", a=a, **{"from": 0}))
        calls += [call_of(m, TICK) for m in follow]
        scs.append(dict(id="C17-%d" % k, ids=[1, 2, 3], n=3, t=2, initiator=3, account="DW/s1", generate=False, calls=calls, timeout_ms=TIMEOUT))
    # PREPARES THE INSTANCE MAY NOT BE ABLE TO ACT ON (threshold 0 - the value of an absent field; a participant list that does not
    # include the receiving instance; a threshold above the number of participants): accepted or refused, the answer must be the truth -
    # a refused prepare starts nothing (a following abort / execute is refused, a following valid prepare is accepted), an accepted
    # one starts a generation, and one that meets an active generation is refused and leaves it intact
    def odd(kind, a):
        c = call_of(dict(m="prepare", a=a, **{"from": 0}), TICK)
        c["odd"] = True
        if kind == "t0":
            c["t"] = 0
        elif kind == "foreign":
            c["participants"] = [1, 2]
        else:
            c["t"] = 7
        return c
    def plain(m, a, frm=0):
        return call_of(dict(m=m, a=a, **{"from": frm}), TICK)
    oscs = []
    for oi, kind in enumerate(("t0", "foreign", "t7")):
        for si, seq in enumerate((["O", "abort", "prepare", "abort"], ["O", "execute", "prepare", "execute"], ["prepare", "O", "execute", "abort", "O", "prepare"],
                                  ["O", "abort", "prepare", "c1", "c2", "commit"], ["O", "O", "commit", "abort", "prepare"])):
            a_ = ("DW/s1", "DW/s2")[(oi + si) % 2]
            calls = [odd(kind, a_) if x == "O" else (plain("contribute", a_, int(x[1])) if x in ("c1", "c2") else plain(x, a_)) for x in seq]
            oscs.append(dict(id="C17-odd-%s-%d" % (kind, si), ids=[1, 2, 3], n=3, t=2, initiator=3, account="DW/s1", generate=False, calls=calls, timeout_ms=TIMEOUT))
    scs += oscs
    by = run_parallel(scs, wd, "c17", workers=NCPU)
    # the same message sequences against clusters of REAL dirk binaries: every message is sent over TLS with the caller's certificate
    # to the instance's own gRPC receiver; the generation timeout comes from the binary's configuration file
    ticky = [s_ for s_ in scs if any(c_.get("msg") == "tick" for c_ in s_["calls"])]
    plain = [s_ for s_ in scs if s_ not in ticky]
    pick = (rnd.sample(ticky, min(len(ticky), 6)) + rnd.sample(plain, min(len(plain), 18))) if tier == "quick" else (ticky[:60] + rnd.sample(plain, min(len(plain), 240)))
    pick = [s_ for s_ in pick if s_ not in oscs] + oscs[::2 if tier == "quick" else 1]
    bscs = [dict(s_, id=s_["id"] + "-bin") for s_ in pick]
    chunks = [bscs[i::8] for i in range(8) if bscs[i::8]]
    with ThreadPoolExecutor(max_workers=8) as ex:
        bouts = list(ex.map(lambda a: run_dkgdrv(a[1], wd, "c17bin%d" % a[0], dirk=build_dirk()), enumerate(chunks)))
    for evs_, rc_, err_ in bouts:
        if rc_ != 0:
            raise Inconclusive("dkgdrv (message sequences) against dirk binaries exited %s: %s" % (rc_, err_[-400:]))
        by.update(split_scenarios(evs_))
    scs = scs + bscs
    lines, index = [], []
    ncalls = 0
    for sc in scs:
        evs = by.get(sc["id"])
        if evs is None:
            raise Inconclusive("scenario %s produced no events" % sc["id"])
        start = len(lines) + 1
        project_calls(sc["id"], sc, evs, lines, peers)
        ncalls += len(sc["calls"])
        index.append((start, len(lines), sc["id"]))
    # CONCURRENT ARRIVAL of prepare messages for ONE name: 25 rounds of eight genuine peers' prepares released at the same moment (after a
    # short storm of other messages); exactly one per round may be accepted, whatever the interleaving (SessionTrace.ConcPrepare)
    psc = [dict(id="C17-sameprep-%d" % i, ids=ids_, n=len(ids_), t=2, initiator=ids_[0], account="DW/x", generate=False, storm_ms=150, storm_workers=2)
           for i, ids_ in enumerate(([1, 2, 3], [4, 5, 6, 7]) if tier == "quick" else ([1, 2, 3], [4, 5, 6, 7], [1, 2], [3, 5, 2 ** 40]))]
    pby = run_parallel(psc, wd, "c17sameprep", workers=len(psc))
    nrounds = 0
    for sc in psc:
        evs = pby.get(sc["id"])
        if evs is None:
            raise Inconclusive("scenario %s produced no events" % sc["id"])
        start = len(lines) + 1
        lines.append(dict(ev="Begin", sc=sc["id"]))
        for e in evs:
            if e["ev"] == "ConcPrepare":
                nrounds += 1
                lines.append(dict(ev="ConcPrepare", account=e["account"], accepted=e["accepted"], of=e["of"]))
        index.append((start, len(lines), sc["id"]))
    if nrounds < 20:
        raise Inconclusive("same-name prepare rounds: only %d rounds were run" % nrounds)
    scs = scs + psc
    inv = ["Lifecycle", "PeersOnly"] if with_nonpeers else ["Lifecycle"]
    ok, violated, pos, extra = validate("SessionTrace", lines, inv, wd)
    tr = extra if ok else extra[0]
    info["states"] += tr.distinct
    info["transitions"] += tr.generated
    if not ok:
        sid = locate(index, pos)
        sc = [s for s in scs if s["id"] == sid][0]
        seg = [lines[a - 1:b] for a, b, s in index if s == sid][0]
        verdict.violation("%s:%s" % (violated, extra[1][:120]),
                          "message sequence %s on the real process service: rejected by SessionTrace invariant %s %s" % (sid, violated, extra[1]),
                          dict(scenario=sc, trace=seg, invariant=violated, module="SessionTrace"))
    return dict(transitions_in_table=len(table), transitions_replayed=len(scs) - len(psc), same_name_prepare_rounds=nrounds, of_which_against_dirk_binaries=len(bscs), unreachable_rows=unreachable, calls=ncalls, trace_events=len(lines),
                sample=lines[index[0][0] - 1:index[0][1]][:10])


def run_c16(tier, seed, wd, info, verdict):
    # (a) non-peer messages in every session state (lifecycle replay with non-peer calls interposed)
    res = run_c17("quick" if tier == "quick" else "thorough", seed, wd, info, verdict, with_nonpeers=True)
    # (b) share ownership for all participant pairs: ContribReply events of real generations
    scs = []
    k = 0
    for ids in ([1, 2, 3], [1, 2, 3, 4], [5, 9, 2 ** 40]):
        for init in ids:
            k += 1
            scs.append(dict(id="C16-gen-%d" % k, ids=ids, n=len(ids), t=len(ids) // 2 + 1, initiator=init, account="DW/o%d" % k, generate=True, probe=False))
    by = run_parallel(scs, wd, "c16")
    lines, index = [], []
    npairs = 0
    for sc in scs:
        evs = by[sc["id"]]
        start = len(lines) + 1
        project_gen(sc["id"], sc, evs, lines, set())
        npairs += sum(1 for e in evs if e["ev"] == "ContribReply")
        index.append((start, len(lines), sc["id"]))
    ok, violated, pos, extra = validate("DkgTrace", lines, ["PeersOnly", "Agreement"], wd, name="DkgTraceC16")
    tr = extra if ok else extra[0]
    info["states"] += tr.distinct
    info["transitions"] += tr.generated
    if not ok:
        sid = locate(index, pos)
        sc = [s for s in scs if s["id"] == sid][0]
        seg = [lines[a - 1:b] for a, b, s in index if s == sid][0]
        verdict.violation("%s:%s" % (violated, extra[1][:120]), "generation %s: rejected by DkgTrace invariant %s %s" % (sid, violated, extra[1]),
                          dict(scenario=sc, trace=seg[:60], invariant=violated, module="DkgTrace"))
    res["contribution_replies_checked"] = npairs
    # (d) CONCURRENT ARRIVAL: for a while genuine peers run prepare / contribute / abort against one instance while callers that are
    #     not peers (a fully permitted ordinary client on several streams at once, an unknown name, no name) send every kind of message
    #     - new names and the names the peers are using right now.  No order between the calls is known and none is needed: a non-peer
    #     is refused and handed no share whatever the interleaving (SessionTrace.ConcCall); every contribution reply to a peer carries
    #     that peer's share and nobody else's (DkgTrace.ContribReply).
    ssc = [dict(id="C16-storm-%d" % i, ids=ids, n=len(ids), t=2, initiator=ids[0], account="DW/x", generate=False, storm_ms=1500 if tier == "quick" else 6000, storm_workers=8)
           for i, ids in enumerate(([1, 2, 3], [7, 8, 9, 10]) if tier == "quick" else ([1, 2, 3], [7, 8, 9, 10], [1, 2], [3, 5, 2 ** 40], [1, 2, 3, 4, 5]))]
    sby = run_parallel(ssc, wd, "c16storm", workers=len(ssc))
    slines, sindex, dlines, dindex = [], [], [], []
    nconc = nrep = 0
    for sc in ssc:
        evs = sby.get(sc["id"])
        if evs is None:
            raise Inconclusive("storm scenario %s produced no events" % sc["id"])
        end = [e for e in evs if e["ev"] == "StormEnd"]
        if not end or end[0]["peer_ok"] < 20:
            raise Inconclusive("storm %s: the peers' own messages were not served (%s)" % (sc["id"], end))
        peers = {"signer-%d" % i for i in sc["ids"]}
        start, dstart = len(slines) + 1, len(dlines) + 1
        slines.append(dict(ev="Begin", sc=sc["id"]))
        dlines.append(dict(ev="Begin", sc=sc["id"], n=sc["n"], t=sc["t"], probe=False))
        for e in evs:
            if e["ev"] == "ConcCall":
                nconc += 1
                slines.append(dict(ev="ConcCall", caller=e["caller"], peer=e["caller"] in peers, msg=e["msg"], account=e["account"],
                                   result="ok" if e["result"] == "ok" else "refused", got_share=bool(e["got_share"])))
            elif e["ev"] == "ContribReply":
                nrep += 1
                dlines.append(clean(e))
        if end[0]["crashed"]:
            slines.append(dict(ev="ConcCall", caller="(instance crashed)", peer=False, msg="crash", account="", result="ok", got_share=False))
        sindex.append((start, len(slines), sc["id"]))
        dindex.append((dstart, len(dlines), sc["id"]))
    if nconc < 200 or nrep < 20:
        raise Inconclusive("storm: only %d non-peer calls / %d contribution replies were observed" % (nconc, nrep))
    for module, ls, ix, inv in (("SessionTrace", slines, sindex, ["PeersOnly"]), ("DkgTrace", dlines, dindex, ["PeersOnly"])):
        ok, violated, pos, extra = validate(module, ls, inv, wd, name=module + "Storm")
        tr = extra if ok else extra[0]
        info["states"] += tr.distinct
        info["transitions"] += tr.generated
        if not ok:
            sid = locate(ix, pos)
            sc = [s_ for s_ in ssc if s_["id"] == sid][0]
            bad_line = ls[pos - 2] if pos and pos >= 2 else None
            verdict.violation("%s:concurrent:%s" % (violated, (bad_line or {}).get("msg", "reply")),
                              "concurrent key-generation messages from peers and non-peers (%s): rejected by %s invariant %s at %s %s" % (sid, module, violated, bad_line, extra[1]),
                              dict(scenario=sc, trace=[bad_line], invariant=violated, module=module, storm=True))
    # (e) "shares go to their owner" on the SENDING side: a peer's Prepare carries a participant list that binds an identifier to another
    #     name:port than the receiver's own configuration (a non-peer host, another peer's address, an identifier nobody has); the
    #     receiver's Execute then swaps contributions - every message it sends must go to the endpoint ITS configuration gives for the
    #     identifier (the harness network delivers by name and port and logs anything else as Misdelivery)
    bscs2 = []
    binds = [({"3": "client-test01:9999"}, [1, 2, 3]), ({"3": "signer-2:10002"}, [1, 2, 3]), ({"2": "c1:7777"}, [1, 2, 3]), ({"9": "signer-3:10003"}, [1, 2, 9]),
             ({"2": "signer-3:10003", "3": "signer-2:10002"}, [1, 2, 3]), ({}, [1, 2, 3])]
    for bi, (bind, parts_) in enumerate(binds):
        for caller in ("signer-2", "signer-3"):
            bscs2.append(dict(id="C16-bind-%d-%s" % (bi, caller), ids=[1, 2, 3], n=3, t=2, initiator=1, account="DW/unused", generate=False, calls=[
                dict(inst=1, caller=caller, msg="prepare", account="DW/bind%d" % bi, t=2, participants=parts_, bind=bind),
                dict(inst=2, caller=caller, msg="prepare", account="DW/bind%d" % bi, t=2, participants=parts_, bind=bind),
                dict(inst=3, caller=caller, msg="prepare", account="DW/bind%d" % bi, t=2, participants=parts_, bind=bind),
                dict(inst=1, caller=caller, msg="execute", account="DW/bind%d" % bi),
                dict(inst=2, caller=caller, msg="execute", account="DW/bind%d" % bi)]))
    bby = run_parallel(bscs2, wd, "c16bind", workers=4)
    blines, bindex, nmsg = [], [], 0
    for sc in bscs2:
        evs = bby.get(sc["id"])
        if evs is None:
            raise Inconclusive("scenario %s produced no events" % sc["id"])
        start = len(blines) + 1
        blines.append(dict(ev="Begin", sc=sc["id"]))
        for e in evs:
            if e["ev"] == "Misdelivery":
                blines.append(dict(ev="Misdelivery", id=e["id"], name=e["name"], port=e["port"], reached=e["reached"], **{"from": e["from"]}))
            elif e["ev"] == "Msg" and e["type"] == "contribute":
                nmsg += 1
        bindex.append((start, len(blines), sc["id"]))
    if nmsg < 6:
        raise Inconclusive("bound participant lists: only %d contribution messages were sent" % nmsg)
    ok, violated, pos, extra = validate("SessionTrace", blines, ["PeersOnly"], wd, name="SessionTraceBind")
    tr = extra if ok else extra[0]
    info["states"] += tr.distinct
    info["transitions"] += tr.generated
    if not ok:
        sid = locate(bindex, pos)
        sc = [s_ for s_ in bscs2 if s_["id"] == sid][0]
        verdict.violation("%s:misdelivery:%s" % (violated, json.dumps(sc["calls"][0].get("bind"), sort_keys=True)),
                          "%s: after a Prepare whose participant list binds %s, the instance sent a key-generation share to an endpoint that is not the configured peer "
                          "of that identifier: %s %s" % (sid, sc["calls"][0].get("bind"), blines[pos - 2] if pos and pos >= 2 else "", extra[1]),
                          dict(scenario=sc, trace=[blines[pos - 2]] if pos and pos >= 2 else [], invariant=violated, module="SessionTrace", bind=True))
    res["participant_lists_binding_other_endpoints"] = dict(scenarios=len(bscs2), contribution_messages=nmsg)
    res["concurrent_arrival"] = dict(scenarios=len(ssc), non_peer_calls_made=sum(e["non_peer_calls"] for sc_ in ssc for e in sby[sc_["id"]] if e["ev"] == "StormEnd"),
                                     non_peer_calls_in_trace=nconc, contribution_replies_to_peers=nrep)
    # (f) "only between peers" on the SENDING side of the real transport: two real dirk binaries and, at the configured ADDRESS of the
    #     third peer, a server of this harness that holds a certificate for that name issued by an authority of the HOST's trust store -
    #     not by the cluster's configured authority.  It accepts the binaries' certificates and would answer every key-generation
    #     message; the binaries' services/sender/grpc must not talk to it: whatever reaches its handlers (a prepare, a share) is a
    #     key-generation message sent to somebody who is not a peer
    iscs = [dict(id="C16-impostor-%d" % i_, ids=[1, 2, 3], n=3, t=2, initiator=1 + i_ % 2, account="DW/imp%d" % i_, generate=True, probe=False, faulty_grpc=True,
                 faults=[dict(site="contribute.rep", **{"from": 3, "to": 0, "kind": "impostor"})]) for i_ in range(2 if tier == "quick" else 6)]
    with ThreadPoolExecutor(max_workers=2) as ex:
        iouts = list(ex.map(lambda a: run_dkgdrv([a[1]], wd, "c16imp%d" % a[0], timeout=600, dirk=build_dirk()), enumerate(iscs)))
    ilines, iindex = [], []
    for sc_, (evs_, rc_, err_) in zip(iscs, iouts):
        if rc_ != 0:
            raise Inconclusive("impostor at a peer's address: dkgdrv exited %s: %s" % (rc_, err_[-400:]))
        out_ = [e for e in evs_ if e["ev"] == "Outcome"]
        if not out_ or out_[0].get("hung"):
            raise Inconclusive("impostor at a peer's address: generation %s got no answer" % sc_["id"])
        start = len(ilines) + 1
        ilines.append(dict(ev="Begin", sc=sc_["id"]))
        for e in evs_:
            if e["ev"] == "Misdelivery":
                ilines.append(dict(ev="Misdelivery", id=e["id"], name=e["name"], port=e["port"], reached=e["reached"], **{"from": e["from"]}))
        if out_[0]["ok"] and len(ilines) == start:
            raise Inconclusive("impostor at a peer's address: generation %s succeeded without the impostor seeing a message" % sc_["id"])
        iindex.append((start, len(ilines), sc_["id"]))
    ok, violated, pos, extra = validate("SessionTrace", ilines, ["PeersOnly"], wd, name="SessionTraceImpostor")
    tr = extra if ok else extra[0]
    info["states"] += tr.distinct
    info["transitions"] += tr.generated
    if not ok:
        sid = locate(iindex, pos)
        sc = [s_ for s_ in iscs if s_["id"] == sid][0]
        verdict.violation("%s:impostor" % violated, "%s: a dirk binary sent a key-generation message to a server at a peer's address whose certificate is NOT of the configured "
                          "authority (host trust store): %s %s" % (sid, ilines[pos - 2] if pos and pos >= 2 else "", extra[1]),
                          dict(scenario=sc, trace=[ilines[pos - 2]] if pos and pos >= 2 else [], invariant=violated, module="SessionTrace", impostor=True))
    res["impostor_at_peer_address"] = dict(scenarios=len(iscs), refused_by_the_binaries=sum(1 for a, b, _ in iindex if a == b))
    # (c) the same boundary over the REAL transport: every key-generation method x every kind of caller credential (no certificate,
    #     foreign / self-signed / expired certificates, genuine client certificates, genuine certificates followed by an unverified
    #     one that names a peer) x every server certificate set-up; only a caller whose VERIFIED name is a peer's may get anything
    import apifamily
    m = apifamily.matrix_phase("C16", tier, wd, verdict, select=lambda c: c["method"].startswith("DKG."), min_served=4, min_refused=20)
    info["states"] += m["states"]
    info["transitions"] += m["transitions"]
    res["over_real_tls"] = dict(cells=m["cells"], obtained_data=m["served"], refused_at_transport=m["refused"], server_setups=m["modes"])
    return res


# ------------------------------------------------------------------------------------------ C14
# request orders of Cluster.tla: A, B the duties, O an old duty; a / b = duty A / B arriving while the instance's storage cannot be
# read, x / y = duty A / B arriving while the record cannot be written
DUTY_OF = dict(A="A", B="B", a="A", b="B", x="A", y="B")
FAULT_OF = dict(a="read", b="read", x="write", y="write")


def wants(routing, d):
    """Number of instances that are asked for duty d at all (with or without a storage fault)."""
    return sum(1 for o in routing if any(DUTY_OF.get(c) == d for c in o))


def run_c14(tier, seed, wd, info, verdict):
    rnd = random.Random(seed)
    # model: every accepted (n,t), all routings and interleavings, with repeats
    for n in range(2, 8 if tier != "quick" else 6):
        for t in range(1, n + 1):
            r = tlc("Cluster", make_cfg(dict(N=n, T=t, ThresholdMode="gtHalf", SplitHistory=False, OldResets=False, FaultMode="closed", OutFile="x"), invariants=["NotBothThreshold"]), wd, name="Cluster_%d_%d" % (n, t), timeout=900)
            require_ok(r, "Cluster(%d,%d)" % (n, t))
            info["states"] += r.distinct
            info["transitions"] += r.generated
    for m, nt in ((dict(ThresholdMode="geHalf"), (4, 2)), (dict(SplitHistory=True), (3, 2)), (dict(OldResets=True), (3, 2)),
                  (dict(FaultMode="readOpen"), (3, 2)), (dict(FaultMode="writeOpen"), (3, 2))):
        c = dict(N=nt[0], T=nt[1], ThresholdMode="gtHalf", SplitHistory=False, OldResets=False, FaultMode="closed", OutFile="x")
        c.update(m)
        rm = tlc("Cluster", make_cfg(c, invariants=["NotBothThreshold"]), wd, name="Cluster_mut")
        require_killed(rm, "Cluster mutant %s" % m, ["NotBothThreshold"])
        info["mutants"].append(dict(mutant=m, killed_by=[rm.violated]))
    # every N: the TLAPS proof of the shipped configuration's invariant (inductive invariant + counting lemma), not bounded by TLC's N <= 7
    proved, nobl, tail = tlaps(os.path.join(SPEC, "tlaps", "ClusterProof.tla"), wd)
    if not proved:
        raise Inconclusive("TLAPS proof ClusterProof.tla did not check: %s" % tail)
    info["model_runs"].append(dict(module="tlaps/ClusterProof", theorem="Spec => []NotBothThreshold for all N, T with 2T > N", obligations_proved=nobl))
    nts = [(3, 2), (4, 3)] if tier == "quick" else [(n, t) for n in range(2, 6) for t in range(1, n + 1) if 2 * t > n]
    scs, meta = [], {}
    variants = ["single", "batch1", "batch2", "batch2d"]     # batch2d: the duty is followed, in the same batch, by an entry that the rules refuse
    for n, t in nts:
        c = dict(N=n, T=t, ThresholdMode="gtHalf", SplitHistory=False, OldResets=False, FaultMode="closed", OutFile="routings.json")
        r = tlc("ClusterTable", make_cfg(c), wd, name="ClusterTable_%d_%d" % (n, t), workers=1)
        require_ok(r, "ClusterTable")
        routings = json.load(open(os.path.join(wd, "ClusterTable_%d_%d" % (n, t), "routings.json")))["routings"]
        routings = sorted(routings, key=lambda x: json.dumps(x))
        if tier == "quick":
            # every routing in which both duties could reach t if nothing stopped them, plus a sample of the rest
            hot = [x for x in routings if wants(x, "A") >= t and wants(x, "B") >= t]
            hot_fault = [x for x in hot if any(c in "abxy" for o in x for c in o)]
            hot = [x for x in hot if x not in hot_fault]
            hot_old = [x for x in hot if any("O" in o for o in x)]
            hot_plain = [x for x in hot if not any("O" in o for o in x)]
            routings = rnd.sample(hot_plain, min(len(hot_plain), 45)) + rnd.sample(hot_old, min(len(hot_old), 30)) + rnd.sample(hot_fault, min(len(hot_fault), 40)) + rnd.sample(routings, 15)
        elif len(routings) > 3000:
            hot = [x for x in routings if wants(x, "A") >= t and wants(x, "B") >= t]
            routings = rnd.sample(hot, min(len(hot), 2400)) + rnd.sample(routings, 600)
        # the first routing on the fresh cluster carries the genesis-epoch pair: make it one in which both duties could reach t
        first = [x for x in routings if sum(1 for o in x if "A" in o) >= t and sum(1 for o in x if "B" in o) >= t and not any(c in "abxy" for o in x for c in o)]
        if first:
            routings.remove(first[0])
            routings.insert(0, first[0])
        ids = list(range(1, n + 1))
        duties, conflicts = [], []
        for ri, routing in enumerate(routings):
            e = 10 * (ri + 1)
            ckind = "genesis" if ri == 0 else ("vote", "surround", "prop")[ri % 3]
            a, b = "r%d:A" % ri, "r%d:B" % ri
            conflicts.append((a, b))
            dold = dict(kind="att", s=0, t=0, root="O")        # the old duty: a genesis-epoch attestation, below everything on record
            if ckind == "genesis":
                da = dict(kind="att", s=0, t=0, root="A")
                db = dict(kind="att", s=0, t=0, root="B")
            elif ckind == "vote":
                da = dict(kind="att", s=e, t=e + 1, root="A")
                db = dict(kind="att", s=e, t=e + 1, root="B")
            elif ckind == "surround":
                da = dict(kind="att", s=e + 1, t=e + 2, root="A")
                db = dict(kind="att", s=e, t=e + 3, root="A")
            else:
                da = dict(kind="prop", slot=e + 1, root="A")
                db = dict(kind="prop", slot=e + 1, root="B")
            # request order across instances: seeded interleaving of the per-instance orders
            seqs = []
            for inst, order in zip(ids, routing):
                if order == "-":
                    continue
                seqs.append([(inst, ch) for ch in order if not (ch == "O" and ckind == "genesis")])
            flat = []
            while seqs:
                sq = rnd.choice(seqs)
                flat.append(sq.pop(0))
                if not sq:
                    seqs.remove(sq)
            if ri % 4 == 3:
                flat = flat + [(inst, ch) for inst, ch in flat]     # repeats
            for qi, (inst, ch) in enumerate(flat):
                dd = DUTY_OF.get(ch)
                base = dict(da if dd == "A" else (db if dd == "B" else dold))
                base.update(inst=inst, duty=a if dd == "A" else (b if dd == "B" else "r%d:O" % ri), variant=variants[(ri + qi + inst) % 4] if base["kind"] == "att" else "single",
                            by=("name", "key", "keypad", "key", "name", "keypad")[(ri + qi + (2 if dd == "B" else 0)) % 6], filler=1000 * (ri + 1) + 10 * qi + inst)
                if ch in FAULT_OF:
                    base["fault"] = FAULT_OF[ch]
                duties.append(base)
        sid = "C14-%d-%d" % (n, t)
        sc = dict(id=sid, ids=ids, n=n, t=t, initiator=ids[(n + t) % n], account="DW/c14", generate=True, probe=False, duties=duties)
        scs.append(sc)
        meta[sid] = dict(conflicts=conflicts, n=n, t=t, routings=len(routings))
    by = run_parallel(scs, wd, "c14", workers=len(scs))
    # the same routings on clusters of REAL dirk binaries (duties sent by client c1 over TLS to each process)
    bscs = []
    for sc_ in scs[:1 if tier == "quick" else 3]:
        keep = 30 if tier == "quick" else 400
        # (storage faults cannot be injected into the shipped program: routings with faults stay in-process)
        faulty = {d["duty"].split(":")[0] for d in sc_["duties"] if d.get("fault")}
        duties = [d for d in sc_["duties"] if int(d["duty"].split(":")[0][1:]) < keep and d["duty"].split(":")[0] not in faulty]
        bsc = dict(sc_, id=sc_["id"].replace("C14-", "C14-bin-"), account="DW/c14b", duties=duties)
        bscs.append(bsc)
        meta[bsc["id"]] = dict(meta[sc_["id"]], conflicts=[c_ for c_ in meta[sc_["id"]]["conflicts"] if int(c_[0].split(":")[0][1:]) < keep])
    with ThreadPoolExecutor(max_workers=max(1, len(bscs))) as ex:
        bouts = list(ex.map(lambda a: run_dkgdrv([a[1]], wd, "c14bin%d" % a[0], dirk=build_dirk()), enumerate(bscs)))
    for evs_, rc_, err_ in bouts:
        if rc_ != 0:
            raise Inconclusive("dkgdrv (duties) against dirk binaries exited %s: %s" % (rc_, err_[-400:]))
        by.update(split_scenarios(evs_))
    scs = scs + bscs
    lines, index = [], []
    npart, nvalid, nfault, nfired = 0, 0, 0, 0
    for sc in scs:
        evs = by.get(sc["id"])
        if evs is None:
            raise Inconclusive("scenario %s produced no events" % sc["id"])
        if not any(e["ev"] == "Outcome" and e["ok"] for e in evs):
            raise Inconclusive("key generation for %s failed: nothing to route duties to" % sc["id"])
        start = len(lines) + 1
        lines.append(dict(ev="Begin", sc=sc["id"], n=sc["n"], t=sc["t"]))
        for a, b in meta[sc["id"]]["conflicts"]:
            lines.append(dict(ev="Conflict", a=a, b=b))
        for e in evs:
            if e["ev"] == "Partial":
                npart += 1
                nvalid += bool(e["valid"])
                nfault += bool(e.get("fault"))
                nfired += bool(e.get("fault_fired"))
                lines.append(dict(ev="Partial", inst=e["inst"], duty=e["duty"], valid=bool(e["valid"])))
            elif e["ev"] == "DutyTotal":
                lines.append(dict(ev="DutyTotal", duty=e["duty"], partials=e["partials"], composite_valid=bool(e["composite_valid"])))
            elif e["ev"] == "End":
                lines.append(dict(ev="End"))
        index.append((start, len(lines), sc["id"]))
    if nvalid < 20:
        raise Inconclusive("only %d valid partial signatures were obtained: the check would be vacuous" % nvalid)
    ok, violated, pos, extra = validate("ClusterTrace", lines, ["NotBothThreshold"], wd)
    tr = extra if ok else extra[0]
    info["states"] += tr.distinct
    info["transitions"] += tr.generated
    if not ok:
        sid = locate(index, pos)
        sc = [s for s in scs if s["id"] == sid][0]
        m = re.search(r'"(r\d+):A"', extra[1])
        rname = m.group(1) if m else None
        seg = [ln for ln in [lines[a - 1:b] for a, b, s_ in index if s_ == sid][0] if rname is None or str(ln.get("duty", ln.get("a", ""))).startswith(rname + ":")]
        small = dict(sc, duties=[d for d in sc["duties"] if rname is None or d["duty"].startswith(rname + ":")])
        verdict.violation("both:n=%d,t=%d" % (sc["n"], sc["t"]),
                          "n=%d t=%d: two conflicting duties BOTH collected t valid partial signatures %s" % (sc["n"], sc["t"], extra[1]),
                          dict(scenario=small, trace=seg[:60], invariant=violated, module="ClusterTrace", conflicts=[[rname + ":A", rname + ":B"]] if rname else meta[sid]["conflicts"]))
    if nfault and nfired * 2 < nfault:
        raise Inconclusive("only %d of %d injected storage faults fired during the duty requests" % (nfired, nfault))
    return dict(scenarios=len(scs), nts=nts, routings={k: v["routings"] for k, v in meta.items()}, partial_requests=npart, valid_partials=nvalid,
                requests_under_storage_fault=nfault, storage_faults_fired=nfired,
                trace_events=len(lines), sample=lines[index[0][0] - 1:index[0][1]][:10])


def run(prop, tier, seed):
    t0 = time.time()
    wd = workdir(prop)
    info = dict(states=0, transitions=0, mutants=[], model_runs=[])
    verdict = Verdict(prop)
    try:
        if prop in ("C12", "C13"):
            model_phase(prop, tier, wd, info)
        if prop == "C12":
            res = run_c12(tier, seed, wd, info, verdict)
        elif prop == "C13":
            res = run_c13(tier, seed, wd, info, verdict)
        elif prop == "C16":
            res = run_c16(tier, seed, wd, info, verdict)
        elif prop == "C14":
            res = run_c14(tier, seed, wd, info, verdict)
        else:
            res = run_c17(tier, seed, wd, info, verdict)
        rc = verdict.finish()
        if prop == "C13":
            cov = dict(evaluations=res["evaluations"], distinct_nontrivial=res["distinct_nontrivial"],
                       rule="one generation on a fresh cluster per fault plan enumerated by TLC (DkgPlans: message type x sender x receiver x fault kind) and per "
                            "initiator; non-trivial = the driver reports that the planned fault was actually applied to a message; a fault-free control generation must succeed",
                       samples=res["sample"], states=info["states"], transitions=info["transitions"], traces_validated_against_impl=res["evaluations"],
                       model_runs=info["model_runs"], mutants=info["mutants"], exhaustive=True)
            level = "fault_enumeration"
        else:
            cov = dict(states=info["states"], transitions=info["transitions"], traces_validated_against_impl=res.get("scenarios", res.get("transitions_replayed", 0)),
                       samples=[dict(kind="recorded-trace", lines=res["sample"])], model_runs=info["model_runs"], mutants=info["mutants"],
                       detail={k: v for k, v in res.items() if k != "sample"}, exhaustive=(tier != "quick"))
            level = "model_checking"
        write_evidence(prop, tier, seed, level, cov, time.time() - t0, violations=len(verdict.violations),
                       assumptions=["herumi BLS (share / vector arithmetic, threshold recovery) is correct",
                                    "the harness network delivers messages through the real receiver handlers with the caller name the interceptor would set; TLS itself is C19's subject",
                                    "session expiry is exercised with a 1.5 s timeout and 1.8 s waits of real time"])
        return rc
    finally:
        cleanup(wd)


def replay(prop, path):
    obj = json.load(open(path))["replay"]
    if obj.get("api"):
        import apifamily
        return apifamily.replay(prop, path)
    wd = workdir(prop + "-replay")
    try:
        sc = obj["scenario"]
        if obj.get("bind") or obj.get("impostor"):
            evs, rc, err = run_dkgdrv([sc], wd, "replay", dirk=build_dirk() if obj.get("impostor") else None)
            if rc != 0:
                print(err[-400:])
                return 2
            ls = [dict(ev="Begin", sc=sc["id"])] + [dict(ev="Misdelivery", id=e["id"], name=e["name"], port=e["port"], reached=e["reached"], **{"from": e["from"]}) for e in evs if e["ev"] == "Misdelivery"]
            for ln in ls:
                print(json.dumps(ln))
            ok, violated, pos, extra = validate("SessionTrace", ls, ["PeersOnly"], wd)
            if ok:
                print("replay: run accepted")
                return 0
            print("VIOLATION property=%s replay=%s" % (prop, path))
            return 1
        if obj.get("conc"):
            # timing-dependent: the same concurrent generations are requested again, several times
            for attempt in range(6):
                evs, rc, err = run_dkgdrv([dict(sc, jitter_us=sc.get("jitter_us", 0) + attempt * 211)], wd, "replay%d" % attempt)
                outs = {e["g"]: e for e in evs if e["ev"] == "ConcOutcome"}
                crashed = [e["crashed"] for e in evs if e["ev"] == "End"][0] if any(e["ev"] == "End" for e in evs) else []
                lines = []
                for gi, g_ in enumerate(sc["conc_gens"]):
                    o = outs.get(gi)
                    if o is None:
                        continue
                    lines.append(dict(ev="Begin", sc="g%d" % gi, n=g_["n"], t=g_["t"], probe=False))
                    lines.append(clean(dict(ev="Outcome", ok=o["ok"], n=g_["n"], t=g_["t"], hung=bool(o["hung"]), message=o.get("message", ""), pubkey=o.get("pubkey", ""),
                                            participants=o.get("participants") or [], faults_hit=[])))
                    for e in evs:
                        if e["ev"] == "ConcHolds" and e["g"] == gi:
                            c_ = clean(dict(e, ev="Holds"))
                            c_.pop("g", None)
                            lines.append(c_)
                    lines.append(dict(ev="End", sc="g%d" % gi, crashed=crashed or []))
                ok, violated, pos, extra = validate("DkgTrace", lines, ["Agreement", "ThresholdRule"], wd, name="DkgTraceConcReplay%d" % attempt)
                if not ok:
                    for ln in lines:
                        print(json.dumps(ln)[:300])
                    print("VIOLATION property=%s replay=%s" % (prop, path))
                    return 1
            print("replay: 6 runs accepted")
            return 0
        if obj.get("storm"):
            # timing-dependent: the same storm is run again, several times
            for attempt in range(4):
                evs, rc, err = run_dkgdrv([sc], wd, "replay%d" % attempt)
                peers = {"signer-%d" % i for i in sc["ids"]}
                sl, dl = [dict(ev="Begin", sc=sc["id"])], [dict(ev="Begin", sc=sc["id"], n=sc["n"], t=sc["t"], probe=False)]
                for e in evs:
                    if e["ev"] == "ConcCall":
                        sl.append(dict(ev="ConcCall", caller=e["caller"], peer=e["caller"] in peers, msg=e["msg"], account=e["account"],
                                       result="ok" if e["result"] == "ok" else "refused", got_share=bool(e["got_share"])))
                    elif e["ev"] == "ContribReply":
                        dl.append(clean(e))
                    elif e["ev"] == "StormEnd" and e["crashed"]:
                        sl.append(dict(ev="ConcCall", caller="(instance crashed)", peer=False, msg="crash", account="", result="ok", got_share=False))
                for module, ls in (("SessionTrace", sl), ("DkgTrace", dl)):
                    ok, violated, pos, extra = validate(module, ls, ["PeersOnly"], wd, name=module + "Replay%d" % attempt)
                    if not ok:
                        print(json.dumps(ls[pos - 2] if pos and pos >= 2 else None))
                        print("VIOLATION property=%s replay=%s" % (prop, path))
                        return 1
            print("replay: 4 storms accepted")
            return 0
        evs, rc, err = run_dkgdrv([sc], wd, "replay", dirk=build_dirk() if "-bin-" in str(sc.get("id", "")) or sc.get("faulty_grpc") else None)
        lines = []
        if obj["module"] == "ClusterTrace":
            lines.append(dict(ev="Begin", sc=sc["id"], n=sc["n"], t=sc["t"]))
            for a, b in obj["conflicts"]:
                lines.append(dict(ev="Conflict", a=a, b=b))
            for e in evs:
                if e["ev"] == "Partial":
                    lines.append(dict(ev="Partial", inst=e["inst"], duty=e["duty"], valid=bool(e["valid"])))
                elif e["ev"] == "DutyTotal":
                    lines.append(dict(ev="DutyTotal", duty=e["duty"], partials=e["partials"], composite_valid=bool(e["composite_valid"])))
                elif e["ev"] == "End":
                    lines.append(dict(ev="End"))
            inv = ["NotBothThreshold"]
        elif obj["module"] == "SessionTrace" and sc.get("storm_ms"):
            lines.append(dict(ev="Begin", sc=sc["id"]))
            for e in evs:
                if e["ev"] == "ConcPrepare":
                    lines.append(dict(ev="ConcPrepare", account=e["account"], accepted=e["accepted"], of=e["of"]))
            inv = ["Lifecycle"]
        elif obj["module"] == "SessionTrace":
            project_calls(sc["id"], sc, evs, lines, {"signer-1", "signer-2", "signer-3"})
            inv = ["Lifecycle", "PeersOnly"]
        else:
            project_gen(sc["id"], sc, evs, lines, MUSTFAIL_MSG | {"share-replaced", "share-swapped", "share-otherid", "vvec-alter", "vvec-short", "vvec-empty", "vvec-double", "vvec-long-key", "vvec-long-identity", "vvec-long-poly", "vvec-short-poly"})
            inv = ["Agreement", "ThresholdRule", "FaultNoAccount", "PeersOnly", "NoCrash"]
        for ln in lines:
            print(json.dumps(ln)[:400])
        ok, violated, pos, extra = validate(obj["module"], lines, inv, wd)
        if ok:
            print("replay: run accepted")
            return 0
        print("VIOLATION property=%s replay=%s" % (prop, path))
        print("  ", violated, extra[1])
        return 1
    finally:
        cleanup(wd)

"""Interchange family: C10 (import never weakens protection) and C11 (export faithful; survives restart / upgrade).

Model side : Interchange.tla - every prior record x every file (repeated entries, fields newer in one dimension and
             older in another, wrong version / genesis root / malformed number): ImportCovers, NeverLowers,
             RejectedChangesNothing, ExportRoundTrip; mutants MergeMode in {allOrNothing, overwrite}, DupKeys=lastWins.
Code side  : the REAL BINARY `dirk --import-slashing-protection / --export-slashing-protection` on a database directory
             populated through the real storage code; afterwards the real signing stack is opened on the directory
             and probed with requests at and around every number of the file and of the prior state.
Verdict    : SeqTrace on the recorded run: AboveFloor (nothing at or below a floor is signed), DbPairsHold (records
             never lowered / unchanged after a rejected import), RejectOK, ExportFaithful, SamePairsHold."""
import json, os, random, re, shutil, subprocess, time
from concurrent.futures import ThreadPoolExecutor
from vlib import *
import seqfamily

GVR = "0x" + "11" * 32
GVR2 = "0x" + "22" * 32
NV = 3  # abstract values 0..NV-1 appear in files; probes go one above


def iconsts(V, me, mm="max", dk="merge", wer=True):
    c = dict(seqfamily.BASE)
    c.update(MaxI=3, V=set(V), MaxEntries=me, MergeMode=mm, DupKeys=dk, WriteErrorReported=wer)
    return c


def case_from_trace(trace):
    last = trace["counterexample"]["state"][-1][1]
    return dict(before=last["before"], file=last["file"], meta=last["meta"], phase=last["phase"], after=last["db"])


def model_phase(prop, tier, wd, info):
    inv = ["ImportCovers", "NeverLowers", "RejectedChangesNothing", "ExportRoundTrip"]
    V, me = ([0, 1, 2], 2) if tier == "quick" else ([0, 1, 2], 3)
    r = tlc("Interchange", make_cfg(iconsts(V, me), invariants=inv), wd, name="Interchange", timeout=1500)
    require_ok(r, "Interchange")
    info["states"] += r.distinct
    info["transitions"] += r.generated
    info["model_runs"].append(dict(module="Interchange", V=V, MaxEntries=me, invariants=inv, distinct=r.distinct, generated=r.generated, wall_s=round(r.wall, 1)))
    cases = []
    for mm, dk in (("allOrNothing", "merge"), ("overwrite", "merge"), ("max", "lastWins")):
        killed = []
        for i in ("ImportCovers", "NeverLowers"):
            rm = tlc("Interchange", make_cfg(iconsts([0, 1, 2], 2, mm, dk), invariants=[i]), wd, name="mut_%s_%s_%s" % (mm, dk, i), timeout=600)
            if rm.error:
                raise Inconclusive("mutant run failed: %s" % rm.error)
            if rm.violated:
                killed.append(rm.violated)
                c = case_from_trace(rm.trace)
                c["origin"] = "mutant MergeMode=%s DupKeys=%s violating %s" % (mm, dk, i)
                c["after"] = None
                cases.append(c)
        if not killed:
            raise Inconclusive("design mutant MergeMode=%s DupKeys=%s survives" % (mm, dk))
        info["mutants"].append(dict(mutant="MergeMode=%s,DupKeys=%s" % (mm, dk), killed_by=killed))
    # a record write that fails during the import (the file names a key the store refuses) is swallowed and success reported
    rm = tlc("Interchange", make_cfg(iconsts([0, 1, 2], 2, wer=False), invariants=["ImportCovers"]), wd, name="mut_WriteErrorSwallowed", timeout=600)
    require_killed(rm, "WriteErrorReported=FALSE", ["ImportCovers"])
    info["mutants"].append(dict(mutant="WriteErrorReported=FALSE", killed_by=[rm.violated]))
    c = case_from_trace(rm.trace)
    c["origin"] = "mutant WriteErrorReported=FALSE violating ImportCovers"
    c["after"] = None
    cases.append(c)
    return cases


DIFF_DESIGNS = ["shipped", "allOrNothing/merge", "overwrite/merge", "max/lastWins", "max/lastWinsIfExisting"]


def diff_cases(tier, seed, wd, info):
    """InterchangeDiff.tla: per design mutant, ALL (record before, file) inputs on which that design would leave something at or
    below the data signable or lower a record; the shipped design has none.  One TLC run per design, in parallel; a seeded
    sample of each set is replayed."""
    def one(d):
        c = iconsts([0, 1, 2], 2)
        c.update(OutFile="diff.json", Only=d)
        name = "InterchangeDiff_" + d.replace("/", "_")
        r = tlc("InterchangeDiff", make_cfg(c, spec="DSpec"), wd, name=name, workers=1, timeout=1500)
        require_ok(r, "InterchangeDiff(%s)" % d)
        return d, json.load(open(os.path.join(wd, name, "diff.json")))["cases"]
    with ThreadPoolExecutor(max_workers=len(DIFF_DESIGNS)) as ex:
        res = dict(ex.map(one, DIFF_DESIGNS))
    per = 40 if tier == "quick" else 600
    out, counts = [], {}
    for d in DIFF_DESIGNS[1:]:
        counts[d] = len(res[d])
        for c in stable_sample(res[d], per, seed):
            out.append(dict(before=c["before"], file=c["file"], meta="ok", phase="imported", after=None, origin="input on which the design %s fails (InterchangeDiff)" % d))
    info["model_runs"].append(dict(module="InterchangeDiff", V=[0, 1, 2], MaxEntries=2, shipped_design_exposed_inputs=len(res["shipped"]), mutant_exposed_inputs=counts, replayed_per_design=per))
    return out


def gen_cases(n, seed, wd):
    workers = min(NCPU, 8)
    r = tlc("InterchangeSim", make_cfg(iconsts([0, 1, 2], 3), spec="SimSpec"), wd, name="InterchangeSim", workers=workers,
            simulate="num=1", depth=max(60, int(n * 6 / workers)), seed=seed, timeout=600)
    if r.error:
        raise Inconclusive("InterchangeSim failed: %s" % r.error)
    out = []
    for line in r.out.splitlines():
        m = re.match(r'<<"CASE", "(.*)">>$', line)
        if m:
            out.append(json.loads(m.group(1).replace('\\"', '"')))
    if not out:
        raise Inconclusive("InterchangeSim produced no cases")
    return stable_sample(out, n, seed)


def run_dirk(args, storage, wd, timeout=60):
    exe = build_dirk()
    base = os.path.join(wd, "emptybase")
    os.makedirs(base, exist_ok=True)
    env = dict(os.environ, DIRK_SERVER_NAME="verif", DIRK_STORAGE_PATH=storage)
    p = subprocess.run([exe, "--base-dir", base] + args, cwd=wd, env=env, stdout=subprocess.PIPE, stderr=subprocess.PIPE, text=True, timeout=timeout)
    return p.returncode, p.stdout, p.stderr


def priors_for(k, rec, idx, v1=False):
    out = []
    fmt = "gob" if idx % 3 == 0 and not v1 else "v1"
    if rec["s"] != -1:
        out.append(dict(k=k, kind="att", s=rec["s"], t=rec["t"], fmt=fmt))
    if rec["ps"] != -1:
        out.append(dict(k=k, kind="prop", slot=rec["ps"], fmt=fmt))
    return out


def probes_for(k, hi, tag):
    ops = []
    # lowest slot first: every probe at or below the floor meets the record as the import (or the prior history) left it - a probe
    # that is signed raises the floor and would hide what the ones below it would have met; then the same slots downwards, other block
    for slot in range(0, hi + 1):
        ops.append(dict(id="%sp%d" % (tag, slot), kind="prop", ents=[dict(k=k, slot=slot, root="P")]))
    for slot in range(hi, -1, -1):
        ops.append(dict(id="%sr%d" % (tag, slot), kind="prop", ents=[dict(k=k, slot=slot, root="Q")]))
    n = 0
    for t in range(0, hi + 1):
        for s in range(0, hi + 1):
            if t > s or (s == 0 and t == 0):
                ops.append(dict(id="%sa%d" % (tag, n), kind="att", ents=[dict(k=k, s=s, t=t, root="P")], by="key" if n % 2 else "name"))
                n += 1
    return ops


def one_case(job):
    idx, case, conc, pubs, wd = job
    jd = os.path.join(wd, "case%d" % idx)
    os.makedirs(jd, exist_ok=True)
    db = os.path.join(jd, "db")
    sid = "C10-%d" % idx
    big = bool(case.get("big"))
    nk = 70 if big else 2
    world = dict(nkeys=nk)
    k1prior = dict(s=1, t=2, ps=1)
    extra = []
    for j in range(2, nk):     # a well-filled database: many more keys, each with an attestation and a proposal record of its own
        extra += priors_for(j, dict(s=j % 3, t=j % 3 + 1, ps=(j * 7) % 4), j, True)    # current record format throughout, as Dirk itself writes
    scA = dict(id=sid, world=world, conc=conc, dir=db, keep_dir=True, prior=priors_for(0, case["before"], idx, big) + priors_for(1, k1prior, idx + 1, big) + extra,
               ops=[dict(id="before", kind="export")], no_export=True, raw_dump=True)
    pre, rc, err = run_driver([scA], jd, tag="pre", timeout=120)
    if rc != 0:
        return dict(error="pre driver rc=%s %s" % (rc, err[-200:]))
    # the interchange file
    # EIP-3076 numbers are decimal strings; a case marked "pad" writes some of them with a leading zero ("010" is ten), over a value table
    # (0, 8, 10, 12) chosen so that another reading of the same string (octal: eight) is a value of the table too and shows as a lowered record
    num = (lambda v: "0" + conc[v] if v in (0, 2) else conc[v]) if case.get("pad") else (lambda v: conc[v])
    ents0 = case["file"]
    data = []
    if idx % 2 == 0:   # repeated entries for the key
        for e in ents0:
            d = dict(pubkey="0x" + pubs[0])
            if e["att"]["s"] != -1:
                d["signed_attestations"] = [dict(source_epoch=num(e["att"]["s"]), target_epoch=num(e["att"]["t"]))]
            if e["slot"] != -1:
                d["signed_blocks"] = [dict(slot=num(e["slot"]))]
            data.append(d)
    else:              # one entry with several attestations / blocks
        d = dict(pubkey="0x" + pubs[0], signed_attestations=[], signed_blocks=[])
        for e in ents0:
            if e["att"]["s"] != -1:
                d["signed_attestations"].append(dict(source_epoch=num(e["att"]["s"]), target_epoch=num(e["att"]["t"])))
            if e["slot"] != -1:
                d["signed_blocks"].append(dict(slot=num(e["slot"])))
        data.append(d)
    data.insert(idx % (len(data) + 1), dict(pubkey="0x" + pubs[1], signed_attestations=[dict(source_epoch=num(0), target_epoch=num(1))],
                                           signed_blocks=[dict(slot=num(0))]))
    for j in range(2, nk):     # the file mentions every key of the big database with old (low) data
        data.append(dict(pubkey="0x" + pubs[j], signed_attestations=[dict(source_epoch=num(0), target_epoch=num(0))], signed_blocks=[dict(slot=num(0))]))
    if case["meta"] == "unstorable":
        # keys that the store refuses to write (their bytes begin with the storage engine's reserved prefix), placed between the
        # others; and a dozen further validators, so that the place where the write loop stops varies
        bad = "!badger!".encode().hex()
        for j in range(12):
            data.insert((idx + 3 * j) % (len(data) + 1), dict(pubkey="0x%s%080x" % ("a1" * 8, j + 1), signed_attestations=[dict(source_epoch=num(0), target_epoch=num(1))], signed_blocks=[dict(slot=num(1))]))
        for j in range(3):
            data.insert((idx + 5 * j) % (len(data) + 1), dict(pubkey="0x%s%080x" % (bad, 7 * j + idx), signed_attestations=[dict(source_epoch=num(0), target_epoch=num(1))], signed_blocks=[dict(slot=num(0))]))
    meta = dict(interchange_format_version="5", genesis_validators_root=GVR)
    bad_detail = None
    if case["meta"] == "badversion":
        meta["interchange_format_version"] = ("4", "6", "", "05")[idx % 4]
    elif case["meta"] == "badroot":
        meta["genesis_validators_root"] = (GVR2, GVR.upper().replace("0X", "0x") + "00", "")[idx % 3]
    elif case["meta"] == "badnumber":
        bad_detail = ("abc", "-5", "1e3", "", "18446744073709551616", "9223372036854775808")[idx % 6]
        tgt = data[-1] if data[-1].get("signed_blocks") else data[0]
        if tgt.get("signed_blocks"):
            tgt["signed_blocks"][0]["slot"] = bad_detail
        elif tgt.get("signed_attestations"):
            tgt["signed_attestations"][0]["source_epoch"] = bad_detail
        else:
            tgt["signed_blocks"] = [dict(slot=bad_detail)]
    # FILE FORM classes (same meaning, different spelling - hex.DecodeString / encoding/json accept them all): the key of a repeated
    # entry in upper case or without its 0x prefix, signing roots and unknown extra fields, pretty-printed JSON
    form = ("plain", "upperkey", "noprefix", "extras", "pretty")[(idx // 2) % 5]
    seen_k0 = 0
    for d in data:
        if d["pubkey"] == "0x" + pubs[0]:
            seen_k0 += 1
            if form == "upperkey" and (seen_k0 % 2 == 0 or len(ents0) == 1 or idx % 2):
                d["pubkey"] = "0x" + pubs[0].upper()
            elif form == "noprefix" and (seen_k0 % 2 == 0 or len(ents0) == 1 or idx % 2):
                d["pubkey"] = pubs[0]
        if form == "extras":
            d["note"] = dict(a=[1, "2", None])
            for j, x in enumerate(d.get("signed_attestations") or []):
                x["signing_root"] = "0x%064x" % (j + 1)
            for j, x in enumerate(d.get("signed_blocks") or []):
                if j % 2 == 0:
                    x["signing_root"] = "0x%064x" % (j + 7)
    if form == "extras":
        meta["producer"] = "verif"
    f = os.path.join(jd, "file.json")
    json.dump(dict(metadata=meta, data=data), open(f, "w"), indent=2 if form == "pretty" else None)
    irc, out, errtxt = run_dirk(["--import-slashing-protection", "--genesis-validators-root=" + GVR, "--slashing-protection-file=" + f], db, jd)
    scB = dict(id=sid, world=world, conc=conc, dir=db, keep_dir=False, raw_dump=True,
               ops=[dict(id="after", kind="export")] + probes_for(0, NV, "x") + probes_for(1, NV, "y"))
    post, rc2, err2 = run_driver([scB], jd, tag="post", timeout=120)
    shutil.rmtree(jd, ignore_errors=True)
    if rc2 != 0:
        return dict(error="post driver rc=%s %s" % (rc2, err2[-200:]))
    return dict(idx=idx, sid=sid, case=case, pre=pre, post=post, rc=irc, stderr=errtxt[-200:], file=dict(metadata=meta, data=data), bad_detail=bad_detail,
                scenarios=[scA, scB])


def db_of(ev):
    return {k: dict(s=v["as"], t=v["at"], ps=v["ps"]) for k, v in ev["db"].items()}


def project_case(r, lines):
    case = r["case"]
    lines.append(dict(ev="Begin", sc=r["sid"]))
    # the database before and after the import, read through badger directly (no code of the repository involved)
    before = [e for e in r["pre"] if e["ev"] == "RawDump" and e["r"] == "raw-after"][0]
    after = [e for e in r["post"] if e["ev"] == "RawDump" and e["r"] == "raw-before"][0]
    b = case["before"]
    lines.append(dict(ev="Floor", k="k0", s=b["s"], t=b["t"], slot=b["ps"]))
    lines.append(dict(ev="Floor", k="k1", s=1, t=2, slot=1))
    success = r["rc"] == 0
    if success and case["meta"] in ("ok", "badnumber", "unstorable"):
        for e in case["file"]:
            lines.append(dict(ev="Floor", k="k0", s=e["att"]["s"], t=e["att"]["t"], slot=e["slot"]))
    lines.append(dict(ev="Rc", rc=r["rc"], must_reject=case["meta"] in ("badversion", "badroot")))
    # (an import that stops at a key the store refuses has written the keys before it: never lowered, but not unchanged)
    lines.append(dict(ev="DbPair", before=db_of(before), after=db_of(after), must="ge" if success or case["meta"] == "unstorable" else "eq"))
    for ev in r["post"]:
        e = ev["ev"]
        if e == "Invoke":
            lines.append(dict(ev="Invoke", r=ev["r"], kind=ev["kind"], wf=False,
                              ents=[dict(k=x["k"], s=x["s"], t=x["t"], slot=x["slot"], root=x["root"], dom=x["dom"]) for x in ev["ents"]]))
        elif e == "Release":
            lines.append(dict(ev="Release", r=ev["r"], i=ev["i"], pos=ev.get("pos", ev["i"]), k=ev["k"], kind=ev["kind"], s=ev["s"], t=ev["t"], slot=ev["slot"],
                              root=ev["root"], dom=ev["dom"], ip="none"))
        elif e == "Respond":
            lines.append(dict(ev="Respond", r=ev["r"], res=ev["res"], sig=ev["sig"]))


def run_c10(tier, seed):
    prop = "C10"
    t0 = time.time()
    wd = workdir(prop)
    info = dict(states=0, transitions=0, mutants=[], model_runs=[])
    verdict = Verdict(prop)
    try:
        cases = model_phase(prop, tier, wd, info)
        cases += gen_cases(90 if tier == "quick" else 2500, seed, wd)
        cases += diff_cases(tier, seed, wd, info)
        exe = build_harness("dirkdrv")
        build_dirk()
        pubs = json.loads(subprocess.run([exe, "-pubkeys", "70"], stdout=subprocess.PIPE, text=True).stdout)
        concs = [c for c in concretisations(3, seed, 0)]
        # a few cases on a database with more than a hundred records (140): per-record handling must not depend on the record count
        # (key k0 holds both kinds of record there, like every other key, and the file's data for it is older than its own history)
        def older(c):
            b = c["before"]
            return b["s"] >= 0 and b["t"] >= 0 and b["ps"] >= 0 and any(e["slot"] < b["ps"] or e["att"]["t"] < b["t"] for e in c["file"])
        bigcases = [dict(c, big=True) for c in cases if c["meta"] == "ok" and older(c)][:4 if tier == "quick" else 24]
        cases = cases + bigcases
        concs.append(("padded-decimal", ["0", "8", "10", "12"] + concs[0][1][4:]))
        jobs = []
        for i, c in enumerate(cases):
            cname, conc = concs[i % len(concs)]
            if cname == "padded-decimal":
                c = dict(c, pad=True)
            jobs.append((i, c, conc, pubs, wd))
        with ThreadPoolExecutor(max_workers=NCPU) as ex:
            results = list(ex.map(one_case, jobs))
        errs = [r for r in results if "error" in r]
        if errs:
            raise Inconclusive("%d interchange replays failed, e.g. %s" % (len(errs), errs[0]["error"]))
        lines, index, drift = [], [], []
        nsucc = 0
        for r in results:
            start = len(lines) + 1
            project_case(r, lines)
            index.append((start, len(lines), r["sid"]))
            nsucc += r["rc"] == 0
            model_ok = r["case"]["phase"] == "imported"
            # (a case that is the counterexample of a BROKEN design carries that design's outcome, not the shipped design's: no comparison)
            if (r["rc"] == 0) != model_ok and r["case"]["meta"] != "badnumber" and "mutant" not in str(r["case"].get("origin", "")) and len(drift) < 20:
                drift.append(dict(case=r["case"], rc=r["rc"], stderr=r["stderr"]))
            if r["rc"] == 0 and r["case"].get("after") and r["case"]["meta"] == "ok":
                after = [e for e in r["post"] if e["ev"] == "RawDump" and e["r"] == "raw-before"][0]["db"].get("k0", {"as": -1, "at": -1, "ps": -1})
                want = r["case"]["after"]
                if (after["as"], after["at"], after["ps"]) != (want["s"], want["t"], want["ps"]) and len(drift) < 20:
                    drift.append(dict(case=r["case"], got=after))
        ok, violated, pos, tr = seqfamily.validate(lines, ["AboveFloor", "DbPairsHold", "RejectOK"], 3, wd)
        info["states"] += tr.distinct
        info["transitions"] += tr.generated
        if not ok:
            if violated == "trace-not-accepted":
                raise Inconclusive("SeqTrace could not consume line %s" % pos)
            sid = seqfamily.locate(index, pos)
            rr = [r for r in results if r["sid"] == sid][0]
            seg = [lines[a - 1:b] for a, b, s in index if s == sid][0]
            verdict.violation("%s:%s" % (violated, json.dumps(rr["case"], sort_keys=True)[:300]),
                              "import of %s over prior %s (exit %s): real run rejected by SeqTrace invariant %s" %
                              (json.dumps(rr["file"])[:300], rr["case"]["before"], rr["rc"], violated),
                              dict(case=rr["case"], idx=rr["idx"], conc=rr["scenarios"][0]["conc"], file=rr["file"], rc=rr["rc"], scenarios=rr["scenarios"], trace=seg[:80], invariant=violated))
        rc = verdict.finish()
        cov = dict(states=info["states"], transitions=info["transitions"], traces_validated_against_impl=len(results),
                   samples=[dict(case=results[0]["case"], file=results[0]["file"], exit_code=results[0]["rc"]),
                            dict(kind="mutant-case", case=cases[0])],
                   model_runs=info["model_runs"], mutants=info["mutants"], imports_reporting_success=nsucc, drift=drift[:10], drift_count=len(drift),
                   trace_events_validated=len(lines), exhaustive=False,
                   checker_cmd="tlc Interchange / InterchangeSim / SeqTrace; real binary dirk --import-slashing-protection")
        write_evidence(prop, tier, seed, "model_checking", cov, time.time() - t0, violations=len(verdict.violations),
                       assumptions=["the binary is configured through DIRK_SERVER_NAME / DIRK_STORAGE_PATH / --base-dir as in production",
                                    "one key under test per case (per-key independence of the import), a second key rides along in every file"])
        if drift:
            print("DRIFT: %d import outcome(s) differ from Interchange.tla; first: %s" % (len(drift), drift[0]))
        return rc
    finally:
        cleanup(wd)


# ------------------------------------------------------------------------------------------ C11
def one_c11(job):
    idx, hists, conc, inv, pubs, wd = job[:6]
    big = len(job) > 6 and job[6]
    jd = os.path.join(wd, "c11_%d" % idx)
    os.makedirs(jd, exist_ok=True)
    db, db2 = os.path.join(jd, "db"), os.path.join(jd, "db2")
    sid = "C11-%d" % idx
    world = dict(nkeys=len(hists) + 5)
    ops = []
    if big:
        # a well-filled database: every key first signs a genesis attestation and a proposal, so each holds both kinds of record
        for k in range(len(hists)):
            ops.append(dict(id="k%dg" % k, kind="att", ents=[dict(k=k, s=0, t=0, root="G")]))
            ops.append(dict(id="k%dp" % k, kind="prop", ents=[dict(k=k, slot=0, root="G")]))
    nsteps = max(len(h) for h in hists)
    # every third case sends the attestations of one step - one per key, approvable and refusable ones side by side - as ONE batch
    batched = idx % 3 == 1 and not big
    for i in range(nsteps):
        group = []
        for k, h in enumerate(hists):
            if i >= len(h):
                continue
            st = h[i]
            if st["op"] == "att" and batched:
                group.append(dict(k=k, s=st["s"], t=st["t"], root=st["root"], by=st.get("by", "name")))
            elif st["op"] == "att":
                ops.append(dict(id="k%ds%d" % (k, i), kind="att", by=st.get("by", "name"), ents=[dict(k=k, s=st["s"], t=st["t"], root=st["root"])]))
            elif st["op"] == "prop":
                ops.append(dict(id="k%ds%d" % (k, i), kind="prop", by=st.get("by", "name"), ents=[dict(k=k, slot=st["slot"], root=st["root"])]))
        if len(group) == 1:
            ops.append(dict(id="b%d" % i, kind="att", by=group[0]["by"], ents=group))
        elif group:
            ops.append(dict(id="b%d" % i, kind="atts", ents=group))
    if batched:
        # a last batch of entries the rules must refuse for ONE reason while the other comparison would pass (source below the record with
        # a target above it - a surrounding vote; target not above the record with a higher source), one per key, next to approvable ones:
        # whatever a refused entry leaves behind would be exported
        group = []
        for k, h in enumerate(hists):
            dbs = [st["db"] for st in h if "db" in st]
            hs, ht = (dbs[-1]["s"], dbs[-1]["t"]) if dbs else (-1, -1)
            if hs >= 1 and ht >= 0 and len(conc) >= 16:
                group.append(dict(k=k, s=hs - 1, t=ht + 1, root="X", by="name"))
            elif hs >= 0 and hs + 1 <= ht:
                group.append(dict(k=k, s=hs + 1, t=ht, root="X", by="name"))
            elif hs < 0:
                group.append(dict(k=k, s=0, t=1, root="X", by="name"))
        # ... next to NEWCOMERS: keys this instance has never seen, each with an entry that is refused for what it is (target below source).
        # Such a key signs nothing, ever; what the batch leaves behind for it must not disturb what is exported for the others
        for nk_ in range(3):
            group.insert((idx + 2 * nk_) % (len(group) + 1), dict(k=len(hists) + 2 + nk_, s=2, t=1, root="N", by=("name", "key")[nk_ % 2]))
        if len(group) >= 2:
            ops.append(dict(id="bx", kind="atts", ents=group))
    # two more keys whose only records are in the OLDER on-disk format (gob), with values that include zero
    x1, x2 = len(hists), len(hists) + 1
    legacy = [dict(k=x1, s=0, t=1 + idx % 3, slot=idx % 4), dict(k=x2, s=idx % 3, t=3, slot=0)]
    prior = []
    for lg in legacy:
        prior.append(dict(k=lg["k"], kind="att", s=lg["s"], t=lg["t"], fmt="gob"))
        prior.append(dict(k=lg["k"], kind="prop", slot=lg["slot"], fmt="gob"))
    scA = dict(id=sid, world=world, conc=conc, dir=db, keep_dir=True, ops=ops, prior=prior)
    pre, rc, err = run_driver([scA], jd, tag="pre", timeout=120)
    if rc != 0:
        return dict(error="pre driver rc=%s %s" % (rc, err[-200:]))
    f = os.path.join(jd, "export.json")
    erc, out, errtxt = run_dirk(["--export-slashing-protection", "--genesis-validators-root=" + GVR, "--slashing-protection-file=" + f], db, jd)
    if erc != 0:
        return dict(error="export exit %s: %s" % (erc, errtxt[-200:]))
    exported = json.load(open(f))
    irc, out, errtxt = run_dirk(["--import-slashing-protection", "--genesis-validators-root=" + GVR, "--slashing-protection-file=" + f], db2, jd)
    if irc != 0:
        return dict(error="import of own export failed (exit %s): %s" % (irc, errtxt[-200:]))
    probes = []
    for k in range(len(hists) + 2):
        probes += probes_for(k, 4, "q%d" % k)
    res = []
    for d in (db, db2):
        sc = dict(id=sid, world=world, conc=conc, dir=d, keep_dir=False, ops=probes, no_export=True)
        evs, rcx, errx = run_driver([sc], jd, tag="probe", timeout=120)
        if rcx != 0:
            return dict(error="probe driver rc=%s %s" % (rcx, errx[-200:]))
        res.append(evs)
    shutil.rmtree(jd, ignore_errors=True)
    return dict(idx=idx, sid=sid, pre=pre, exported=exported, probes_a=res[0], probes_b=res[1], scenario=scA, hists=hists, legacy=legacy)


def run_c11(tier, seed):
    prop = "C11"
    t0 = time.time()
    wd = workdir(prop)
    info = dict(states=0, transitions=0, mutants=[], model_runs=[])
    verdict = Verdict(prop)
    try:
        model_phase(prop, tier, wd, info)
        # histories of well-formed requests from the sequential model (TLC simulation)
        hists = seqfamily.gen_histories(3, {"att", "prop"}, 80 if tier == "quick" else 800, 8, seed, wd)
        hists = [[st for st in h if st["op"] in ("att", "prop") and st["dom"] in ("att", "prop")] for h in hists]
        exe = build_harness("dirkdrv")
        build_dirk()
        pubs = json.loads(subprocess.run([exe, "-pubkeys", "66"], stdout=subprocess.PIPE, text=True).stdout)
        concs = concretisations(3, seed, 0)
        jobs = []
        concs7 = concretisations(7, seed, 0)    # (the batched cases - one_c11 - end with values one above the histories' domain)
        for i in range(0, len(hists) - 3, 4):
            cname, conc = (concs7 if (i // 4) % 3 == 1 else concs)[(i // 4) % len(concs)]
            inv = {int(v): a for a, v in enumerate(conc)}
            jobs.append((i // 4, hists[i:i + 4], conc, inv, pubs, wd))
        # databases with more than a hundred records (62 keys with both kinds of record + 2 legacy keys): what is exported must not depend on the record count
        for bi in range(1 if tier == "quick" else 6):
            cname, conc = concs[bi % len(concs)]
            inv = {int(v): a for a, v in enumerate(conc)}
            hs = [hists[(bi * 62 + j) % len(hists)] for j in range(62)]
            jobs.append((9000 + bi, hs, conc, inv, pubs, wd, True))
        with ThreadPoolExecutor(max_workers=NCPU) as ex:
            results = list(ex.map(one_c11, jobs))
        errs = [r for r in results if "error" in r]
        if errs:
            raise Inconclusive("%d export/import replays failed, e.g. %s" % (len(errs), errs[0]["error"]))
        lines, index = [], []
        nkeys_signed = 0
        for r, job in zip(results, jobs):
            inv = job[3]
            start = len(lines) + 1
            nkeys_signed += project_c11(r, inv, pubs, lines)
            index.append((start, len(lines), r["sid"]))
        # records in the older (gob) on-disk format of every value must be honoured: replay the transition table
        # with all prior records written in that format; nothing at or below such a record may be signed
        table = seqfamily.gen_table(3, wd, pairs=False)
        rnd = random.Random(seed)
        lb = seqfamily.Builder("C11legacy", concs[0][0], concs[0][1], 3)
        rows = [r_ for r_ in table["att"] if r_["dom"] == "att" and not (r_["ps"] == -1 and r_["pt"] == -1)]
        for row in (rnd.sample(rows, 400) if tier == "quick" else rows):
            lb.add_history(dict(kind="att", s=row["ps"], t=row["pt"], fmt="gob"), [dict(op="att", s=row["s"], t=row["t"], dom="att", v=row["v"])],
                           (row["ns"], row["nt"], None), batchable=True)
        for row in table["prop"]:
            if row["dom"] == "prop" and row["pp"] != -1:
                lb.add_history(dict(kind="prop", slot=row["pp"], fmt="gob"), [dict(op="prop", slot=row["slot"], dom="prop", v=row["v"])], (None, None, row["np"]))
        lb.flush()
        levents, lrc, lerr = run_driver(lb.scenarios, wd, tag="legacy", timeout=900)
        if lrc != 0:
            raise Inconclusive("legacy-format replay failed: %s %s" % (lrc, lerr[-300:]))
        ldrift = []
        lby = split_scenarios(levents)
        seqfamily.compare(lb, lby, ldrift)
        legacy_scn = {sc["id"]: sc for sc in lb.scenarios}
        seqfamily.project(lb, lby, lines, index)
        # "all histories ... over any keys": the requests of DIFFERENT keys overlap in time (nothing orders them - each key has its own
        # lock).  Rounds of requests for sixteen keys released at the same moment, neighbours carrying different values, under 1 / 2 / 4 /
        # 16 processors; what is exported afterwards must state, for every key, the highest values signed FOR THAT KEY
        burst_scs = []
        for bi in range(8 if tier == "quick" else 48):
            kind_ = ("prop", "att")[bi % 2]
            ops_ = []
            for rd_ in range(2):
                grp = []
                for k_ in range(16):
                    v_ = (k_ % 2) + 2 * rd_                      # even keys 0 then 2, odd keys 1 then 3
                    ent_ = dict(k=k_, slot=v_, root="B") if kind_ == "prop" else dict(k=k_, s=max(v_ - 1, 0), t=v_ if v_ else 0, root="B")
                    if kind_ == "att" and v_ == 1:
                        ent_ = dict(k=k_, s=0, t=1, root="B")
                    grp.append(dict(id="u%dr%dk%d" % (bi, rd_, k_), kind=kind_, ents=[ent_], by=("name", "key")[k_ % 2]))
                ops_.append(dict(id="round%d" % rd_, kind="par", gate=False, ops=grp))
            ops_.append(dict(id="ex", kind="export"))
            burst_scs.append(dict(id="C11-burst-%d" % bi, world=dict(nkeys=16), conc=concs[0][1], ops=ops_, gomaxprocs=(1, 2, 4, 16)[(bi // 2) % 4], no_export=True))
        bev_, brc_, berr_ = run_driver(burst_scs, wd, tag="burst", timeout=900)
        if brc_ != 0:
            raise Inconclusive("overlapping requests of different keys: driver exited %s: %s" % (brc_, berr_[-300:]))
        bby_ = split_scenarios(bev_)
        burst_scn = {}
        for sc_ in burst_scs:
            evs_ = bby_.get(sc_["id"])
            if not evs_ or not any(e["ev"] == "Export" for e in evs_):
                raise Inconclusive("overlapping requests of different keys: %s produced no export" % sc_["id"])
            start = len(lines) + 1
            seqfamily.project_one(sc_["id"], {}, [], [e for e in evs_ if e["ev"] != "Export"], lines)
            for e in evs_:
                if e["ev"] == "Export":
                    for kn_, rec_ in sorted(e["db"].items()):
                        lines.append(dict(ev="Exported", k=kn_, s=rec_["as"], t=rec_["at"], slot=rec_["ps"]))
            index.append((start, len(lines), sc_["id"]))
            burst_scn[sc_["id"]] = sc_
        ok, violated, pos, tr = seqfamily.validate(lines, ["ExportFaithful", "SamePairsHold", "AboveFloor"], 3, wd)
        info["states"] += tr.distinct
        info["transitions"] += tr.generated
        if not ok and violated != "trace-not-accepted" and seqfamily.locate(index, pos) in burst_scn:
            sid = seqfamily.locate(index, pos)
            seg = [lines[a - 1:b] for a, b, s_ in index if s_ == sid][0]
            verdict.violation("%s:burst" % violated, "requests of different keys overlapping in time (scenario %s, GOMAXPROCS %s): the export does not state the highest values signed for a key: %s" %
                              (sid, burst_scn[sid]["gomaxprocs"], lines[pos - 2] if pos and pos >= 2 else ""), dict(burst=True, scenario=burst_scn[sid], trace=seg[-60:], invariant=violated))
            ok = True   # (reported; nothing further to attribute)
        if not ok:
            if violated == "trace-not-accepted":
                raise Inconclusive("SeqTrace could not consume line %s" % pos)
            sid = seqfamily.locate(index, pos)
            if sid in legacy_scn:
                seg = [lines[a - 1:b] for a, b, s_ in index if s_ == sid][0]
                verdict.violation("%s:legacy:%s" % (violated, sid), "a request at or below a record stored in the older on-disk format was signed (scenario %s)" % sid,
                                  dict(legacy=True, scenario=legacy_scn[sid], meta=lb.meta[sid], floors=lb.expect[sid]["floors"], trace=seg[:200], invariant=violated))
                results_for_violation = []
            rr = ([r for r in results if r["sid"] == sid] or [None])[0]
        if not ok and rr is not None:
            seg = [lines[a - 1:b] for a, b, s in index if s == sid][0]
            verdict.violation("%s:%s" % (violated, sid), "history %s: export / re-import rejected by SeqTrace invariant %s (exported %s)" %
                              (sid, violated, json.dumps(rr["exported"])[:300]), dict(scenario=rr["scenario"], idx=rr["idx"], conc=rr["scenario"]["conc"], hists=rr["hists"], big=rr["idx"] >= 9000, exported=rr["exported"], trace=seg[:120], invariant=violated))
        rc = verdict.finish()
        cov = dict(states=info["states"], transitions=info["transitions"], traces_validated_against_impl=len(results),
                   samples=[dict(history=results[0]["hists"][0], exported=results[0]["exported"])],
                   model_runs=info["model_runs"], mutants=info["mutants"], keys_with_signatures=nkeys_signed, histories=len(hists),
                   trace_events_validated=len(lines), exhaustive=False,
                   legacy_format_scenarios=len(lb.scenarios), overlapping_keys_bursts=len(burst_scs), legacy_drift=ldrift[:5], legacy_drift_count=len(ldrift),
                   checker_cmd="tlc Interchange / SlashSeqSim / SeqTrace; real binary dirk --export/--import-slashing-protection")
        write_evidence(prop, tier, seed, "model_checking", cov, time.time() - t0, violations=len(verdict.violations),
                       assumptions=["histories of well-formed requests (epochs below 2^63) as quantified by the property"])
        return rc
    finally:
        cleanup(wd)


def run(prop, tier, seed):
    return run_c10(tier, seed) if prop == "C10" else run_c11(tier, seed)


def project_c11(r, inv, pubs, lines):
    lines.append(dict(ev="Begin", sc=r["sid"]))
    signed = set()
    for lg in r["legacy"]:
        signed.add("k%d" % lg["k"])
        lines.append(dict(ev="Floor", k="k%d" % lg["k"], s=lg["s"], t=lg["t"], slot=lg["slot"]))
    for ev in r["pre"]:
        if ev["ev"] == "Release":
            signed.add(ev["k"])
            lines.append(dict(ev="Release", r=ev["r"], i=ev["i"], pos=ev.get("pos", ev["i"]), k=ev["k"], kind=ev["kind"], s=ev["s"], t=ev["t"], slot=ev["slot"],
                              root=ev["root"], dom=ev["dom"], ip="none"))
    bypub = {("0x" + p).lower(): "k%d" % i for i, p in enumerate(pubs)}
    seen = set()
    for d in r["exported"].get("data", []):
        k = bypub.get(d["pubkey"].lower())
        if k is None or k not in signed:
            continue
        seen.add(k)
        ab = lambda x: inv.get(int(x), -99)
        atts = d.get("signed_attestations") or []
        blocks = d.get("signed_blocks") or []
        lines.append(dict(ev="Exported", k=k, s=max([ab(a["source_epoch"]) for a in atts], default=-1), t=max([ab(a["target_epoch"]) for a in atts], default=-1),
                          slot=max([ab(b["slot"]) for b in blocks], default=-1)))
    for k in signed - seen:
        lines.append(dict(ev="Exported", k=k, s=-1, t=-1, slot=-1))
    ra = [e["res"] for e in r["probes_a"] if e["ev"] == "Respond"]
    rb = [e["res"] for e in r["probes_b"] if e["ev"] == "Respond"]
    lines.append(dict(ev="SamePair", a=ra, b=rb))
    return len(signed)


def replay(prop, path):
    """Re-run the case of a replay file on the current tree (real binary, real storage, probes) and validate it again."""
    obj = json.load(open(path))["replay"]
    wd = workdir(prop + "-replay")
    try:
        exe = build_harness("dirkdrv")
        build_dirk()
        lines = []
        if obj.get("legacy"):
            events, rc, err = run_driver([obj["scenario"]], wd, tag="replay")
            seqfamily.project_one(obj["scenario"]["id"], obj["meta"], obj["floors"], events, lines)
            invs = ["AboveFloor"]
        elif obj.get("burst"):
            # timing-dependent: the same burst is run five times, all runs are judged
            for again in range(5):
                events, rc, err = run_driver([dict(obj["scenario"], id="%s-again%d" % (obj["scenario"]["id"], again))], wd, tag="replay%d" % again)
                seqfamily.project_one("again%d" % again, {}, [], [e for e in events if e["ev"] != "Export"], lines)
                for e in events:
                    if e["ev"] == "Export":
                        for kn_, rec_ in sorted(e["db"].items()):
                            lines.append(dict(ev="Exported", k=kn_, s=rec_["as"], t=rec_["at"], slot=rec_["ps"]))
            invs = ["ExportFaithful"]
        elif prop == "C10":
            pubs = json.loads(subprocess.run([exe, "-pubkeys", "70"], stdout=subprocess.PIPE, text=True).stdout)
            r = one_case((obj["idx"], obj["case"], obj["conc"], pubs, wd))
            if "error" in r:
                print(r["error"])
                return 2
            project_case(r, lines)
            invs = ["AboveFloor", "DbPairsHold", "RejectOK"]
        else:
            pubs = json.loads(subprocess.run([exe, "-pubkeys", "66"], stdout=subprocess.PIPE, text=True).stdout)
            inv = {int(v): a for a, v in enumerate(obj["conc"])}
            job = (obj["idx"], obj["hists"], obj["conc"], inv, pubs, wd) + ((True,) if obj.get("big") else ())
            r = one_c11(job)
            if "error" in r:
                print(r["error"])
                return 2
            project_c11(r, inv, pubs, lines)
            invs = ["ExportFaithful", "SamePairsHold", "AboveFloor"]
        for ln in lines[:200]:
            print(json.dumps(ln)[:300])
        ok, violated, pos, tr = seqfamily.validate(lines, invs, 3, wd)
        if ok:
            print("replay: run accepted by SeqTrace (%s hold)" % ", ".join(invs))
            return 0
        if violated in invs:
            print("VIOLATION property=%s replay=%s" % (prop, path))
            return 1
        return 2
    finally:
        cleanup(wd)

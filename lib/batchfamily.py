"""C08 (every signature is valid for exactly the requested data and account; one aligned entry per request) and the
second half of C09 (a batch equals its entries one at a time, for every batch size and degree of parallelism).

Model side : Scatter.tla - util/scatter.go transcribed; TLC proves over the grid n<=400 x 12 GOMAXPROCS values that the
             extents partition the batch, and writes the table; SignerSim / SlashSeq supply the rule meaning.
Code side  : the real util.Scatter is run for every (n, p) of the grid and its observed extents compared with the
             table; batches of every size (quick: 13 sizes, thorough: 1..320) are sent through all five endpoints
             under 8 GOMAXPROCS values with distinct field values per entry; for C09 a twin world receives the same
             entries one at a time.
Verdict    : SeqTrace.SigForRequest (oracle: independent SSZ + BLS verify decides which entry a signature is for),
             SamePairsHold (batch verdict vector = one-at-a-time vector), AdvancingSigned."""
import json, os, random, time
from vlib import *
import seqfamily

PROCS = [1, 2, 3, 4, 8, 16, 64, 128]
GRID_P = {1, 2, 3, 4, 5, 7, 8, 16, 17, 64, 128, 136}


def scatter_phase(tier, wd, info):
    maxn = 330 if tier == "quick" else 1100
    r = tlc("Scatter", make_cfg(dict(OutFile="scatter.json", MaxN=maxn, Ps=GRID_P)), wd, name="Scatter", workers=1, timeout=900)
    require_ok(r, "Scatter (partition theorem)")
    info["states"] += max(r.distinct, 1)
    info["transitions"] += maxn * len(GRID_P)
    rows = json.load(open(os.path.join(wd, "Scatter", "scatter.json")))["rows"]
    ops = [dict(id="sc%d" % i, kind="scatter", n=row["n"], p=row["p"]) for i, row in enumerate(rows)]
    sc = dict(id="scatter-grid", world=dict(nkeys=1), conc=["0", "1"], ops=ops, no_export=True)
    events, rc, err = run_driver([sc], wd, tag="scatter", timeout=900)
    if rc != 0:
        raise Inconclusive("scatter grid run failed: %s %s" % (rc, err[-300:]))
    want = {(row["n"], row["p"]): row for row in rows}
    drift = []
    n = 0
    for e in events:
        if e["ev"] != "Scatter":
            continue
        n += 1
        row = want[(e["n"], e["p"])]
        exp = []
        off = 0
        while off < e["n"]:
            ent = min(row["size"], e["n"] - off)
            exp.append([off, ent])
            off += ent
        if e["extents"] != exp and len(drift) < 10:
            drift.append(dict(n=e["n"], p=e["p"], expected=exp[:6], got=e["extents"][:6], err=e.get("err")))
    if n != len(rows):
        raise Inconclusive("scatter grid: %d of %d cells ran" % (n, len(rows)))
    return dict(cells=n, drift=drift)


def batch_scenarios(tier, seed, twin):
    rnd = random.Random(seed)
    sizes = [1, 2, 3, 5, 8, 15, 16, 17, 24, 31, 32, 33, 64] if tier == "quick" else list(range(1, 321))
    nkeys = max(sizes)
    scs, meta = [], {}
    conc = [str(v) for v in range(0, 40)]
    k = 0
    for size in sizes:
        procs = PROCS if tier != "quick" or size in (3, 5, 17, 33) else [rnd.choice(PROCS), PROCS[(size + k) % len(PROCS)]]
        for p in sorted(set(procs)):
            k += 1
            keys = rnd.sample(range(nkeys), size)
            # distinct field values per entry; a third of the keys carry a prior record that makes the entry refused
            prior, ents = [], []
            for j, key in enumerate(keys):
                # runs of four index-adjacent entries are equal in every field except the target root
                g = j // 4
                s, t = 1 + (g % 5), 7 + (g % 11)
                if j % 3 == 2:
                    prior.append(dict(k=key, kind="att", s=s, t=t + 1, fmt="v1"))
                if j % 7 == 5:
                    s, t = t + 2, s      # an entry the rules refuse for what it is (target below source), between approvable neighbours
                ents.append(dict(k=key, s=s, t=t, root="R%d" % (g % 7), troot="T%d" % j, by=("name", "key", "keypad")[j % 3]))
            sid = "B-%d-p%d" % (size, p)
            kind = "atts" if size > 1 or k % 2 else "att"
            sc = dict(id=sid, world=dict(nkeys=nkeys), conc=conc, gomaxprocs=p, prior=prior,
                      ops=[dict(id="batch", kind=kind, ents=ents),
                           dict(id="multi", kind="multi", dom="randao", ents=[dict(dict(k=key, root="M%d" % (j % 5), by=("key", "name")[j % 2]), **(dict(dom="att") if j % 5 == 3 else {})) for j, key in enumerate(keys)]),
                           dict(id="prop", kind="prop", ents=[dict(k=keys[0], slot=9, root="P")]),
                           dict(id="gen", kind="gen", dom="selection", ents=[dict(k=keys[-1], root="G")])])
            scs.append(sc)
            meta[sid] = dict(size=size, p=p, twin=None)
            if twin:
                tid = sid + "-twin"
                tops = [dict(id="e%d" % j, kind="att", ents=[e]) for j, e in enumerate(ents)]
                scs.append(dict(id=tid, world=dict(nkeys=nkeys), conc=conc, gomaxprocs=p, prior=prior, ops=tops))
                meta[sid]["twin"] = tid
    if twin:
        # FIRST USE AFTER START: the unlocker is configured with two account passphrases, the one that fits is the SECOND; the accounts
        # have not been used since the instance started (still locked), so every entry's signing begins with its account being opened
        # - side by side in the batch's workers.  Each of these worlds is used by one scenario only (a fresh instance).
        for fi, p in enumerate((2, 5, 8, 16) if tier == "quick" else (2, 3, 4, 5, 8, 16, 2, 5, 8, 16)):
            keys = list(range(16))
            ents = [dict(k=key, s=1, t=2 + (j % 3), root="F%d" % (j % 4), troot="T%d" % j, by=("name", "key")[j % 2]) for j, key in enumerate(keys)]
            sid = "B-firstuse-%d-p%d" % (fi, p)
            w_ = dict(nkeys=16, unlocker_passphrases=["not-this-one-%d" % fi, "pass"])
            scs.append(dict(id=sid, world=w_, conc=conc, gomaxprocs=p, prior=[], ops=[dict(id="batch", kind="atts", ents=ents)]))
            meta[sid] = dict(size=16, p=p, twin=sid + "-twin")
            scs.append(dict(id=sid + "-twin", world=dict(w_, unlocker_passphrases=["not-this-one-%d-twin" % fi, "pass"]), conc=conc, gomaxprocs=p, prior=[],
                            ops=[dict(id="e%d" % j, kind="att", ents=[e]) for j, e in enumerate(ents)]))
    # ACCOUNT NAMES WITH PATH SEPARATORS: wallets hold accounts such as "pool/a0" and "x/y/a1" next to "a0" and "a1"; every request,
    # by name or by key, is answered under the key of the account it ADDRESSES (a lookup that loses part of the name signs with a neighbour's)
    slash_w = dict(wallets=[dict(name="W1", type="nd", accounts=[dict(name="a0", key=0), dict(name="a1", key=1), dict(name="pool/a0", key=2), dict(name="pool/a1", key=3),
                                                              dict(name="x/y/a0", key=4), dict(name="x/y/a1", key=5), dict(name="a0/pool", key=6), dict(name="pool", key=7)])])
    for si_, p in enumerate((1, 4, 16)):
        ops_ = []
        for j_ in range(4):
            ks_ = [(j_ + x_) % 8 for x_ in range(8)]
            ops_.append(dict(id="s%da" % j_, kind="atts", ents=[dict(k=key, s=j_, t=j_ + 1, root="N%d" % j_, by=("name", "key")[(j_ + key) % 2]) for key in ks_]))
            ops_.append(dict(id="s%dm" % j_, kind="multi", dom="randao", ents=[dict(k=key, root="M%d" % j_, by=("key", "name")[(j_ + key) % 2]) for key in ks_]))
            for key in ks_[:4]:
                ops_.append(dict(id="s%dg%d" % (j_, key), kind="gen", dom="randao", by=("name", "key")[j_ % 2], ents=[dict(k=key, root="G%d" % j_)]))
        sid = "B-slashnames-%d" % si_
        scs.append(dict(id=sid, world=slash_w, conc=conc, gomaxprocs=p, prior=[], ops=ops_))
        meta[sid] = dict(size=8, p=p, twin=None)
    # sustained load on the generic batch endpoint: many 64-entry batches at full parallelism (a worker that leaks state into
    # its neighbours - a shared variable, a reused buffer - shows up only under real contention, a fraction of a percent per entry)
    nsoak = 150 if tier == "quick" else 1500
    for part in range(0, nsoak, 50):
        keys = list(range(64))
        ops = []
        for b in range(part, min(part + 50, nsoak)):
            rnd.shuffle(keys)
            ops.append(dict(id="m%d" % b, kind="multi", dom="randao",
                            ents=[dict(k=key, root="S%d" % ((b * 7 + j) % 23), by=("key", "name")[(b + j) % 2]) for j, key in enumerate(keys)]))
        sid = "B-soak-%d" % part
        scs.append(dict(id=sid, world=dict(nkeys=nkeys), conc=conc, gomaxprocs=16, prior=[], ops=ops))
        meta[sid] = dict(size=64, p=16, twin=None)
    return scs, meta


def run_batches(prop, tier, seed, wd, info, verdict, twin):
    scs, meta = batch_scenarios(tier, seed, twin)
    events, rc, err = run_driver_parallel(scs, wd, tag="batches", nproc=4 if tier == "quick" else 12, timeout=3000,
                                          keep={"Begin", "End", "Invoke", "Release", "Respond", "BadSig", "DriverError"})
    if rc != 0:
        raise Inconclusive("batch driver exited %s: %s" % (rc, err[-400:]))
    by = split_scenarios(events)
    lines, index = [], []
    nsig, nent = 0, 0
    for sc in scs:
        sid = sc["id"]
        if sid.endswith("-twin"):
            continue
        evs = by.get(sid)
        if evs is None:
            raise Inconclusive("scenario %s produced no events" % sid)
        start = len(lines) + 1
        floors = [dict(k="k%d" % p["k"], s=p["s"], t=p["t"], slot=-1) for p in sc["prior"]]
        seqfamily.project_one(sid, {o["id"]: dict(wf=True, ip="none") for o in sc["ops"]}, floors, evs, lines)
        nsig += sum(1 for e in evs if e["ev"] == "Release")
        nent += sum(len(o["ents"]) for o in sc["ops"])
        if meta[sid]["twin"]:
            tev = by.get(meta[sid]["twin"])
            if tev is None:
                raise Inconclusive("twin scenario of %s produced no events" % sid)
            a = [e["res"] for e in evs if e["ev"] == "Respond" and e["r"] == "batch"]
            b = [[e["res"][0] for e in tev if e["ev"] == "Respond"]]
            lines.append(dict(ev="SamePair", a=a, b=b, what="batch verdicts vs one-at-a-time"))
        index.append((start, len(lines), sid))
    inv = ["SigForRequest", "SigIffSucceeded", "NoSlashableAtt", "AboveFloor"] + (["SamePairsHold", "AdvancingSigned"] if twin else [])
    # the thorough trace has about a million lines: validate it in chunks of whole scenarios (each scenario starts with Begin, which
    # resets the trace specification's state), several TLC runs at a time
    chunks, cur = [], []
    for a, b, sid_ in index:
        if cur and (b - cur[0][0]) > 30000:
            chunks.append(cur)
            cur = []
        cur.append((a, b, sid_))
    if cur:
        chunks.append(cur)
    from concurrent.futures import ThreadPoolExecutor

    def vchunk(ic):
        i_, ch = ic
        lo, hi = ch[0][0], ch[-1][1]
        ok_, violated_, pos_, tr_ = seqfamily.validate(lines[lo - 1:hi], inv, 39, wd, name="SeqTraceBatch%d" % i_)
        return ok_, violated_, (pos_ + lo - 1) if pos_ else pos_, tr_
    with ThreadPoolExecutor(max_workers=min(6, len(chunks))) as ex:
        vres = list(ex.map(vchunk, enumerate(chunks)))
    ok, violated, pos = True, None, None
    for ok_, violated_, pos_, tr in vres:
        info["states"] += tr.distinct
        info["transitions"] += tr.generated
        if not ok_ and ok:
            ok, violated, pos = ok_, violated_, pos_
    if not ok:
        if violated == "trace-not-accepted":
            raise Inconclusive("SeqTrace could not consume line %s" % pos)
        sid = seqfamily.locate(index, pos)
        sc = [s for s in scs if s["id"] == sid][0]
        tw = [s for s in scs if s["id"] == meta[sid]["twin"]] if meta[sid]["twin"] else []
        seg = [lines[a - 1:b] for a, b, s in index if s == sid][0]
        verdict.violation("%s:size=%d,p=%d" % (violated, meta[sid]["size"], meta[sid]["p"]),
                          "batch of %d under GOMAXPROCS=%d: real run rejected by SeqTrace invariant %s" % (meta[sid]["size"], meta[sid]["p"], violated),
                          dict(scenario=sc, twin=tw[0] if tw else None, trace=seg[-12:], invariant=violated, batch=True))
    return dict(batches=len(index), entries=nent, signatures_verified=nsig, sizes=sorted({m["size"] for m in meta.values()}), gomaxprocs=PROCS,
                sample=lines[index[0][0] - 1:index[0][1]][:6])


def run(prop, tier, seed):
    t0 = time.time()
    wd = workdir(prop)
    info = dict(states=0, transitions=0)
    verdict = Verdict(prop)
    try:
        sp = scatter_phase(tier, wd, info)
        res = run_batches(prop, tier, seed, wd, info, verdict, twin=False)
        rc = verdict.finish()
        cov = dict(evaluations=res["entries"], distinct_nontrivial=res["signatures_verified"],
                   rule="batches of TLC/seeded sizes x GOMAXPROCS through the attestation-batch, multisign, proposal and generic endpoints with distinct field values per entry and "
                        "three addressing modes; non-trivial = a signature was returned and verified by the independent SSZ/BLS oracle for the entry at its own position; "
                        "plus the Scatter grid (TLC partition theorem, real util.Scatter extents compared cell by cell)",
                   samples=[dict(kind="recorded-trace", lines=res["sample"])], states=info["states"], transitions=info["transitions"],
                   traces_validated_against_impl=res["batches"], scatter=sp, detail={k: v for k, v in res.items() if k != "sample"}, exhaustive=(tier != "quick"))
        write_evidence(prop, tier, seed, "exploration", cov, time.time() - t0, violations=len(verdict.violations),
                       assumptions=["hash-tree-root / BLS fidelity is decided by the harness's independent oracle (hand-written SSZ over sha256, herumi verify), not by TLC",
                                    "TLA+ contributes the partition theorem, the enumeration grid and the relation 'entry i is the verdict and signature for request i'"])
        if sp["drift"]:
            print("DRIFT: util.Scatter extents differ from Scatter.tla in %d cell(s), e.g. %s" % (len(sp["drift"]), sp["drift"][0]))
        return rc
    finally:
        cleanup(wd)


def replay(prop, path):
    obj = json.load(open(path))["replay"]
    wd = workdir(prop + "-replay")
    try:
        scs = [obj["scenario"]] + ([obj["twin"]] if obj.get("twin") else [])
        events, rc, err = run_driver(scs, wd, tag="replay")
        by = split_scenarios(events)
        sc = obj["scenario"]
        lines = []
        floors = [dict(k="k%d" % p["k"], s=p["s"], t=p["t"], slot=-1) for p in sc["prior"]]
        seqfamily.project_one(sc["id"], {o["id"]: dict(wf=True, ip="none") for o in sc["ops"]}, floors, by[sc["id"]], lines)
        if obj.get("twin"):
            a = [e["res"] for e in by[sc["id"]] if e["ev"] == "Respond" and e["r"] == "batch"]
            b = [[e["res"][0] for e in by[obj["twin"]["id"]] if e["ev"] == "Respond"]]
            lines.append(dict(ev="SamePair", a=a, b=b))
        ok, violated, pos, tr = seqfamily.validate(lines, ["SigForRequest", "SigIffSucceeded", "SamePairsHold", "AdvancingSigned"], 39, wd)
        print(json.dumps(lines[-3:])[:1500])
        if ok:
            print("replay: run accepted")
            return 0
        print("VIOLATION property=%s replay=%s" % (prop, path))
        return 1
    finally:
        cleanup(wd)

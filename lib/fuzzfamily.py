"""C20: no client request can crash the daemon (exploration driven by the shape model ApiShapes.tla).

TLC writes, per method, the field-shape domains, the number of full combinations and the number of value pairs; the
harness builds a pairwise-complete message set (quick) or the full product where it is small plus seeded samples
(thorough), concretises every abstract message with seeded byte fillings, sends it over a REAL TLS connection to the
REAL gRPC service from an authenticated client (DKG messages from non-peers), and probes liveness after each.
Verdict: the server process dies or stops answering while handling a client message."""
import itertools, json, os, random, time
from vlib import *
import apifamily


def pairwise(fields, rnd, extra=0):
    """Greedy all-pairs covering set over the field domains (field -> list of values)."""
    names = sorted(fields)
    if len(names) == 1:
        return [{names[0]: v} for v in fields[names[0]]]
    uncovered = set()
    for a, b in itertools.combinations(names, 2):
        for x in fields[a]:
            for y in fields[b]:
                uncovered.add((a, x, b, y))
    total = len(uncovered)
    out = []
    while uncovered:
        best, bestc = None, -1
        for _ in range(30):
            # seed the candidate with an uncovered pair, fill the rest at random
            a, x, b, y = rnd.choice(tuple(uncovered)) if len(uncovered) < 4000 else next(iter(uncovered))
            cand = {n: rnd.choice(fields[n]) for n in names}
            cand[a], cand[b] = x, y
            c = sum(1 for p, q in itertools.combinations(names, 2) if (p, cand[p], q, cand[q]) in uncovered)
            if c > bestc:
                best, bestc = cand, c
        out.append(best)
        for p, q in itertools.combinations(names, 2):
            uncovered.discard((p, best[p], q, best[q]))
    for _ in range(extra):
        out.append({n: rnd.choice(fields[n]) for n in names})
    return out, total


def harness_panic(stderr, external):
    """True when the process that died was the DRIVER by its own fault: the panicking goroutine's stack has no frame of the
    repository's code.  (In-process, a panic of the served code kills the driver too - then its stack shows /repo frames;
    against the external binary the driver exits 4 when the server stops answering and only panics by its own fault.)"""
    i = stderr.find("goroutine ")
    j = stderr.find("\n\n", i) if i >= 0 else -1
    first = stderr[i:j if j > 0 else i + 4000] if i >= 0 else ""
    own = ("panic:" in stderr or "fatal error:" in stderr) and "verifharness/" in first and "attestantio/dirk" not in first and "/repo/" not in first and not first.startswith("goroutine 0")
    if external:
        # the binary's own stderr is appended after the driver's message "fuzz: server stopped answering"
        return own and "server stopped answering" not in stderr
    return own


# account-name classes for a distributed Generate (ApiShapes.Str plus "underscore")
CLUSTER_NAMES = ["DW/okA", "DW/_hidden", "DW/", "DW", "Nowhere/x", "DW/okA", "DW/\u00e9\u4e16\u754c", "DW/" + "a" * 1500, "DW/_x2", "DW/okB", "DW/ok C", "DW//x", "/x"]
CLUSTER_NT = [(3, 2), (2, 2), (3, 3), (3, 1), (4, 3), (2, 1), (0, 0), (3, 2)]


def cluster_generate_phase(tier, seed, wd, verdict):
    import dkgfamily
    calls = []
    k = 0
    for name in CLUSTER_NAMES:
        for n, t in (CLUSTER_NT if tier != "quick" else CLUSTER_NT[:3] + [CLUSTER_NT[(len(name) + seed) % len(CLUSTER_NT)]]):
            k += 1
            calls.append(dict(inst=1 + k % 3, caller="c1", msg="generate", account=name if name not in ("DW/okA", "DW/okB") else name + str(k % 2), n=n, t=t))
    sc = dict(id="C20-cluster", ids=[1, 2, 3], n=3, t=2, initiator=1, account="DW/unused", generate=False, calls=calls)
    deaths = []
    res = None
    for attempt in range(3):
        evs, rc, err = dkgfamily.run_dkgdrv([dict(sc, id="C20-cluster-%d" % attempt)], wd, "c20cluster%d" % attempt, timeout=1200, dirk=build_dirk())
        cl = [e for e in evs if e["ev"] == "Call"]
        if rc != 0 and not cl:
            raise Inconclusive("cluster of dirk binaries (distributed Generate): dkgdrv exited %s: %s" % (rc, err[-300:]))
        dead = [e for e in cl if e.get("crashed")]
        res = dict(requests=len(cl), succeeded=sum(1 for e in cl if e["result"] == "ok"), refused=sum(1 for e in cl if e["result"] != "ok"))
        if not dead:
            if deaths:
                continue
            break
        deaths.append(dict(request=calls[dead[0]["i"]], err=dead[0].get("err", "")[:200]))
        if len(deaths) >= 2:
            break
    if len(deaths) >= 2:
        verdict.violation("crash:distributed-generate:%s" % json.dumps(deaths[0]["request"], sort_keys=True)[:120],
                          "an instance of a cluster of real dirk binaries DIED while a client's distributed Generate was handled (seen on two fresh clusters): %s" % deaths[0],
                          dict(cluster=sc, observations=deaths))
    elif deaths:
        raise Inconclusive("an instance died once during a distributed Generate but not on the following attempts: %s" % deaths[0])
    if res and res["succeeded"] < 2:
        raise Inconclusive("distributed Generate on the cluster: only %d requests succeeded" % res["succeeded"])
    return res


def cluster_retry_phase(tier, seed, wd, verdict):
    """'... or to stop answering other requests': a client RETRIES a distributed Generate that cannot succeed (the wallet refuses the name
    when the account is stored, i.e. after prepare and execute) - the ordinary reaction of a client to a failure.  The participants
    still hold the first attempt's session, so every retry is refused in its prepare phase.  After many retries (more than any
    per-peer resource an instance might hold on to for each refused call) other clients' requests - a listing, a VALID Generate
    through the same instance and through another one - must still be answered."""
    import dkgfamily, re
    # SenderPool.tla: connections are only held by calls in flight, whatever the peers answer; "release on success only" is killed, and
    # the wedge it leads to (no call can move) is reached after Cap refused calls to one peer
    pool = dict(Peers={"p1", "p2"}, Calls={"c1", "c2", "c3", "c4", "c5"}, Cap=2, ReleaseOn="always")
    r = tlc("SenderPool", make_cfg(pool, spec="FairSpec", invariants=["NoLeak", "Bounded", "NoWedge"], properties=["Termination"], deadlock=False), wd, name="SenderPool", timeout=600)
    require_ok(r, "SenderPool")
    rm = tlc("SenderPool", make_cfg(dict(pool, ReleaseOn="success"), invariants=["Bounded", "NoWedge"], deadlock=False), wd, name="SenderPool_mut", timeout=600)
    require_killed(rm, "SenderPool mutant ReleaseOn=success")
    # the number of retries follows the pool size the CODE uses (refused calls needed by the broken design: Cap per peer)
    src = open(os.path.join(REPO, "services/sender/grpc/service.go")).read()
    m = re.search(r"puddle\.NewPool\([^)]*?,\s*(\d+)\)", src)
    cap = int(m.group(1)) if m else 32
    nretry = max(100 if tier == "quick" else 400, 2 * cap + 8)
    calls = [dict(inst=1, caller="c1", msg="generate", account="DW/before", n=3, t=2)]
    calls += [dict(inst=1, caller="c1", msg="generate", account="DW/_again", n=3, t=2) for _ in range(nretry)]
    calls += [dict(inst=1, caller="c1", msg="generate", account="DW/after1", n=3, t=2), dict(inst=2, caller="c1", msg="generate", account="DW/after2", n=3, t=2),
              dict(inst=1, caller="c1", msg="generate", account="DW/after3", n=2, t=2)]
    sc = dict(id="C20-retries", ids=[1, 2, 3], n=3, t=2, initiator=1, account="DW/unused", generate=False, calls=calls)
    seen = []
    res = None
    for attempt in range(2):
        evs, rc, err = dkgfamily.run_dkgdrv([dict(sc, id="C20-retries-%d" % attempt)], wd, "c20retries%d" % attempt, timeout=1500, dirk=build_dirk())
        cl = [e for e in evs if e["ev"] == "Call"]
        if rc != 0 and not cl:
            raise Inconclusive("retried distributed Generate on a cluster of dirk binaries: dkgdrv exited %s: %s" % (rc, err[-300:]))
        if not cl or cl[0]["result"] != "ok":
            raise Inconclusive("retried distributed Generate: the first, valid generation did not succeed: %s" % cl[:1])
        silent = [e for e in cl if e.get("noanswer") or e.get("crashed")]
        res = dict(requests=len(cl), retries=nretry, pool_size_in_code=cap, model=dict(module="SenderPool", distinct=r.distinct, mutant_killed_by=rm.violated), retries_refused=sum(1 for e in cl[1:1 + nretry] if e["result"] != "ok"), answered_after=sum(1 for e in cl[1 + nretry:] if not e.get("noanswer")),
                   succeeded_after=sum(1 for e in cl[1 + nretry:] if e["result"] == "ok"))
        if not silent:
            break
        seen.append(dict(request=calls[silent[0]["i"]], position=silent[0]["i"], err=silent[0].get("err", "")[:200], crashed=bool(silent[0].get("crashed"))))
    if len(seen) >= 2:
        verdict.violation("noanswer:retried-generate", "after a client retried a failing distributed Generate, an instance of a cluster of real dirk binaries stopped answering "
                          "(no response and no error within 20 s; seen on two fresh clusters): %s" % seen[0], dict(cluster=sc, observations=seen, retries=True))
    elif seen:
        raise Inconclusive("a request got no answer once after retried generations, but not on a fresh cluster: %s" % seen[0])
    elif res["retries_refused"] < nretry // 2:
        raise Inconclusive("retried distributed Generate: only %d of %d retries were refused" % (res["retries_refused"], nretry))
    return res


def run(prop, tier, seed):
    t0 = time.time()
    wd = workdir(prop)
    verdict = Verdict(prop)
    rnd = random.Random(seed)
    try:
        r = tlc("ApiShapes", make_cfg(dict(OutFile="shapes.json")), wd, name="ApiShapes", workers=1, timeout=600)
        require_ok(r, "ApiShapes")
        methods = json.load(open(os.path.join(wd, "ApiShapes", "shapes.json")))["methods"]
        msgs, stats = [], {}
        n = 0
        for m in sorted(methods):
            fields = {k: sorted(v) for k, v in methods[m]["fields"].items()}
            combos = methods[m]["combos"]
            if combos <= (300 if tier == "quick" else 3000):
                rows = [dict(zip(sorted(fields), vals)) for vals in itertools.product(*[fields[k] for k in sorted(fields)])]
                mode, pairs = "full", methods[m]["npairs"]
            else:
                rows, pairs = pairwise(fields, rnd, extra=20 if tier == "quick" else 400)
                mode = "pairwise"
            # batches of 300 requests are expensive: keep a handful per method
            if tier == "quick":
                big = [x for x in rows if x.get("count") == "300"]
                rows = [x for x in rows if x.get("count") != "300"] + big[:6]
            stats[m] = dict(messages=len(rows), mode=mode, combos=combos, pairs=pairs)
            for row in rows:
                for fill in range(1 if tier == "quick" else 2):
                    n += 1
                    msgs.append(dict(id="m%d" % n, method=m, shape=row, seed=seed * 1000003 + n))
        rnd.shuffle(msgs)
        done, answered = 0, {"response": 0, "error": 0}
        ncrashes = 0
        unreproduced = []

        def sequential(target_name, dirk):
            """All messages one after the other with a liveness probe after each, against the in-process service or the real binary."""
            nonlocal done, ncrashes
            crashes = []
            todo = msgs
            rounds = 0
            while todo:
                rounds += 1
                evs, rc, err = apifamily.run_apidrv(dict(calls=[], fuzz=todo), wd, "fuzz%s%d" % (target_name, rounds), timeout=3000, dirk=dirk)
                begun = [e for e in evs if e["ev"] == "FuzzBegin"]
                ended = {e["id"]: e for e in evs if e["ev"] == "FuzzEnd"}
                for e in ended.values():
                    answered[e["answered"]] = answered.get(e["answered"], 0) + 1
                done += len(ended)
                if rc == 0:
                    break
                if not begun:
                    raise Inconclusive("apidrv (%s) failed before sending anything: %s" % (target_name, err[-400:]))
                if harness_panic(err, bool(dirk)):
                    raise Inconclusive("the harness itself panicked (%s): %s" % (target_name, err[:600]))
                last = begun[-1]
                if last["id"] in ended and ended[last["id"]]["alive"]:
                    raise Inconclusive("apidrv (%s) exited %s although the last message was answered and the server alive: %s" % (target_name, rc, err[-300:]))
                ids = [m_["id"] for m_ in todo]
                upto = todo[:ids.index(last["id"]) + 1]
                crashes.append((last, err[:6000] + "\n...\n" + err[-1500:], upto))
                todo = todo[ids.index(last["id"]) + 1:]
                if len(crashes) >= 5:
                    break
            ncrashes += len(crashes)
            for ci, (last, err, upto) in enumerate(crashes):
                # a counterexample counts only if it can be reproduced: first the message alone on a fresh server, then with its predecessors
                msg = [m_ for m_ in msgs if m_["id"] == last["id"]][0]
                plan = None
                for cand in ([msg], upto[-50:], upto):
                    evs2, rc2, err2 = apifamily.run_apidrv(dict(calls=[], fuzz=cand), wd, "confirm%s%d" % (target_name, ci), timeout=1500, dirk=dirk)
                    if rc2 != 0:
                        if harness_panic(err2, bool(dirk)):
                            raise Inconclusive("the harness itself panicked (%s): %s" % (target_name, err2[:600]))
                        plan, err = cand, err2[:6000] + "\n...\n" + err2[-1500:]
                        break
                if plan is None:
                    unreproduced.append(dict(message=msg, stderr=err[:1500]))
                    continue
                panic = [l for l in err.splitlines() if l.startswith("panic:") or l.startswith("fatal error:") or "runtime error" in l]
                verdict.violation("crash:%s:%s" % (last["method"], json.dumps(last["shape"], sort_keys=True)),
                                  "the daemon (%s) died / stopped answering while handling %s %s (reproduced with %d message(s)): %s" % (target_name, last["method"], last["shape"], len(plan), panic[:2] or err[-200:]),
                                  dict(messages=plan, stderr=err, binary=bool(dirk)))

        sequential("inprocess", None)
        if not verdict.violations:
            # the same messages against the SHIPPED PROGRAM (a real process: a panic anywhere, or a hang, is seen from outside)
            sequential("binary", build_dirk())
        # phase 2: the same message classes CONCURRENTLY (16 request streams next to a stream that keeps creating accounts through
        # Dirk); afterwards a fresh client must still be answered ("... or to stop answering other requests")
        light = [m_ for m_ in msgs if m_["shape"].get("count") not in ("300",) and "len100000" not in m_["shape"].values() and not m_["method"].startswith("Dkg")]
        storm_plan = dict(calls=[], storm=dict(workers=32, generates=400 if tier == "quick" else 2000, msgs=light[:400]))
        storm = None
        hangs = []
        deaths = []
        if not verdict.violations:       # a daemon that a single message kills needs no concurrent phase
            for target_name, dirk in (("inprocess", None), ("binary", build_dirk())):
                for attempt in range(3):
                    evs_s, rc_s, err_s = apifamily.run_apidrv(storm_plan, wd, "storm_%s%d" % (target_name, attempt), timeout=1500, dirk=dirk)
                    st = [e for e in evs_s if e["ev"] == "Storm"]
                    if rc_s == 0 and st:
                        storm = storm or st[0]
                        if not hangs:
                            break        # answered everything: next target
                        continue         # a hang was seen before: keep trying to reproduce it
                    if rc_s == 3 and st:
                        hangs.append(dict(st[0], served_by=target_name))
                        if len(hangs) >= 2:
                            break
                        continue
                    if harness_panic(err_s, bool(dirk)):
                        raise Inconclusive("the harness itself panicked in the concurrent phase (%s): %s" % (target_name, err_s[:600]))
                    if not dirk and ("fatal error:" in err_s or "panic:" in err_s):
                        # the in-process daemon shares the driver's process: a panic outside the request handlers' recovery, or a fatal
                        # runtime error (concurrent map access), of the SERVED code kills both; its stack shows the repository's frames
                        what = [l for l in err_s.splitlines() if l.startswith("panic:") or l.startswith("fatal error:")][:1]
                        frames = [l.strip() for l in err_s.splitlines() if "attestantio/dirk/" in l and "verifharness" not in l][:3]
                        deaths.append(dict(served_by=target_name, what=what, frames=frames))
                        if len(deaths) >= 2:
                            break
                        continue
                    raise Inconclusive("concurrent phase (%s): apidrv exited %s: %s" % (target_name, rc_s, err_s[-300:]))
                if len(hangs) >= 2 or len(deaths) >= 2:
                    break
        # phase 3: DISTRIBUTED account creation.  A single server has no peers to generate a key with - the request is refused before any
        # exchange starts.  Here a client asks each instance of a cluster of three real dirk binaries for distributed accounts over the
        # account-name classes (names the wallet only refuses when the account is stored, i.e. after the whole exchange) and (n, t)
        # combinations; after every request every instance must still be there and answer.
        cluster = None
        if not verdict.violations:
            cluster = cluster_generate_phase(tier, seed, wd, verdict)
        retries = None
        if not verdict.violations:
            retries = cluster_retry_phase(tier, seed, wd, verdict)
        if len(deaths) >= 2:
            verdict.violation("crash:concurrent-load", "the daemon DIED under concurrent client load (listings with new account expressions, account creation, signing requests "
                              "addressing the created accounts); seen again on a fresh server: %s" % deaths[0], dict(storm=storm_plan["storm"], observations=deaths))
        elif deaths and not hangs:
            raise Inconclusive("the daemon died once under concurrent load but not on the following attempts: %s" % deaths[0])
        if len(hangs) >= 2:
            verdict.violation("hang:concurrent-load", "the daemon stopped answering under concurrent client load (account creation next to signing requests that "
                              "address the created accounts); reproduced on a fresh server: %s" % hangs[0], dict(storm=storm_plan["storm"], observations=hangs))
        elif hangs:
            raise Inconclusive("the daemon stopped answering once under concurrent load but not on the following attempts: %s" % hangs[0])
        if unreproduced and not verdict.violations:
            raise Inconclusive("%d server death(s) could not be reproduced, e.g. after %s: %s" % (len(unreproduced), unreproduced[0]["message"], unreproduced[0]["stderr"][:400]))
        rc = verdict.finish()
        cov = dict(evaluations=done, distinct_nontrivial=len({(m_["method"], json.dumps(m_["shape"], sort_keys=True)) for m_ in msgs}),
                   rule="per method, messages over field-shape classes (ApiShapes.tla): full product where small, otherwise a greedy pairwise-complete set plus seeded "
                        "combinations; each is concretised (seeded byte fillings), sent over real TLS to the real gRPC service from an authenticated client (key-generation "
                        "messages from non-peers) and followed by a liveness probe from another client; distinct = distinct (method, shape) pairs",
                   samples=msgs[:3], per_method=stats, answered=answered, states=max(r.distinct, 1), transitions=sum(v["messages"] for v in stats.values()),
                   traces_validated_against_impl=done, crashes=ncrashes, served_by=["in-process services/api/grpc", "the dirk binary"], concurrent_phase=storm, distributed_generate_on_cluster=cluster, retried_generate_on_cluster=retries, exhaustive=False)
        write_evidence(prop, tier, seed, "exploration", cov, time.time() - t0, violations=len(verdict.violations),
                       assumptions=["decides crash-freedom over the shape abstraction, not over all byte contents",
                                    "TLC is the keeper of the shape catalogue and of the pair-coverage obligation; the covering set is built greedily by the harness"])
        return rc
    finally:
        cleanup(wd)

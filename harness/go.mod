module verifharness

go 1.26

require (
	github.com/attestantio/dirk v0.0.0
	github.com/dgraph-io/badger/v2 v2.2007.4
	github.com/herumi/bls-eth-go-binary v1.36.1
	github.com/rs/zerolog v1.33.0
	github.com/wealdtech/eth2-signer-api v1.7.2
	github.com/wealdtech/go-eth2-types/v2 v2.8.2
	github.com/wealdtech/go-eth2-wallet-distributed v1.2.1
	github.com/wealdtech/go-eth2-wallet-encryptor-keystorev4 v1.4.1
	github.com/wealdtech/go-eth2-wallet-nd/v2 v2.5.0
	github.com/wealdtech/go-eth2-wallet-store-filesystem v1.18.1
	github.com/wealdtech/go-eth2-wallet-store-scratch v1.7.2
	github.com/wealdtech/go-eth2-wallet-types/v2 v2.12.0
	google.golang.org/grpc v1.66.2
	google.golang.org/protobuf v1.34.2
)

require (
	cloud.google.com/go/auth v0.9.4 // indirect
	cloud.google.com/go/auth/oauth2adapt v0.2.4 // indirect
	cloud.google.com/go/compute/metadata v0.5.1 // indirect
	cloud.google.com/go/iam v1.2.1 // indirect
	cloud.google.com/go/secretmanager v1.14.1 // indirect
	github.com/attestantio/go-eth2-client v0.21.11 // indirect
	github.com/aws/aws-sdk-go v1.55.5 // indirect
	github.com/beorn7/perks v1.0.1 // indirect
	github.com/cespare/xxhash v1.1.0 // indirect
	github.com/cespare/xxhash/v2 v2.3.0 // indirect
	github.com/davecgh/go-spew v1.1.2-0.20180830191138-d8f796af33cc // indirect
	github.com/dgraph-io/ristretto v0.2.0 // indirect
	github.com/dgryski/go-farm v0.0.0-20200201041132-a6ae2369ad13 // indirect
	github.com/dustin/go-humanize v1.0.1 // indirect
	github.com/emicklei/dot v1.6.2 // indirect
	github.com/fatih/color v1.17.0 // indirect
	github.com/felixge/httpsnoop v1.0.4 // indirect
	github.com/ferranbt/fastssz v0.1.4 // indirect
	github.com/fsnotify/fsnotify v1.7.0 // indirect
	github.com/go-logr/logr v1.4.2 // indirect
	github.com/go-logr/stdr v1.2.2 // indirect
	github.com/goccy/go-yaml v1.9.2 // indirect
	github.com/golang/groupcache v0.0.0-20210331224755-41bb18bfe9da // indirect
	github.com/golang/protobuf v1.5.4 // indirect
	github.com/golang/snappy v0.0.4 // indirect
	github.com/google/s2a-go v0.1.8 // indirect
	github.com/google/uuid v1.6.0 // indirect
	github.com/googleapis/enterprise-certificate-proxy v0.3.4 // indirect
	github.com/googleapis/gax-go/v2 v2.13.0 // indirect
	github.com/grpc-ecosystem/go-grpc-middleware v1.4.0 // indirect
	github.com/hashicorp/hcl v1.0.0 // indirect
	github.com/jackc/puddle v1.3.0 // indirect
	github.com/jmespath/go-jmespath v0.4.0 // indirect
	github.com/klauspost/compress v1.17.9 // indirect
	github.com/klauspost/cpuid/v2 v2.2.8 // indirect
	github.com/magiconair/properties v1.8.7 // indirect
	github.com/mattn/go-colorable v0.1.13 // indirect
	github.com/mattn/go-isatty v0.0.20 // indirect
	github.com/minio/sha256-simd v1.0.1 // indirect
	github.com/mitchellh/go-homedir v1.1.0 // indirect
	github.com/mitchellh/mapstructure v1.5.0 // indirect
	github.com/munnerz/goautoneg v0.0.0-20191010083416-a7dc8b61c822 // indirect
	github.com/opentracing/opentracing-go v1.2.0 // indirect
	github.com/pelletier/go-toml/v2 v2.2.3 // indirect
	github.com/pkg/errors v0.9.1 // indirect
	github.com/pmezard/go-difflib v1.0.1-0.20181226105442-5d4384ee4fb2 // indirect
	github.com/prometheus/client_golang v1.20.4 // indirect
	github.com/prometheus/client_model v0.6.1 // indirect
	github.com/prometheus/common v0.59.1 // indirect
	github.com/prometheus/procfs v0.15.1 // indirect
	github.com/prysmaticlabs/go-bitfield v0.0.0-20240618144021-706c95b2dd15 // indirect
	github.com/sagikazarmark/slog-shim v0.1.0 // indirect
	github.com/shibukawa/configdir v0.0.0-20170330084843-e180dbdc8da0 // indirect
	github.com/spf13/afero v1.11.0 // indirect
	github.com/spf13/cast v1.7.0 // indirect
	github.com/spf13/pflag v1.0.5 // indirect
	github.com/spf13/viper v1.19.0 // indirect
	github.com/stretchr/testify v1.9.0 // indirect
	github.com/subosito/gotenv v1.6.0 // indirect
	github.com/wealdtech/go-bytesutil v1.2.1 // indirect
	github.com/wealdtech/go-ecodec v1.1.4 // indirect
	github.com/wealdtech/go-eth2-util v1.8.2 // indirect
	github.com/wealdtech/go-eth2-wallet v1.17.0 // indirect
	github.com/wealdtech/go-eth2-wallet-hd/v2 v2.7.1 // indirect
	github.com/wealdtech/go-eth2-wallet-keystore v1.0.0 // indirect
	github.com/wealdtech/go-eth2-wallet-store-s3 v1.12.0 // indirect
	github.com/wealdtech/go-indexer v1.1.0 // indirect
	github.com/wealdtech/go-majordomo v1.1.1 // indirect
	go.opencensus.io v0.24.0 // indirect
	go.opentelemetry.io/contrib/instrumentation/google.golang.org/grpc/otelgrpc v0.55.0 // indirect
	go.opentelemetry.io/contrib/instrumentation/net/http/otelhttp v0.55.0 // indirect
	go.opentelemetry.io/otel v1.30.0 // indirect
	go.opentelemetry.io/otel/metric v1.30.0 // indirect
	go.opentelemetry.io/otel/trace v1.30.0 // indirect
	golang.org/x/crypto v0.27.0 // indirect
	golang.org/x/net v0.29.0 // indirect
	golang.org/x/oauth2 v0.23.0 // indirect
	golang.org/x/sync v0.8.0 // indirect
	golang.org/x/sys v0.25.0 // indirect
	golang.org/x/text v0.18.0 // indirect
	golang.org/x/time v0.6.0 // indirect
	golang.org/x/xerrors v0.0.0-20240903120638-7835f813f4da // indirect
	google.golang.org/api v0.197.0 // indirect
	google.golang.org/genproto v0.0.0-20240903143218-8af14fe29dc1 // indirect
	google.golang.org/genproto/googleapis/api v0.0.0-20240903143218-8af14fe29dc1 // indirect
	google.golang.org/genproto/googleapis/rpc v0.0.0-20240903143218-8af14fe29dc1 // indirect
	gopkg.in/ini.v1 v1.67.0 // indirect
	gopkg.in/yaml.v2 v2.4.0 // indirect
	gopkg.in/yaml.v3 v3.0.1 // indirect
)

replace github.com/attestantio/dirk => /repo

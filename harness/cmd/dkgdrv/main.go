// dkgdrv runs distributed key generation scenarios on in-process clusters of real process services connected
// through the real receiver handlers by an intercepting network; NDJSON events to -out.
package main

import (
	"context"
	"encoding/json"
	"flag"
	"fmt"
	"os"

	"verifharness/world"
)

func main() {
	in := flag.String("scenarios", "", "JSON file with a list of scenarios")
	out := flag.String("out", "", "NDJSON output file")
	dirk := flag.String("dirk", "", "path of a dirk binary: run each (fault-free) generation on a cluster of real binaries talking gRPC over TLS to each other")
	flag.Parse()
	data, err := os.ReadFile(*in)
	if err != nil {
		fmt.Fprintln(os.Stderr, err)
		os.Exit(2)
	}
	var scs []*world.DkgScenario
	if err := json.Unmarshal(data, &scs); err != nil {
		fmt.Fprintln(os.Stderr, "parse:", err)
		os.Exit(2)
	}
	w, err := os.OpenFile(*out, os.O_CREATE|os.O_WRONLY|os.O_TRUNC, 0o644)
	if err != nil {
		fmt.Fprintln(os.Stderr, err)
		os.Exit(2)
	}
	log := world.NewLog(w)
	ctx := context.Background()
	for _, sc := range scs {
		run := func() error { return world.RunDkgScenario(ctx, sc, log) }
		if *dirk != "" {
			run = func() error { return world.RunRemoteDkg(ctx, sc, *dirk, log) }
			if sc.FaultyGRPC {
				run = func() error { return world.RunRemoteFaultyDkg(ctx, sc, *dirk, log) }
			}
		}
		if err := run(); err != nil {
			log.Emit(world.Ev{"ev": "DriverError", "sc": sc.ID, "err": err.Error()})
			fmt.Fprintln(os.Stderr, "scenario", sc.ID, "failed:", err)
			os.Exit(2)
		}
	}
}

// ptkill runs a command under ptrace and either counts the system calls by which the command changes files below a
// given directory (the slashing database) or SIGKILLs the whole process at the ENTRY of the n-th such call, i.e. before
// the call takes effect: the state left on disk is the state after n-1 storage calls.  This gives C03 kill points at the
// granularity at which the durable state changes (every write, sync, truncate, rename, unlink, create on the database
// directory), not only at the instrumented passages.
//
//	ptkill -dir <dbdir> [-kill n] [-log file] -- cmd args...
//
// Exit status: 0 the command ended by itself with status 0; 9 it was killed at call n; 3 it ended otherwise; 2 tracer trouble.
// The log receives one JSON line per storage call: {"n":..,"nr":..,"call":"write","path":"..","len":..}.
package main

import (
	"encoding/json"
	"flag"
	"fmt"
	"os"
	"os/exec"
	"runtime"
	"strings"
	"syscall"
)

const (
	ptraceOTraceSysGood = 0x1
	ptraceOTraceFork    = 0x2
	ptraceOTraceVfork   = 0x4
	ptraceOTraceClone   = 0x8
	ptraceOExitKill     = 0x100000
)

var names = map[uint64]string{
	1: "write", 18: "pwrite64", 20: "writev", 296: "pwritev", 328: "pwritev2",
	74: "fsync", 75: "fdatasync", 26: "msync", 277: "sync_file_range",
	77: "ftruncate", 76: "truncate", 285: "fallocate",
	82: "rename", 264: "renameat", 316: "renameat2",
	87: "unlink", 263: "unlinkat",
	2: "open", 257: "openat", 85: "creat",
}

func readString(pid int, addr uintptr) string {
	var out []byte
	buf := make([]byte, 256)
	for len(out) < 4096 {
		n, err := syscall.PtracePeekData(pid, addr+uintptr(len(out)), buf)
		if err != nil || n == 0 {
			break
		}
		for i := 0; i < n; i++ {
			if buf[i] == 0 {
				return string(append(out, buf[:i]...))
			}
		}
		out = append(out, buf[:n]...)
	}
	return string(out)
}

func fdPath(pid int, fd uint64) string {
	p, err := os.Readlink(fmt.Sprintf("/proc/%d/fd/%d", pid, fd))
	if err != nil {
		return ""
	}
	return p
}

func absPath(pid int, dirfd int64, p string) string {
	if strings.HasPrefix(p, "/") {
		return p
	}
	base := ""
	if int32(dirfd) == -100 { // AT_FDCWD
		base, _ = os.Readlink(fmt.Sprintf("/proc/%d/cwd", pid))
	} else {
		base = fdPath(pid, uint64(dirfd))
	}
	return base + "/" + p
}

func main() {
	dir := flag.String("dir", "", "directory whose files count as storage")
	kill := flag.Int("kill", 0, "SIGKILL the process at the entry of the n-th storage call (0: only count)")
	logf := flag.String("log", "", "file receiving one JSON line per storage call")
	flag.Parse()
	args := flag.Args()
	if *dir == "" || len(args) == 0 {
		fmt.Fprintln(os.Stderr, "usage: ptkill -dir D [-kill n] [-log f] -- cmd args...")
		os.Exit(2)
	}
	prefix := strings.TrimRight(*dir, "/")
	under := func(p string) bool { return p == prefix || strings.HasPrefix(p, prefix+"/") }
	var lg *os.File
	if *logf != "" {
		var err error
		if lg, err = os.OpenFile(*logf, os.O_CREATE|os.O_WRONLY|os.O_TRUNC, 0o644); err != nil {
			fmt.Fprintln(os.Stderr, err)
			os.Exit(2)
		}
	}

	runtime.LockOSThread()
	cmd := exec.Command(args[0], args[1:]...)
	cmd.Stdin, cmd.Stdout, cmd.Stderr = os.Stdin, os.Stdout, os.Stderr
	cmd.SysProcAttr = &syscall.SysProcAttr{Ptrace: true}
	if err := cmd.Start(); err != nil {
		fmt.Fprintln(os.Stderr, "start:", err)
		os.Exit(2)
	}
	pid := cmd.Process.Pid
	var ws syscall.WaitStatus
	if _, err := syscall.Wait4(pid, &ws, 0, nil); err != nil || !ws.Stopped() {
		fmt.Fprintln(os.Stderr, "initial wait:", err, ws)
		os.Exit(2)
	}
	if err := syscall.PtraceSetOptions(pid, ptraceOTraceSysGood|ptraceOTraceClone|ptraceOTraceFork|ptraceOTraceVfork|ptraceOExitKill); err != nil {
		fmt.Fprintln(os.Stderr, "setoptions:", err)
		os.Exit(2)
	}
	if err := syscall.PtraceSyscall(pid, 0); err != nil {
		fmt.Fprintln(os.Stderr, "cont:", err)
		os.Exit(2)
	}
	inSys := map[int]bool{}
	seen := map[int]bool{pid: true}
	count, killed := 0, false
	mainStatus := -1
	mainSignaled := false
	for {
		wpid, err := syscall.Wait4(-1, &ws, syscall.WALL, nil)
		if err != nil {
			if err == syscall.EINTR {
				continue
			}
			break // ECHILD: everything is gone
		}
		if ws.Exited() || ws.Signaled() {
			if wpid == pid {
				mainSignaled = ws.Signaled()
				if ws.Exited() {
					mainStatus = ws.ExitStatus()
				}
			}
			delete(inSys, wpid)
			continue
		}
		if !ws.Stopped() {
			continue
		}
		sig := ws.StopSignal()
		first := !seen[wpid]
		seen[wpid] = true
		switch {
		case sig == syscall.SIGTRAP|0x80:
			entering := !inSys[wpid]
			inSys[wpid] = entering
			if entering && !killed {
				var regs syscall.PtraceRegs
				if err := syscall.PtraceGetRegs(wpid, &regs); err == nil {
					nr := regs.Orig_rax
					if name, ok := names[nr]; ok {
						path, storage := "", false
						var ln uint64
						switch name {
						case "write", "pwrite64", "writev", "pwritev", "pwritev2", "fsync", "fdatasync", "sync_file_range", "ftruncate", "fallocate":
							path = fdPath(pid, regs.Rdi)
							storage = under(path)
							ln = regs.Rdx
						case "msync":
							storage, path = true, "(msync)"
						case "truncate", "unlink", "rename", "creat":
							path = absPath(pid, -100, readString(wpid, uintptr(regs.Rdi)))
							storage = under(path)
						case "unlinkat", "renameat", "renameat2":
							path = absPath(pid, int64(regs.Rdi), readString(wpid, uintptr(regs.Rsi)))
							storage = under(path)
						case "open":
							path = absPath(pid, -100, readString(wpid, uintptr(regs.Rdi)))
							storage = under(path) && regs.Rsi&(syscall.O_CREAT|syscall.O_TRUNC) != 0
						case "openat":
							path = absPath(pid, int64(regs.Rdi), readString(wpid, uintptr(regs.Rsi)))
							storage = under(path) && regs.Rdx&(syscall.O_CREAT|syscall.O_TRUNC) != 0
						}
						if storage {
							count++
							if lg != nil {
								b, _ := json.Marshal(map[string]any{"n": count, "call": name, "path": strings.TrimPrefix(path, prefix), "len": ln})
								lg.Write(append(b, '\n'))
							}
							if *kill > 0 && count == *kill {
								killed = true
								_ = syscall.Kill(pid, syscall.SIGKILL)
							}
						}
					}
				}
			}
			_ = syscall.PtraceSyscall(wpid, 0)
		case sig == syscall.SIGTRAP && ws.TrapCause() > 0:
			_ = syscall.PtraceSyscall(wpid, 0) // clone / fork / vfork event
		case sig == syscall.SIGSTOP && first:
			_ = syscall.PtraceSyscall(wpid, 0) // first stop of an auto-attached thread
		default:
			_ = syscall.PtraceSyscall(wpid, int(sig))
		}
	}
	if lg != nil {
		b, _ := json.Marshal(map[string]any{"end": true, "count": count, "killed": killed, "status": mainStatus, "signaled": mainSignaled})
		lg.Write(append(b, '\n'))
		lg.Close()
	}
	switch {
	case killed:
		os.Exit(9)
	case mainStatus == 0:
		os.Exit(0)
	default:
		os.Exit(3)
	}
}

// permdrv runs permission cases against the real static checker (checker level) and against the real
// handlers/services (service level), writing NDJSON results.
package main

import (
	"context"
	"encoding/json"
	"flag"
	"fmt"
	"os"

	"verifharness/world"
)

type input struct {
	CheckCases []world.CheckCase     `json:"check_cases"`
	Scenarios  []*world.PermScenario `json:"scenarios"`
}

func main() {
	in := flag.String("scenarios", "", "JSON input file")
	out := flag.String("out", "", "NDJSON output file")
	dirk := flag.String("dirk", "", "path of a dirk binary: the service-level scenarios are sent to the real program, whose configuration file carries the permission entries")
	flag.Parse()
	data, err := os.ReadFile(*in)
	if err != nil {
		fmt.Fprintln(os.Stderr, err)
		os.Exit(2)
	}
	var inp input
	if err := json.Unmarshal(data, &inp); err != nil {
		fmt.Fprintln(os.Stderr, "parse:", err)
		os.Exit(2)
	}
	w, err := os.OpenFile(*out, os.O_CREATE|os.O_WRONLY|os.O_TRUNC, 0o644)
	if err != nil {
		fmt.Fprintln(os.Stderr, err)
		os.Exit(2)
	}
	ctx := context.Background()
	log := world.NewLog(w)
	// make sure BLS etc. are initialised and logging is off even for checker-only runs
	if _, err := world.PubKeysHex(1); err != nil {
		fmt.Fprintln(os.Stderr, err)
		os.Exit(2)
	}
	world.Quiet()
	enc := json.NewEncoder(w)
	if err := world.RunCheckCases(ctx, inp.CheckCases, enc); err != nil {
		fmt.Fprintln(os.Stderr, err)
		os.Exit(2)
	}
	for _, sc := range inp.Scenarios {
		if err := world.RunPermScenarioOn(ctx, sc, log, *dirk); err != nil {
			log.Emit(world.Ev{"ev": "DriverError", "sc": sc.ID, "err": err.Error()})
			fmt.Fprintln(os.Stderr, "scenario", sc.ID, "failed:", err)
			os.Exit(2)
		}
	}
}

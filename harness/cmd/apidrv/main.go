// apidrv starts the repository's real gRPC API service on 127.0.0.1 (TLS material minted on the spot) and performs
// the calls of a JSON plan over real connections, one credential kind after the other; NDJSON results to -out.
package main

import (
	"strings"
	"context"
	"encoding/json"
	"flag"
	"fmt"
	"os"

	"verifharness/world"
)

type plan struct {
	Calls []world.APICall   `json:"calls"`
	ServerMode string       `json:"server_mode"`
	Storm      *struct {
		Workers   int             `json:"workers"`
		Generates int             `json:"generates"`
		Msgs      []world.FuzzMsg `json:"msgs"`
	} `json:"storm"`
	Fuzz  []world.FuzzMsg   `json:"fuzz"`
	// ListRaceMs > 0: for that long clients c1 and c2 (each may list its own wallet only) send the SAME listings at the same time
	ListRaceMs int `json:"list_race_ms"`
}

func main() {
	dirk := flag.String("dirk", "", "path of a dirk binary: serve the calls from the real program (its own configuration reading and wiring) instead of the in-process service")
	in := flag.String("scenarios", "", "JSON plan")
	out := flag.String("out", "", "NDJSON output file")
	flag.Parse()
	data, err := os.ReadFile(*in)
	if err != nil {
		fmt.Fprintln(os.Stderr, err)
		os.Exit(2)
	}
	var p plan
	if err := json.Unmarshal(data, &p); err != nil {
		fmt.Fprintln(os.Stderr, "parse:", err)
		os.Exit(2)
	}
	w, err := os.OpenFile(*out, os.O_CREATE|os.O_WRONLY|os.O_TRUNC, 0o644)
	if err != nil {
		fmt.Fprintln(os.Stderr, err)
		os.Exit(2)
	}
	log := world.NewLog(w)
	ctx := context.Background()
	world.Quiet()
	var srv *world.APIServer
	if *dirk != "" {
		srv, err = world.StartExternalDirk(ctx, world.NewLog(nil), p.ServerMode, *dirk)
	} else {
		srv, err = world.StartAPIServerMode(ctx, world.NewLog(nil), p.ServerMode)
	}
	if err != nil {
		fmt.Fprintln(os.Stderr, "server:", err)
		os.Exit(2)
	}
	log.Emit(world.Ev{"ev": "Begin", "sc": "api", "addr": srv.Addr})
	conns := map[string]interface{ Close() error }{}
	for _, c := range p.Calls {
		conn, err := srv.Dial(ctx, c.Cred)
		if err != nil && strings.HasPrefix(err.Error(), "ticket:") {
			fmt.Fprintln(os.Stderr, "credential could not be prepared:", err)
			os.Exit(2)
		}
		if err != nil {
			log.Emit(world.Ev{"ev": "ApiCall", "id": c.ID, "cred": c.Cred, "method": c.Method, "target": c.Target, "outcome": "transport", "data": false, "detail": "dial: " + err.Error()})
			continue
		}
		log.Emit(srv.DoCall(ctx, conn, c))
		_ = conn.Close()
	}
	_ = conns
	if len(p.Fuzz) > 0 {
		if err := srv.RunFuzz(ctx, p.Fuzz, log); err != nil {
			fmt.Fprintln(os.Stderr, "fuzz:", err)
			fmt.Fprintln(os.Stderr, srv.ExternalStderr())
			os.Exit(4) // the server stopped answering (exit 2 is what a Go panic of this very process gives)
		}
	}
	if p.ListRaceMs > 0 {
		srv.RunListRace(ctx, p.ListRaceMs, log)
	}
	if p.Storm != nil {
		if err := srv.RunStorm(ctx, p.Storm.Msgs, p.Storm.Workers, p.Storm.Generates, log); err != nil {
			fmt.Fprintln(os.Stderr, "storm:", err)
			fmt.Fprintln(os.Stderr, srv.ExternalStderr())
			os.Exit(3)
		}
	}
	log.Emit(world.Ev{"ev": "End", "sc": "api"})
	srv.Stop(ctx)
}

// dirkdrv runs scenarios (JSON) against an in-process Dirk built from /repo and writes one NDJSON
// event per specification action to stdout (unbuffered, so nothing emitted is lost on SIGKILL).
package main

import (
	"context"
	"encoding/json"
	"flag"
	"fmt"
	"os"

	"verifharness/world"
)

func main() {
	in := flag.String("scenarios", "", "JSON file with a list of scenarios (default: stdin)")
	out := flag.String("out", "", "NDJSON output file (default: stdout)")
	dirk := flag.String("dirk", "", "path of a dirk binary: run the scenarios against the real program over TLS (ops att/atts/prop/gen/multi/restart, kill_after_us)")
	npk := flag.Int("pubkeys", 0, "print the public keys of the first n deterministic accounts as a JSON list and exit")
	flag.Parse()
	if *npk > 0 {
		out, err := world.PubKeysHex(*npk)
		if err != nil {
			fmt.Fprintln(os.Stderr, err)
			os.Exit(2)
		}
		b, _ := json.Marshal(out)
		fmt.Println(string(b))
		return
	}
	var data []byte
	var err error
	if *in == "" {
		data, err = readAll(os.Stdin)
	} else {
		data, err = os.ReadFile(*in)
	}
	if err != nil {
		fmt.Fprintln(os.Stderr, "read:", err)
		os.Exit(2)
	}
	var scs []*world.Scenario
	if err := json.Unmarshal(data, &scs); err != nil {
		fmt.Fprintln(os.Stderr, "parse:", err)
		os.Exit(2)
	}
	w := os.Stdout
	if *out != "" {
		if w, err = os.OpenFile(*out, os.O_CREATE|os.O_WRONLY|os.O_TRUNC, 0o644); err != nil {
			fmt.Fprintln(os.Stderr, "open:", err)
			os.Exit(2)
		}
	}
	log := world.NewLog(w)
	r := world.NewRunner(log)
	ctx := context.Background()
	for _, sc := range scs {
		run := r.Run
		if *dirk != "" {
			run = func(ctx context.Context, sc *world.Scenario) error { return r.RunRemote(ctx, sc, *dirk) }
		}
		if err := run(ctx, sc); err != nil {
			log.Emit(world.Ev{"ev": "DriverError", "sc": sc.ID, "err": err.Error()})
			fmt.Fprintln(os.Stderr, "scenario", sc.ID, "failed:", err)
			os.Exit(2)
		}
	}
}

func readAll(f *os.File) ([]byte, error) {
	var buf []byte
	tmp := make([]byte, 1<<16)
	for {
		n, err := f.Read(tmp)
		buf = append(buf, tmp[:n]...)
		if err != nil {
			if err.Error() == "EOF" {
				return buf, nil
			}
			return buf, err
		}
	}
}

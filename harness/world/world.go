package world

import (
	standardprocess "github.com/attestantio/dirk/services/process/standard"
	"github.com/herumi/bls-eth-go-binary/bls"
	"github.com/attestantio/dirk/util"
	pb "github.com/wealdtech/eth2-signer-api/pb/v1"
	"context"
	"crypto/sha256"
	"encoding/hex"
	"fmt"
	"os"
	"sync"
	"syscall"

	standardrules "github.com/attestantio/dirk/rules/standard"
	"github.com/attestantio/dirk/rules"
	standardaccountmanager "github.com/attestantio/dirk/services/accountmanager/standard"
	accountmanagerhandler "github.com/attestantio/dirk/services/api/grpc/handlers/accountmanager"
	listerhandler "github.com/attestantio/dirk/services/api/grpc/handlers/lister"
	signerhandler "github.com/attestantio/dirk/services/api/grpc/handlers/signer"
	walletmanagerhandler "github.com/attestantio/dirk/services/api/grpc/handlers/walletmanager"
	"github.com/attestantio/dirk/services/checker"
	staticchecker "github.com/attestantio/dirk/services/checker/static"
	"github.com/attestantio/dirk/services/fetcher"
	memfetcher "github.com/attestantio/dirk/services/fetcher/mem"
	standardlister "github.com/attestantio/dirk/services/lister/standard"
	syncmaplocker "github.com/attestantio/dirk/services/locker/syncmap"
	"github.com/attestantio/dirk/services/process"
	"github.com/attestantio/dirk/services/ruler"
	goruler "github.com/attestantio/dirk/services/ruler/golang"
	standardsigner "github.com/attestantio/dirk/services/signer/standard"
	"github.com/attestantio/dirk/services/unlocker"
	localunlocker "github.com/attestantio/dirk/services/unlocker/local"
	standardwalletmanager "github.com/attestantio/dirk/services/walletmanager/standard"
	"github.com/attestantio/dirk/util/verifhook"
	"github.com/rs/zerolog"
	e2types "github.com/wealdtech/go-eth2-types/v2"
	distributed "github.com/wealdtech/go-eth2-wallet-distributed"
	keystorev4 "github.com/wealdtech/go-eth2-wallet-encryptor-keystorev4"
	nd "github.com/wealdtech/go-eth2-wallet-nd/v2"
	filesystem "github.com/wealdtech/go-eth2-wallet-store-filesystem"
	scratch "github.com/wealdtech/go-eth2-wallet-store-scratch"
	e2wtypes "github.com/wealdtech/go-eth2-wallet-types/v2"
)

// AccountSpec describes one account of a wallet.
type AccountSpec struct {
	Name   string `json:"name"`
	KeyIdx int    `json:"key"` // index into the deterministic key list; abstract name "k<idx>"
	Pass   string `json:"pass"` // this account's passphrase (default: the world's)
}

// WalletSpec describes one wallet.
type WalletSpec struct {
	Name     string        `json:"name"`
	Type     string        `json:"type"` // "nd" (default) or "distributed"
	Accounts []AccountSpec `json:"accounts"`
}

// Perm is one permission entry.
type Perm struct {
	Path string   `json:"path"`
	Ops  []string `json:"ops"`
}

// ClientPerms is the ordered permission list of one client.
type ClientPerms struct {
	Client string `json:"client"`
	Perms  []Perm `json:"perms"`
}

// Spec describes a world.
type Spec struct {
	NKeys      int           `json:"nkeys"`   // shorthand: wallet "W1" with accounts a0..a(n-1) = keys k0..
	Wallets    []WalletSpec  `json:"wallets"` // explicit layout (overrides NKeys)
	Perms      []ClientPerms `json:"perms"`   // default: client "c1" may do All on every wallet
	AdminIPs   []string      `json:"admin_ips"`
	Dist       int           `json:"dist"` // with NKeys: every Dist-th key (i % Dist == Dist-1) is a distributed account in wallet DW1
	WalletDir  string        `json:"wallet_dir"` // filesystem wallet store if set, else in-memory
	Passphrase string        `json:"passphrase"` // account passphrase (default "pass")
	// UnlockerPassphrases defaults to [Passphrase].
	UnlockerPassphrases []string `json:"unlocker_passphrases"`
	// Tag is not used by anything: two specs that differ in it get two separate instances (fresh wallets, every account still locked).
	Tag string `json:"tag,omitempty"`
}

// SecretKey returns the deterministic private key number i (always below the group order).
func SecretKey(i int) []byte {
	h := sha256.Sum256([]byte(fmt.Sprintf("verif-dirk-key-%d", i)))
	h[0] = 0
	return h[:]
}

// Base is the part of a world that does not depend on the slashing database.
type Base struct {
	Spec      Spec
	Log       *Log
	Ctl       *Control
	Names     *Names
	Store     e2wtypes.Store
	Encryptor e2wtypes.Encryptor
	Fetcher   fetcher.Service // wrapped
	RawFetch  *memfetcher.Service
	Unlocker  unlocker.Service // wrapped
	Checker   checker.Service  // wrapped
	// PubKeys maps abstract key name -> public key bytes; Paths maps it to "wallet/account".
	PubKeys map[string][]byte
	Paths   map[string]string
	g       *gmap
	// run-time account creation (scenario op "create" and arrivals)
	solo     *standardprocess.Service
	createMu sync.Mutex
}

var blsOnce sync.Once
var markFile *os.File

// NewBase builds wallets, fetcher, checker and unlocker.
func NewBase(ctx context.Context, spec Spec, log *Log, ctl *Control) (*Base, error) {
	zerolog.SetGlobalLevel(zerolog.Disabled)
	var err error
	blsOnce.Do(func() { err = e2types.InitBLS() })
	if err != nil {
		return nil, err
	}
	if spec.Passphrase == "" {
		spec.Passphrase = "pass"
	}
	if spec.UnlockerPassphrases == nil {
		spec.UnlockerPassphrases = []string{spec.Passphrase}
	}
	if len(spec.Wallets) == 0 {
		w := WalletSpec{Name: "W1", Type: "nd"}
		dw := WalletSpec{Name: "DW1", Type: "distributed"}
		for i := 0; i < spec.NKeys; i++ {
			if spec.Dist > 0 && i%spec.Dist == spec.Dist-1 {
				// every Dist-th key belongs to a DISTRIBUTED account (a share of a threshold key with a composite key next to it)
				dw.Accounts = append(dw.Accounts, AccountSpec{Name: fmt.Sprintf("a%d", i), KeyIdx: i})
				continue
			}
			w.Accounts = append(w.Accounts, AccountSpec{Name: fmt.Sprintf("a%d", i), KeyIdx: i})
		}
		spec.Wallets = []WalletSpec{w}
		if len(dw.Accounts) > 0 {
			spec.Wallets = append(spec.Wallets, dw)
		}
	}
	b := &Base{Spec: spec, Log: log, Ctl: ctl, Names: &Names{KeyName: map[string]string{}},
		PubKeys: map[string][]byte{}, Paths: map[string]string{}, g: &gmap{}}
	if spec.WalletDir != "" {
		b.Store = filesystem.New(filesystem.WithLocation(spec.WalletDir))
	} else {
		b.Store = scratch.New()
	}
	b.Encryptor = keystorev4.New(keystorev4.WithCipher("pbkdf2"))

	for _, ws := range spec.Wallets {
		switch ws.Type {
		case "distributed":
			if _, err := distributed.OpenWallet(ctx, ws.Name, b.Store, b.Encryptor); err == nil {
				continue
			}
			dwal, err := distributed.CreateWallet(ctx, ws.Name, b.Store, b.Encryptor)
			if err != nil {
				return nil, fmt.Errorf("create wallet %s: %w", ws.Name, err)
			}
			if len(ws.Accounts) > 0 {
				if err := dwal.(e2wtypes.WalletLocker).Unlock(ctx, nil); err != nil {
					return nil, err
				}
				for _, as := range ws.Accounts {
					// the share of participant 1 of a 2-of-3 key whose polynomial is fixed by the key index
					var s0, s1, share bls.SecretKey
					if err := s0.Deserialize(SecretKey(as.KeyIdx)); err != nil {
						return nil, err
					}
					if err := s1.Deserialize(SecretKey(as.KeyIdx + 500000)); err != nil {
						return nil, err
					}
					if err := share.Set([]bls.SecretKey{s0, s1}, util.BLSID(1)); err != nil {
						return nil, err
					}
					apass := spec.Passphrase
					if as.Pass != "" {
						apass = as.Pass
					}
					if _, err := dwal.(e2wtypes.WalletDistributedAccountImporter).ImportDistributedAccount(ctx, as.Name, share.Serialize(), 2,
						[][]byte{s0.GetPublicKey().Serialize(), s1.GetPublicKey().Serialize()}, map[uint64]string{1: "signer-1:10001", 2: "signer-2:10002", 3: "signer-3:10003"}, []byte(apass)); err != nil {
						return nil, fmt.Errorf("import %s/%s: %w", ws.Name, as.Name, err)
					}
				}
				_ = dwal.(e2wtypes.WalletLocker).Lock(ctx)
			}
		default:
			var w e2wtypes.Wallet
			if w, err = nd.OpenWallet(ctx, ws.Name, b.Store, b.Encryptor); err != nil {
				if w, err = nd.CreateWallet(ctx, ws.Name, b.Store, b.Encryptor); err != nil {
					return nil, fmt.Errorf("create wallet %s: %w", ws.Name, err)
				}
			}
			if err := w.(e2wtypes.WalletLocker).Unlock(ctx, nil); err != nil {
				return nil, err
			}
			for _, as := range ws.Accounts {
				if _, err := w.(e2wtypes.WalletAccountByNameProvider).AccountByName(ctx, as.Name); err == nil {
					continue
				}
				apass := spec.Passphrase
				if as.Pass != "" {
					apass = as.Pass
				}
				if _, err := w.(e2wtypes.WalletAccountImporter).ImportAccount(ctx, as.Name, SecretKey(as.KeyIdx), []byte(apass)); err != nil {
					return nil, fmt.Errorf("import %s/%s: %w", ws.Name, as.Name, err)
				}
			}
			_ = w.(e2wtypes.WalletLocker).Lock(ctx)
		}
	}

	raw, err := memfetcher.New(ctx, memfetcher.WithStores([]e2wtypes.Store{b.Store}), memfetcher.WithEncryptor(b.Encryptor))
	if err != nil {
		return nil, err
	}
	b.RawFetch = raw
	for _, ws := range spec.Wallets {
		for _, as := range ws.Accounts {
			path := ws.Name + "/" + as.Name
			_, a, err := raw.FetchAccount(ctx, path)
			if err != nil {
				return nil, fmt.Errorf("fetch %s: %w", path, err)
			}
			kn := fmt.Sprintf("k%d", as.KeyIdx)
			pk := a.PublicKey().Marshal()
			if ws.Type != "distributed" {
				// the key of abstract name k<i> is derived from the secret the account was imported with - NOT from what a lookup by
				// name returns (a lookup that resolves the name to a neighbour would otherwise teach the oracle the neighbour's key)
				if sk, kerr := e2types.BLSPrivateKeyFromBytes(SecretKey(as.KeyIdx)); kerr == nil {
					pk = sk.PublicKey().Marshal()
				}
			}
			b.PubKeys[kn] = pk
			b.Paths[kn] = path
			b.Names.KeyName[hex.EncodeToString(pk)] = kn
		}
	}
	b.Fetcher = &fetcherW{Service: raw, c: ctl, names: b.Names}

	ul, err := localunlocker.New(ctx,
		localunlocker.WithWalletPassphrases(spec.UnlockerPassphrases),
		localunlocker.WithAccountPassphrases(spec.UnlockerPassphrases))
	if err != nil {
		return nil, err
	}
	b.Unlocker = &unlockerW{in: ul, c: ctl}

	perms := map[string][]*checker.Permissions{}
	if len(spec.Perms) == 0 {
		for _, ws := range spec.Wallets {
			perms["c1"] = append(perms["c1"], &checker.Permissions{Path: ws.Name, Operations: []string{"All"}})
		}
	}
	for _, cp := range spec.Perms {
		for _, p := range cp.Perms {
			perms[cp.Client] = append(perms[cp.Client], &checker.Permissions{Path: p.Path, Operations: p.Ops})
		}
	}
	ck, err := staticchecker.New(ctx, staticchecker.WithPermissions(perms))
	if err != nil {
		return nil, fmt.Errorf("checker: %w", err)
	}
	b.Checker = &checkerW{in: ck, c: ctl}
	return b, nil
}

// Stack is the part of a world built on one slashing database directory.
// SignerAPI is the signing surface of a Dirk instance: the in-process gRPC handler, or a gRPC client of the real binary.
type SignerAPI interface {
	Sign(ctx context.Context, req *pb.SignRequest) (*pb.SignResponse, error)
	Multisign(ctx context.Context, req *pb.MultisignRequest) (*pb.MultisignResponse, error)
	SignBeaconAttestation(ctx context.Context, req *pb.SignBeaconAttestationRequest) (*pb.SignResponse, error)
	SignBeaconAttestations(ctx context.Context, req *pb.SignBeaconAttestationsRequest) (*pb.MultisignResponse, error)
	SignBeaconProposal(ctx context.Context, req *pb.SignBeaconProposalRequest) (*pb.SignResponse, error)
}

type Stack struct {
	B        *Base
	Sig      SignerAPI
	Rules    *standardrules.Service
	RulesW   rules.Service
	Signer   *standardsigner.Service
	SignerH  *signerhandler.Handler
	ListerH  *listerhandler.Handler
	AcctH    *accountmanagerhandler.Handler
	WalletH  *walletmanagerhandler.Handler
	Lister   *standardlister.Service
	Ruler    ruler.Service
	cancel   context.CancelFunc
	StoreDir string
}

// NewStack opens the slashing database in dir and wires the signing stack on top of it.
func NewStack(ctx context.Context, b *Base, dir string, proc process.Service) (*Stack, error) {
	sctx, cancel := context.WithCancel(ctx)
	st := &Stack{B: b, cancel: cancel, StoreDir: dir}
	rs, err := standardrules.New(sctx, standardrules.WithStoragePath(dir), standardrules.WithAdminIPs(b.Spec.AdminIPs))
	if err != nil {
		cancel()
		return nil, fmt.Errorf("rules: %w", err)
	}
	st.Rules = rs
	st.RulesW = &rulesW{Service: rs, c: b.Ctl, names: b.Names}
	lk, err := syncmaplocker.New(sctx)
	if err != nil {
		return nil, err
	}
	rl, err := goruler.New(sctx, goruler.WithLocker(&lockerW{in: lk, c: b.Ctl, g: b.g, names: b.Names}), goruler.WithRules(st.RulesW))
	if err != nil {
		return nil, err
	}
	rw := &rulerW{in: rl, c: b.Ctl, g: b.g}
	st.Ruler = rw
	sg, err := standardsigner.New(sctx, standardsigner.WithUnlocker(b.Unlocker), standardsigner.WithChecker(b.Checker),
		standardsigner.WithFetcher(b.Fetcher), standardsigner.WithRuler(rw))
	if err != nil {
		return nil, err
	}
	st.Signer = sg
	if st.SignerH, err = signerhandler.New(sctx, signerhandler.WithSigner(sg)); err != nil {
		return nil, err
	}
	st.Sig = st.SignerH
	ls, err := standardlister.New(sctx, standardlister.WithFetcher(b.Fetcher), standardlister.WithChecker(b.Checker), standardlister.WithRuler(rw))
	if err != nil {
		return nil, err
	}
	st.Lister = ls
	if st.ListerH, err = listerhandler.New(sctx, listerhandler.WithLister(ls)); err != nil {
		return nil, err
	}
	if proc != nil {
		am, err := standardaccountmanager.New(sctx, standardaccountmanager.WithUnlocker(b.Unlocker), standardaccountmanager.WithChecker(b.Checker),
			standardaccountmanager.WithFetcher(b.Fetcher), standardaccountmanager.WithRuler(rw), standardaccountmanager.WithProcess(proc))
		if err != nil {
			return nil, err
		}
		if st.AcctH, err = accountmanagerhandler.New(sctx, accountmanagerhandler.WithAccountManager(am), accountmanagerhandler.WithProcess(proc)); err != nil {
			return nil, err
		}
		wm, err := standardwalletmanager.New(sctx, standardwalletmanager.WithUnlocker(b.Unlocker), standardwalletmanager.WithChecker(b.Checker),
			standardwalletmanager.WithFetcher(b.Fetcher), standardwalletmanager.WithRuler(rw))
		if err != nil {
			return nil, err
		}
		if st.WalletH, err = walletmanagerhandler.New(sctx, walletmanagerhandler.WithWalletManager(wm), walletmanagerhandler.WithProcess(proc)); err != nil {
			return nil, err
		}
	}
	return st, nil
}

// Close closes the slashing database (as a clean shutdown does).
func (s *Stack) Close(ctx context.Context) error {
	err := s.Rules.Close(ctx)
	return err
}

// InstallHook routes the repository's verif observation points into the control block and log.
// decode turns a stored record into trace fields.
func InstallHook(b *Base, decode func(key, val []byte) Ev) {
	markFd := -1
	if os.Getenv("VERIF_MARKERS") != "" {
		if f, err := os.OpenFile("/dev/null", os.O_WRONLY, 0); err == nil {
			markFd = int(f.Fd())
			markFile = f // keep it alive
		}
	}
	verifhook.Hook = func(ctx context.Context, site string, key []byte, val []byte) error {
		if site == "store.open" {
			return nil // only of interest to the file tracer (repository tests as trace sources)
		}
		rid := Rid(ctx)
		var k string
		if len(key) >= 48 {
			k = b.Names.key(key[:48])
		}
		if markFd >= 0 {
			// One write system call per passage: shows up in the strace output between the database's own calls.
			_, _ = syscall.Write(markFd, []byte(fmt.Sprintf("VERIFMARK %s %s %s\n", site, rid, k)))
		}
		kind := b.Ctl.Point(rid, site, k)
		ev := Ev{"r": rid, "k": k, "site": site}
		switch site {
		case "store.fetch.exit":
			ev["ev"] = "Fetch"
			for kk, vv := range decode(key, val) {
				ev[kk] = vv
			}
		case "store.store.exit", "store.batch.exit":
			ev["ev"] = "Store"
			for kk, vv := range decode(key, val) {
				ev[kk] = vv
			}
		case "sign.enter":
			ev["ev"] = "SignEnter"
		case "sign.exit":
			ev["ev"] = "SignExit"
		default:
			ev["ev"] = "Hook"
		}
		if kind != "" {
			ev["fault"] = kind
		}
		b.Log.Emit(ev)
		if kind == "error" {
			return ErrInjected
		}
		return nil
	}
}

// PubKeysHex returns the hex public keys of the first n deterministic accounts.
func PubKeysHex(n int) ([]string, error) {
	var err error
	blsOnce.Do(func() { err = e2types.InitBLS() })
	if err != nil {
		return nil, err
	}
	out := make([]string, n)
	for i := 0; i < n; i++ {
		sk, err := e2types.BLSPrivateKeyFromBytes(SecretKey(i))
		if err != nil {
			return nil, err
		}
		out[i] = hex.EncodeToString(sk.PublicKey().Marshal())
	}
	return out, nil
}

// Quiet disables the repository's logging.
func Quiet() { zerolog.SetGlobalLevel(zerolog.Disabled) }

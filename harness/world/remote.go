package world

import (
	"google.golang.org/grpc/codes"
	"google.golang.org/grpc/status"
	"sync/atomic"
	"context"
	"encoding/hex"
	"encoding/json"
	"fmt"
	"net"
	"os"
	"os/exec"
	"path/filepath"
	"sort"
	"strings"
	"sync"
	"crypto/tls"
	"crypto/x509"
	"time"

	"github.com/attestantio/dirk/util"
	"github.com/herumi/bls-eth-go-binary/bls"
	pb "github.com/wealdtech/eth2-signer-api/pb/v1"
	"google.golang.org/grpc"
)

// ExternalEnv is everything the SHIPPED PROGRAM needs on disk plus the running process: wallets (filesystem store), certificate
// and passphrase files, dirk.yml.  Start / Kill can be repeated: a restart is a new process on the same directories.
type ExternalEnv struct {
	Dir    string
	Addr   string
	PKI    *PKI
	Other  *PKI
	Binary string
	B      *Base // the world that was written to the wallet store (names, keys); no service of it is used
	Spec   Spec
	ID     uint64
	// TraceFile: when the binary was built with the verif tag, its storage observation points are appended here (VERIF_TRACE_FILE)
	TraceFile string
	proc      *exec.Cmd
	exited    chan struct{} // closed when the process has been reaped
}

// watchProc reaps the process in the background; the channel is closed when it has exited.
func watchProc(cmd *exec.Cmd) chan struct{} {
	ch := make(chan struct{})
	go func() { _ = cmd.Wait(); close(ch) }()
	return ch
}

func hasExited(ch chan struct{}) bool {
	select {
	case <-ch:
		return true
	default:
		return false
	}
}

// waitOurServer waits until the process just started serves TLS on addr WITH A CERTIFICATE OF THIS ENVIRONMENT.  (The free port was
// chosen a moment before the program binds it; on a busy machine another process - a node of a scenario running in parallel - can take
// it in between.  The program then exits, and whatever answers on that address is not the system under test.)
func waitOurServer(addr string, exited chan struct{}, stderrPath string, pkis ...*PKI) error {
	deadline := time.Now().Add(30 * time.Second)
	stderr := func() string { out, _ := os.ReadFile(stderrPath); return string(out) }
	for {
		if hasExited(exited) {
			return fmt.Errorf("the dirk binary exited during start-up (%s): %s", addr, stderr())
		}
		c, err := tls.DialWithDialer(&net.Dialer{Timeout: 500 * time.Millisecond}, "tcp", addr, &tls.Config{InsecureSkipVerify: true, MinVersion: tls.VersionTLS13}) //nolint:gosec
		if err == nil {
			certs := c.ConnectionState().PeerCertificates
			_ = c.Close()
			for _, p := range pkis {
				if p == nil || len(certs) == 0 {
					continue
				}
				pool := x509.NewCertPool()
				pool.AddCert(p.CACert)
				inter := x509.NewCertPool()
				for _, ic := range certs[1:] {
					inter.AddCert(ic)
				}
				if _, verr := certs[0].Verify(x509.VerifyOptions{Roots: pool, Intermediates: inter, KeyUsages: []x509.ExtKeyUsage{x509.ExtKeyUsageAny}}); verr == nil {
					if hasExited(exited) {
						return fmt.Errorf("the dirk binary exited during start-up (%s): %s", addr, stderr())
					}
					return nil
				}
			}
			return fmt.Errorf("address %s is served by a process that is not the one just started (certificate of another authority)", addr)
		}
		if time.Now().After(deadline) {
			return fmt.Errorf("the dirk binary did not start listening on %s: %v: %s", addr, err, stderr())
		}
		time.Sleep(20 * time.Millisecond)
	}
}

// Node describes one instance of a cluster of real binaries.
type Node struct {
	ID    uint64
	Name  string            // server name = certificate subject = peer name (an IP literal works without name resolution)
	Addr  string            // listen address host:port ("" = 127.0.0.1 with a free port)
	Peers map[uint64]string // id -> name:port, this instance included ("" = itself and a fictitious signer-2)
	PKI   *PKI              // shared authority of the cluster (nil = a fresh one)
	Other *PKI
	GenTimeout string       // process.generation-timeout ("" = 10s)
}

// FreeAddr returns host:port with a currently free port on host.
// The port is not taken from the kernel's ephemeral range (where it could be handed to somebody else between this probe and the
// moment the program binds it - several checks may run on the machine at once) but from a range below it, walked from a start
// that depends on this process.
func FreeAddr(host string) (string, error) {
	for try := 0; try < 200; try++ {
		n := atomic.AddInt64(&freeAddrCounter, 1)
		port := 10000 + int((int64(os.Getpid())*131+n*7)%20000)
		l, err := net.Listen("tcp", fmt.Sprintf("%s:%d", host, port))
		if err != nil {
			continue
		}
		addr := l.Addr().String()
		_ = l.Close()
		return addr, nil
	}
	l, err := net.Listen("tcp", host+":0")
	if err != nil {
		return "", err
	}
	addr := l.Addr().String()
	_ = l.Close()
	return addr, nil
}

var freeAddrCounter int64

// PrepareExternal writes wallets, certificates and configuration; perms: client -> wallet -> operations.
func PrepareExternal(ctx context.Context, log *Log, mode, binary string, spec Spec, perms map[string]map[string]string) (*ExternalEnv, error) {
	return PrepareExternalNode(ctx, log, mode, binary, spec, perms, Node{ID: 1, Name: "signer-1"})
}

// PrepareExternalNode is PrepareExternal for one node of a cluster.
func PrepareExternalNode(ctx context.Context, log *Log, mode, binary string, spec Spec, perms map[string]map[string]string, node Node) (*ExternalEnv, error) {
	pki, other := node.PKI, node.Other
	var err error
	if _, err = HostTrust(); err != nil {
		return nil, err
	}
	if pki == nil {
		if pki, err = NewPKI("verif CA"); err != nil {
			return nil, err
		}
	}
	if other == nil {
		if other, err = NewPKI("another CA"); err != nil {
			return nil, err
		}
	}
	base, err := os.MkdirTemp("", "dirkbase")
	if err != nil {
		return nil, err
	}
	wallets := filepath.Join(base, "wallets")
	spec.WalletDir = wallets
	b, err := NewBase(ctx, spec, log, NewControl(log))
	if err != nil {
		return nil, err
	}
	issuer := pki
	if mode == "foreignchain" {
		issuer = other
	}
	sder, skey, err := issuer.Issue(node.Name, true, false, false)
	if err != nil {
		return nil, err
	}
	serverPEM := certPEM(sder)
	if mode == "samechain" || mode == "foreignchain" {
		serverPEM = append(append([]byte{}, serverPEM...), issuer.CAPEM...)
	}
	addr := node.Addr
	if addr == "" {
		if addr, err = FreeAddr("127.0.0.1"); err != nil {
			return nil, err
		}
	}
	pass := b.Spec.Passphrase
	files := map[string][]byte{"server.crt": serverPEM, "server.key": keyPEM(skey), "ca.crt": pki.CAPEM, "pass.txt": []byte(pass)}
	for n, data := range files {
		if err := os.WriteFile(filepath.Join(base, n), data, 0o600); err != nil {
			return nil, err
		}
	}
	_, port, _ := net.SplitHostPort(addr)
	peers := node.Peers
	if peers == nil {
		peers = map[uint64]string{node.ID: node.Name + ":" + port, node.ID + 1: "signer-2:9092"}
	}
	var pp strings.Builder
	pids := make([]uint64, 0, len(peers))
	for id := range peers {
		pids = append(pids, id)
	}
	sort.Slice(pids, func(i, j int) bool { return pids[i] < pids[j] })
	for _, id := range pids {
		fmt.Fprintf(&pp, "  %d: %s\n", id, peers[id])
	}
	var pb strings.Builder
	clients := make([]string, 0, len(perms))
	for c := range perms {
		clients = append(clients, c)
	}
	sort.Strings(clients)
	for _, c := range clients {
		fmt.Fprintf(&pb, "  %s:\n", c)
		ws := make([]string, 0, len(perms[c]))
		for w := range perms[c] {
			ws = append(ws, w)
		}
		sort.Strings(ws)
		for _, w := range ws {
			fmt.Fprintf(&pb, "    '%s': %s\n", strings.ReplaceAll(w, "'", "''"), perms[c][w]) // the path is a YAML key: quoted, it may be a regular expression
		}
	}
	genTimeout := node.GenTimeout
	if genTimeout == "" {
		genTimeout = "10s"
	}
	adminBlock := ""
	if len(spec.AdminIPs) > 0 {
		// server.rules.admin-ips: the source addresses from which voluntary exits may be signed through the generic endpoint
		adminBlock = "\n  rules:\n    admin-ips:"
		for _, ip := range spec.AdminIPs {
			adminBlock += "\n    - '" + ip + "'"
		}
	}
	lvl := os.Getenv("VERIF_DIRK_LOGLEVEL") // development aid
	if lvl == "" {
		lvl = "warn"
	}
	cfg := fmt.Sprintf(`log-level: `+lvl+`
server:
  id: %d
  name: %s
  listen-address: %s%s
certificates:
  server-cert: file://%s/server.crt
  server-key: file://%s/server.key
  ca-cert: file://%s/ca.crt
storage-path: %s/storage
stores:
- name: Local
  type: filesystem
  location: %s
peers:
%sunlocker:
  wallet-passphrases:
  - file://%s/pass.txt
  account-passphrases:
  - file://%s/pass.txt
process:
  generation-passphrase: file://%s/pass.txt
  generation-timeout: %s
permissions:
%s`, node.ID, node.Name, addr, adminBlock, base, base, base, base, wallets, pp.String(), base, base, base, genTimeout, pb.String())
	if err := os.WriteFile(filepath.Join(base, "dirk.yml"), []byte(cfg), 0o600); err != nil {
		return nil, err
	}
	return &ExternalEnv{Dir: base, Addr: addr, PKI: pki, Other: other, Binary: binary, B: b, Spec: spec, ID: node.ID}, nil
}

// StorageDir is where the binary keeps its slashing-protection database.
func (e *ExternalEnv) StorageDir() string { return filepath.Join(e.Dir, "storage") }

// Start launches the binary and waits until it accepts connections.
func (e *ExternalEnv) Start() error {
	cmd := exec.Command(e.Binary, "--base-dir", e.Dir)
	cmd.Env = append(os.Environ(), "HOME="+e.Dir)
	if e.TraceFile != "" {
		cmd.Env = append(cmd.Env, "VERIF_TRACE_FILE="+e.TraceFile)
	}
	errf, _ := os.OpenFile(filepath.Join(e.Dir, "dirk.stderr"), os.O_CREATE|os.O_WRONLY|os.O_APPEND, 0o600)
	cmd.Stdout, cmd.Stderr = errf, errf
	if err := cmd.Start(); err != nil {
		return err
	}
	e.proc = cmd
	e.exited = watchProc(cmd)
	if err := waitOurServer(e.Addr, e.exited, filepath.Join(e.Dir, "dirk.stderr"), e.PKI, e.Other); err != nil {
		e.Kill()
		return err
	}
	return nil
}

// Kill sends SIGKILL (a crash, not a shutdown) and reaps the process.
func (e *ExternalEnv) Kill() {
	if e.proc != nil {
		_ = e.proc.Process.Kill()
		<-e.exited
		e.proc = nil
	}
}

// Remove deletes everything on disk.
func (e *ExternalEnv) Remove() {
	if keep := os.Getenv("VERIF_KEEP_DIRK_LOG"); keep != "" { // development aid: keep what the binary printed
		if b, err := os.ReadFile(filepath.Join(e.Dir, "dirk.stderr")); err == nil {
			_ = os.WriteFile(filepath.Join(keep, fmt.Sprintf("dirk-%d-%d.stderr", os.Getpid(), time.Now().UnixNano())), b, 0o600)
		}
	}
	os.RemoveAll(e.Dir)
}

// Dialer returns an APIServer handle usable for Dial (credentials minted from this environment's authorities).
func (e *ExternalEnv) Dialer() *APIServer {
	return &APIServer{Addr: e.Addr, PKI: e.PKI, Other: e.Other}
}

type clientSig struct{ c pb.SignerClient }

func (x clientSig) Sign(ctx context.Context, req *pb.SignRequest) (*pb.SignResponse, error) {
	return x.c.Sign(ctx, req)
}
func (x clientSig) Multisign(ctx context.Context, req *pb.MultisignRequest) (*pb.MultisignResponse, error) {
	return x.c.Multisign(ctx, req)
}
func (x clientSig) SignBeaconAttestation(ctx context.Context, req *pb.SignBeaconAttestationRequest) (*pb.SignResponse, error) {
	return x.c.SignBeaconAttestation(ctx, req)
}
func (x clientSig) SignBeaconAttestations(ctx context.Context, req *pb.SignBeaconAttestationsRequest) (*pb.MultisignResponse, error) {
	return x.c.SignBeaconAttestations(ctx, req)
}
func (x clientSig) SignBeaconProposal(ctx context.Context, req *pb.SignBeaconProposalRequest) (*pb.SignResponse, error) {
	return x.c.SignBeaconProposal(ctx, req)
}

// RunRemote executes a scenario against the REAL dirk binary over TLS: ops att / atts / prop / gen / multi are sent by client c1;
// "restart" = SIGKILL between requests and a new process on the same directories; an op with KillAfterUs > 0 is sent and the
// process is killed that many microseconds later, whether or not the answer has arrived, then restarted.  At the end the
// slashing database is read through badger directly (RawDump).
func (r *Runner) RunRemote(ctx context.Context, sc *Scenario, binary string) error {
	if err := r.setConc(sc.Conc); err != nil {
		return err
	}
	spec := sc.World
	if len(spec.Wallets) == 0 && spec.NKeys == 0 {
		spec.NKeys = 4
	}
	perms := map[string]map[string]string{"c1": {"W1": "All", "DW1": "All"}} // (DW1: the distributed accounts of worlds with Dist > 0)
	if pj := os.Getenv("VERIF_REMOTE_PERMS"); pj != "" {
		// development aid: another permission block for the binary's configuration file
		if err := json.Unmarshal([]byte(pj), &perms); err != nil {
			return err
		}
	}
	env, err := PrepareExternal(ctx, r.Log, "bare", binary, spec, perms)
	if err != nil {
		return err
	}
	defer env.Remove()
	defer env.Kill()
	if td := os.Getenv("VERIF_BIN_TRACE_DIR"); td != "" {
		env.TraceFile = filepath.Join(td, sc.ID+".storetrace.ndjson")
	}
	if err := env.Start(); err != nil {
		return err
	}
	var conn *grpc.ClientConn
	connect := func() (*Stack, error) {
		if conn != nil {
			_ = conn.Close()
		}
		c, err := env.Dialer().Dial(ctx, "valid-c1")
		if err != nil {
			return nil, err
		}
		conn = c
		return &Stack{B: env.B, Sig: clientSig{pb.NewSignerClient(c)}}, nil
	}
	st, err := connect()
	if err != nil {
		return err
	}
	// requests that state a source address (op.IP, a loopback address) travel over a connection bound to that address
	fromConns := map[string]*grpc.ClientConn{}
	stackFor := func(ip string) (*Stack, error) {
		if ip == "" {
			return st, nil
		}
		if c, ok := fromConns[ip]; ok {
			return &Stack{B: env.B, Sig: clientSig{pb.NewSignerClient(c)}}, nil
		}
		c, err := env.Dialer().DialFrom(ctx, "valid-c1", ip)
		if err != nil {
			return nil, err
		}
		fromConns[ip] = c
		return &Stack{B: env.B, Sig: clientSig{pb.NewSignerClient(c)}}, nil
	}
	defer func() {
		for _, c := range fromConns {
			_ = c.Close()
		}
	}()
	r.Log.Emit(Ev{"ev": "Begin", "sc": sc.ID, "nkeys": len(env.B.PubKeys), "nconc": len(sc.Conc), "remote": true})
	restart := func(why string) error {
		env.Kill()
		if err := env.Start(); err != nil {
			return fmt.Errorf("restart: %w", err)
		}
		r.Log.Emit(Ev{"ev": "Restart", "how": why})
		var err error
		st, err = connect()
		return err
	}
	// "overlap": a SECOND process of the same program is started on the same base directory (same configuration file, same
	// slashing database) while the first is still serving - a restart that does not wait for the old process to go, a second unit
	// started by mistake.  Its only difference is the listen address.  If it comes up, the ops marked Alt are sent to it.
	var second *exec.Cmd
	var secondExited chan struct{}
	var st2 *Stack
	var conn2 *grpc.ClientConn
	defer func() {
		if conn2 != nil {
			_ = conn2.Close()
		}
		if second != nil {
			_ = second.Process.Kill()
			<-secondExited
		}
	}()
	for _, op := range sc.Ops {
		switch op.Kind {
		case "overlap":
			addr2, err := FreeAddr("127.0.0.1")
			if err != nil {
				return err
			}
			cmd := exec.Command(env.Binary, "--base-dir", env.Dir)
			cmd.Env = append(os.Environ(), "HOME="+env.Dir, "DIRK_SERVER_LISTEN_ADDRESS="+addr2)
			errf, _ := os.OpenFile(filepath.Join(env.Dir, "dirk2.stderr"), os.O_CREATE|os.O_WRONLY|os.O_APPEND, 0o600)
			cmd.Stdout, cmd.Stderr = errf, errf
			if err := cmd.Start(); err != nil {
				return err
			}
			exited := watchProc(cmd)
			if werr := waitOurServer(addr2, exited, filepath.Join(env.Dir, "dirk2.stderr"), env.PKI, env.Other); werr != nil {
				_ = cmd.Process.Kill()
				<-exited
				why := werr.Error()
				if len(why) > 300 {
					why = why[len(why)-300:]
				}
				r.Log.Emit(Ev{"ev": "Overlap", "started": false, "why": why})
				break
			}
			second, secondExited = cmd, exited
			c2, derr := (&APIServer{Addr: addr2, PKI: env.PKI, Other: env.Other}).Dial(ctx, "valid-c1")
			if derr != nil {
				return derr
			}
			conn2 = c2
			st2 = &Stack{B: env.B, Sig: clientSig{pb.NewSignerClient(c2)}}
			r.Log.Emit(Ev{"ev": "Overlap", "started": true, "addr": addr2})
		case "restart":
			if err := restart("sigkill between requests"); err != nil {
				return err
			}
		case "att", "atts", "prop", "gen", "multi":
			if op.Alt && st2 != nil {
				dctx, dcancel := context.WithTimeout(ctx, 60*time.Second)
				r.runSign(dctx, st2, env.B, op)
				dcancel()
				break
			}
			if op.KillAfterUs > 0 {
				done := make(chan struct{})
				cur := st
				go func() { defer close(done); r.runSign(ctx, cur, env.B, op) }()
				time.Sleep(time.Duration(op.KillAfterUs) * time.Microsecond)
				env.Kill()
				select {
				case <-done:
				case <-time.After(20 * time.Second):
					return fmt.Errorf("request %s did not return after the process was killed", op.ID)
				}
				r.Log.Emit(Ev{"ev": "Kill", "site": "remote", "passage": op.KillAfterUs, "r": op.ID})
				if err := env.Start(); err != nil {
					return err
				}
				if st, err = connect(); err != nil {
					return err
				}
			} else {
				dctx, dcancel := context.WithTimeout(ctx, 60*time.Second) // a wedged binary shows as ERROR, not as a driver that never ends
				ost, serr := stackFor(op.IP)
				if serr != nil {
					dcancel()
					return fmt.Errorf("connection from %s: %w", op.IP, serr)
				}
				r.runSign(dctx, ost, env.B, op)
				dcancel()
			}
		case "par":
			// free-running concurrency over real connections: every sub-request from its own goroutine (and its own HTTP/2 stream)
			var wg sync.WaitGroup
			cur := st
			for _, o := range op.Ops {
				wg.Add(1)
				go func(o Op) {
					defer wg.Done()
					dctx, dcancel := context.WithTimeout(ctx, 60*time.Second)
					defer dcancel()
					r.runSign(dctx, cur, env.B, o)
				}(o)
			}
			wg.Wait()
		default:
			return fmt.Errorf("remote: unsupported op kind %s", op.Kind)
		}
	}
	if conn != nil {
		_ = conn.Close()
	}
	env.Kill()
	if second != nil {
		_ = second.Process.Kill()
		<-secondExited
		second = nil
	}
	r.RawDump(env.StorageDir(), env.B, "final")
	r.Log.Emit(Ev{"ev": "End", "sc": sc.ID, "faults_hit": []string{}, "passages": 0})
	return nil
}

// RunRemoteDkg runs ONE fault-free key generation on a cluster of real dirk binaries that talk to each other over their own gRPC
// sender / receiver with mutual TLS (nodes are named by loopback addresses 127.0.0.1x so that no name resolution is needed), then
// observes the result the way a client can (list, sign by name, sign by share key, on every participant) and, after stopping the
// binaries, from the wallet stores on disk.  Events are those of the in-process cluster (Outcome, Holds, Usable, Threshold).
func RunRemoteDkg(ctx context.Context, sc *DkgScenario, binary string, log *Log) error {
	pki, err := NewPKI("verif CA")
	if err != nil {
		return err
	}
	other, err := NewPKI("another CA")
	if err != nil {
		return err
	}
	ids := append([]uint64{}, sc.IDs...)
	sort.Slice(ids, func(i, j int) bool { return ids[i] < ids[j] })
	names, addrs, peers := map[uint64]string{}, map[uint64]string{}, map[uint64]string{}
	for i, id := range ids {
		names[id] = fmt.Sprintf("127.0.0.%d", 11+i)
		a, err := FreeAddr(names[id])
		if err != nil {
			return err
		}
		addrs[id] = a
		peers[id] = a
	}
	genTimeout := ""
	if sc.TimeoutMs > 0 {
		genTimeout = fmt.Sprintf("%dms", sc.TimeoutMs)
	}
	wn, _, _ := strings.Cut(sc.Account, "/")
	spec := Spec{Wallets: []WalletSpec{{Name: "W1", Type: "nd", Accounts: []AccountSpec{{Name: "a0", KeyIdx: 0}}}, {Name: wn, Type: "distributed"}}}
	envs := map[uint64]*ExternalEnv{}
	defer func() {
		for _, e := range envs {
			e.Kill()
			e.Remove()
		}
	}()
	for _, id := range ids {
		e, err := PrepareExternalNode(ctx, log, "bare", binary, spec, map[string]map[string]string{"c1": {"W1": "All", wn: "All"}},
			Node{ID: id, Name: names[id], Addr: addrs[id], Peers: peers, PKI: pki, Other: other, GenTimeout: genTimeout})
		if err != nil {
			return err
		}
		envs[id] = e
	}
	for _, id := range ids {
		if err := envs[id].Start(); err != nil {
			return err
		}
	}
	log.Emit(Ev{"ev": "Begin", "sc": sc.ID, "remote": true})
	dial := func(id uint64) (*grpc.ClientConn, error) { return envs[id].Dialer().Dial(ctx, "valid-c1") }
	// ---- direct protocol calls (C16, C17) sent with the caller's certificate to the instance's real receiver
	snap := func(id uint64, account string) string {
		c, err := dial(id)
		if err != nil {
			return "?"
		}
		defer c.Close()
		cctx, ccancel := context.WithTimeout(ctx, 10*time.Second)
		defer ccancel()
		w, _, _ := strings.Cut(account, "/")
		lres, err := pb.NewListerClient(c).ListAccounts(cctx, &pb.ListAccountsRequest{Paths: []string{w}})
		if err != nil {
			return "?"
		}
		for _, a := range lres.GetDistributedAccounts() {
			if a.GetName() == account {
				return "present:" + hex.EncodeToString(a.GetCompositePublicKey())
			}
		}
		return "absent"
	}
	if len(sc.Calls) > 0 {
		// every instance answers a listing before anything is sent: a node that is unreachable from the start is a failure of the set-up
		for _, id := range ids {
			if snap(id, sc.Account) == "?" {
				return fmt.Errorf("instance %d (%s) does not answer before the first call", id, addrs[id])
			}
		}
	}
	silentRun, skipTo := 0, 0
	for i, call := range sc.Calls {
		if i < skipTo {
			continue
		}
		if call.Msg == "tick" {
			time.Sleep(time.Duration(call.TickMs) * time.Millisecond)
			log.Emit(Ev{"ev": "Call", "i": i, "msg": "tick"})
			continue
		}
		e := envs[call.Inst]
		if e == nil {
			return fmt.Errorf("call %d: unknown instance %d", i, call.Inst)
		}
		cred := "tls-nocert"
		if call.Caller != "" {
			cn := call.Caller
			var pid uint64
			if _, err := fmt.Sscanf(call.Caller, "signer-%d", &pid); err == nil && call.Caller == peerName(pid) && names[pid] != "" {
				cn = names[pid] // a peer: the certificate carries the peer's configured name
			}
			cred = "valid-" + cn
		}
		before := snap(call.Inst, call.Account)
		var cerr error
		extra := Ev{}
		c, derr := e.Dialer().Dial(ctx, cred)
		if derr != nil {
			cerr = derr
		} else {
			cctx, ccancel := context.WithTimeout(ctx, 20*time.Second)
			parts := make([]*pb.Endpoint, len(call.Participants))
			for j, id := range call.Participants {
				_, port, _ := net.SplitHostPort(addrs[id])
				var pn uint32
				_, _ = fmt.Sscanf(port, "%d", &pn)
				parts[j] = &pb.Endpoint{Id: id, Name: names[id], Port: pn}
			}
			dk := pb.NewDKGClient(c)
			switch call.Msg {
			case "prepare":
				_, cerr = dk.Prepare(cctx, &pb.PrepareRequest{Account: call.Account, Passphrase: []byte("pass"), Threshold: call.Threshold, Participants: parts})
			case "execute":
				_, cerr = dk.Execute(cctx, &pb.ExecuteRequest{Account: call.Account})
			case "commit":
				var res *pb.CommitResponse
				if res, cerr = dk.Commit(cctx, &pb.CommitRequest{Account: call.Account, ConfirmationData: make([]byte, 32)}); cerr == nil {
					extra["pubkey"] = hex.EncodeToString(res.GetPublicKey())
				}
			case "abort":
				_, cerr = dk.Abort(cctx, &pb.AbortRequest{Account: call.Account})
			case "contribute":
				t := int(call.Threshold)
				if t == 0 {
					t = 2
				}
				sks := make([]bls.SecretKey, t)
				vv := make([][]byte, t)
				for k := range sks {
					sks[k].SetByCSPRNG()
					vv[k] = sks[k].GetPublicKey().Serialize()
				}
				var share bls.SecretKey
				_ = share.Set(sks, util.BLSID(call.Inst))
				var res *pb.ContributeResponse
				if res, cerr = dk.Contribute(cctx, &pb.ContributeRequest{Account: call.Account, Secret: share.Serialize(), VerificationVector: vv}); cerr == nil && res != nil {
					extra["got_share"] = len(res.GetSecret()) > 0
				}
			case "generate":
				var res *pb.GenerateResponse
				res, cerr = pb.NewAccountManagerClient(c).Generate(cctx, &pb.GenerateRequest{Account: call.Account, Passphrase: []byte("pass"), Participants: call.N, SigningThreshold: call.Threshold})
				if cerr == nil && res.GetState() != pb.ResponseState_SUCCEEDED {
					cerr = fmt.Errorf("generate: %s", res.GetMessage())
				}
			}
			ccancel()
			_ = c.Close()
		}
		after := snap(call.Inst, call.Account)
		alive := e.proc != nil && !hasExited(e.exited) && after != "?"
		for _, oid := range ids { // (a request may bring down another instance than the one it was sent to)
			if oe := envs[oid]; oe == nil || oe.proc == nil || hasExited(oe.exited) {
				alive = false
			}
		}
		ev := Ev{"ev": "Call", "i": i, "inst": call.Inst, "caller": call.Caller, "msg": call.Msg, "account": call.Account, "result": errClass(cerr),
			"changed": before != after, "crashed": !alive}
		if cerr != nil {
			ev["err"] = cerr.Error()
			// the caller got neither a response nor an error of the server within the 20 s it was prepared to wait
			ev["noanswer"] = status.Code(cerr) == codes.DeadlineExceeded
		}
		for k, v := range extra {
			ev[k] = v
		}
		log.Emit(ev)
		// (a server that has stopped answering would make every further call of a long sequence wait its 20 s: two calls in a row
		// without an answer end the sequence - except for the last three calls, the probes that follow a sequence of retries)
		if ev["noanswer"] == true {
			silentRun++
		} else {
			silentRun = 0
		}
		if silentRun >= 2 && i < len(sc.Calls)-4 {
			skipTo = len(sc.Calls) - 3
		}
	}
	if len(sc.ConcGens) > 0 {
		// several generations requested at the same moment of (possibly different) instances: the real gRPC sender and receiver of the
		// binaries carry their messages side by side (DkgConc.tla)
		type outT struct {
			res  *pb.GenerateResponse
			err  error
			hung bool
		}
		outs := make([]outT, len(sc.ConcGens))
		var wg sync.WaitGroup
		start := make(chan struct{})
		for gi, g := range sc.ConcGens {
			wg.Add(1)
			go func(gi int, g ConcGen) {
				defer wg.Done()
				c, derr := dial(g.Initiator)
				if derr != nil {
					outs[gi] = outT{err: derr}
					return
				}
				defer c.Close()
				<-start
				gctx, cancel := context.WithTimeout(ctx, 60*time.Second)
				defer cancel()
				r0, e0 := pb.NewAccountManagerClient(c).Generate(gctx, &pb.GenerateRequest{Account: g.Account, Passphrase: []byte("pass"), Participants: g.N, SigningThreshold: g.T})
				outs[gi] = outT{res: r0, err: e0, hung: e0 != nil && strings.Contains(e0.Error(), "DeadlineExceeded")}
			}(gi, g)
		}
		close(start)
		wg.Wait()
		// what a client sees on every instance (listing), then what is on disk after the binaries have been stopped
		listedAcc := map[uint64]map[string]string{}
		crashed := []uint64{}
		for _, id := range ids {
			listedAcc[id] = map[string]string{}
			alive := !hasExited(envs[id].exited)
			if c, derr := dial(id); derr == nil {
				lctx, lcancel := context.WithTimeout(ctx, 10*time.Second)
				lres, lerr := pb.NewListerClient(c).ListAccounts(lctx, &pb.ListAccountsRequest{Paths: []string{wn}})
				lcancel()
				_ = c.Close()
				if lerr != nil {
					alive = false
				} else {
					for _, a := range lres.GetDistributedAccounts() {
						listedAcc[id][a.GetName()] = hex.EncodeToString(a.GetCompositePublicKey())
					}
				}
			} else {
				alive = false
			}
			if !alive {
				crashed = append(crashed, id)
			}
		}
		for _, id := range ids {
			envs[id].Kill()
		}
		disk := map[uint64]*Base{}
		for _, id := range ids {
			xb, err := NewBase(ctx, envs[id].Spec, log, NewControl(log))
			if err != nil {
				return err
			}
			disk[id] = xb
		}
		for gi, g := range sc.ConcGens {
			o := outs[gi]
			ok := o.err == nil && o.res != nil && o.res.GetState() == pb.ResponseState_SUCCEEDED
			ev := Ev{"ev": "ConcOutcome", "g": gi, "account": g.Account, "initiator": g.Initiator, "ok": ok, "hung": o.hung, "n": g.N, "t": g.T}
			parts := []uint64{}
			if o.res != nil {
				ev["message"] = o.res.GetMessage()
				ev["pubkey"] = hex.EncodeToString(o.res.GetPublicKey())
				for _, p := range o.res.GetParticipants() {
					parts = append(parts, p.GetId())
				}
			}
			sort.Slice(parts, func(i, j int) bool { return parts[i] < parts[j] })
			ev["participants"] = parts
			log.Emit(ev)
			for _, id := range ids {
				cl := &Cluster{}
				info := cl.Inspect(ctx, &Instance{ID: id, B: disk[id]}, g.Account)
				_, inF := listedAcc[id][g.Account]
				log.Emit(Ev{"ev": "ConcHolds", "g": gi, "inst": id, "present": info.Present, "in_fetcher": inF, "composite": info.Composite, "share": info.Share,
					"threshold": info.Threshold, "vvec": info.VVec, "nvvec": len(info.VVec), "participants": info.Participants, "share_ok": info.ShareOK, "crashed": false})
			}
		}
		log.Emit(Ev{"ev": "End", "sc": sc.ID, "crashed": crashed})
		return nil
	}
	if !sc.Generate {
		for _, id := range ids {
			envs[id].Kill()
		}
		log.Emit(Ev{"ev": "End", "sc": sc.ID, "crashed": []uint64{}})
		return nil
	}
	conn, err := dial(sc.Initiator)
	if err != nil {
		return err
	}
	gctx, cancel := context.WithTimeout(ctx, 60*time.Second)
	res, gerr := pb.NewAccountManagerClient(conn).Generate(gctx, &pb.GenerateRequest{Account: sc.Account, Passphrase: []byte("pass"), Participants: sc.N, SigningThreshold: sc.T})
	cancel()
	_ = conn.Close()
	ok := gerr == nil && res != nil && res.GetState() == pb.ResponseState_SUCCEEDED
	out := Ev{"ev": "Outcome", "ok": ok, "n": sc.N, "t": sc.T, "faults_hit": []string{}}
	parts := []uint64{}
	composite := ""
	if res != nil {
		out["message"] = res.GetMessage()
		composite = hex.EncodeToString(res.GetPublicKey())
		out["pubkey"] = composite
		for _, p := range res.GetParticipants() {
			parts = append(parts, p.GetId())
		}
	}
	if gerr != nil {
		out["message"] = gerr.Error()
	}
	sort.Slice(parts, func(i, j int) bool { return parts[i] < parts[j] })
	out["participants"] = parts
	log.Emit(out)
	// what a client sees on every instance while it runs
	domain := domainBytes("randao", 0x44)
	data := rootBytes("D")
	root := SigningRoot([32]byte(data), domain)
	listed := map[uint64]bool{}
	shareKeys := map[uint64][]byte{}
	sigs := map[uint64]bls.Sign{}
	for _, id := range ids {
		c, err := dial(id)
		if err != nil {
			continue
		}
		cctx, ccancel := context.WithTimeout(ctx, 20*time.Second)
		var share []byte
		listOK := false
		if lres, err := pb.NewListerClient(c).ListAccounts(cctx, &pb.ListAccountsRequest{Paths: []string{wn}}); err == nil {
			for _, a := range lres.GetDistributedAccounts() {
				if a.GetName() == sc.Account {
					listed[id] = true
					share = a.GetPublicKey()
					shareKeys[id] = share
					listOK = hex.EncodeToString(a.GetCompositePublicKey()) == composite
				}
			}
		}
		signOK, signKeyOK := false, false
		if r1, err := pb.NewSignerClient(c).Sign(cctx, &pb.SignRequest{Id: &pb.SignRequest_Account{Account: sc.Account}, Domain: domain, Data: data}); err == nil && r1.GetState() == pb.ResponseState_SUCCEEDED {
			var sg bls.Sign
			if sg.Deserialize(r1.GetSignature()) == nil {
				sigs[id] = sg
				signOK = true
			}
		}
		if len(share) == 48 {
			if r2, err := pb.NewSignerClient(c).Sign(cctx, &pb.SignRequest{Id: &pb.SignRequest_PublicKey{PublicKey: share}, Domain: domain, Data: data}); err == nil {
				signKeyOK = r2.GetState() == pb.ResponseState_SUCCEEDED && len(r2.GetSignature()) > 0
			}
		}
		ccancel()
		_ = c.Close()
		if ok {
			log.Emit(Ev{"ev": "Usable", "inst": id, "sign": signOK, "signkey": signKeyOK, "list": listOK})
		}
	}
	if ok {
		thresholdEvent(log, parts, sigs, composite, int(sc.T), root)
	}
	if ok && len(sc.Duties) > 0 {
		// C14: route duties to the running binaries over TLS (client c1), one connection per instance
		conns := map[uint64]*grpc.ClientConn{}
		for _, id := range ids {
			if c, err := dial(id); err == nil {
				conns[id] = c
			}
		}
		runDutiesWith(ctx, sc, shareKeys, func(id uint64) SignerAPI {
			if c := conns[id]; c != nil {
				return clientSig{pb.NewSignerClient(c)}
			}
			return nil
		}, composite, log)
		for _, c := range conns {
			_ = c.Close()
		}
	}
	// stop the binaries; read what they left on disk
	for _, id := range ids {
		envs[id].Kill()
	}
	for _, id := range ids {
		e := envs[id]
		xb, err := NewBase(ctx, e.Spec, log, NewControl(log))
		if err != nil {
			return err
		}
		cl := &Cluster{}
		info := cl.Inspect(ctx, &Instance{ID: id, B: xb}, sc.Account)
		log.Emit(Ev{"ev": "Holds", "inst": id, "present": info.Present, "in_fetcher": listed[id], "composite": info.Composite, "share": info.Share,
			"threshold": info.Threshold, "vvec": info.VVec, "nvvec": len(info.VVec), "participants": info.Participants, "share_ok": info.ShareOK, "crashed": false})
	}
	log.Emit(Ev{"ev": "End", "sc": sc.ID, "crashed": []uint64{}})
	return nil
}


type remotePerm struct{ c *grpc.ClientConn }

// runPermScenarioRemote sends the operations of a permission scenario to the REAL dirk binary, whose configuration file carries the
// scenario's permission entries (main.go's own reading of them is part of what is exercised).  Each client uses a certificate with
// its name; "" has none.  What cannot be observed from outside (lock state, "changed") is reported as unchanged / empty.
func runPermScenarioRemote(ctx context.Context, sc *PermScenario, log *Log, binary string) error {
	perms := map[string]map[string]string{}
	for _, cp := range sc.World.Perms {
		if perms[cp.Client] == nil {
			perms[cp.Client] = map[string]string{}
		}
		for _, pe := range cp.Perms {
			items := make([]string, len(pe.Ops))
			for i, o := range pe.Ops {
				items[i] = "'" + strings.ReplaceAll(o, "'", "''") + "'"
			}
			perms[cp.Client][pe.Path] = "[" + strings.Join(items, ", ") + "]"
		}
	}
	env, err := PrepareExternal(ctx, log, "bare", binary, sc.World, perms)
	if err != nil {
		return err
	}
	defer env.Remove()
	defer env.Kill()
	if err := env.Start(); err != nil {
		return err
	}
	conns := map[string]*grpc.ClientConn{}
	closeAll := func() {
		for k, c := range conns {
			_ = c.Close()
			delete(conns, k)
		}
	}
	defer closeAll()
	conn := func(client string) *grpc.ClientConn {
		if c, ok := conns[client]; ok {
			return c
		}
		cred := "tls-nocert"
		if client != "" {
			cred = "valid-" + client
		}
		c, err := env.Dialer().Dial(ctx, cred)
		if err != nil {
			return nil
		}
		conns[client] = c
		return c
	}
	dl := func(ctx context.Context) (context.Context, context.CancelFunc) { return context.WithTimeout(ctx, 20*time.Second) }
	tgt := &permTarget{passphrase: env.B.Spec.Passphrase}
	tgt.sig = func(client string) SignerAPI { return clientSig{pb.NewSignerClient(conn(client))} }
	tgt.list = func(c context.Context, client string, req *pb.ListAccountsRequest) (*pb.ListAccountsResponse, error) {
		cc, cancel := dl(c)
		defer cancel()
		return pb.NewListerClient(conn(client)).ListAccounts(cc, req)
	}
	tgt.acctLock = func(c context.Context, client string, req *pb.LockAccountRequest) (*pb.LockAccountResponse, error) {
		cc, cancel := dl(c)
		defer cancel()
		return pb.NewAccountManagerClient(conn(client)).Lock(cc, req)
	}
	tgt.acctUnlock = func(c context.Context, client string, req *pb.UnlockAccountRequest) (*pb.UnlockAccountResponse, error) {
		cc, cancel := dl(c)
		defer cancel()
		return pb.NewAccountManagerClient(conn(client)).Unlock(cc, req)
	}
	tgt.generate = func(c context.Context, client string, req *pb.GenerateRequest) (*pb.GenerateResponse, error) {
		cc, cancel := dl(c)
		defer cancel()
		return pb.NewAccountManagerClient(conn(client)).Generate(cc, req)
	}
	tgt.walletLock = func(c context.Context, client string, req *pb.LockWalletRequest) (*pb.LockWalletResponse, error) {
		cc, cancel := dl(c)
		defer cancel()
		return pb.NewWalletManagerClient(conn(client)).Lock(cc, req)
	}
	tgt.walletUnlock = func(c context.Context, client string, req *pb.UnlockWalletRequest) (*pb.UnlockWalletResponse, error) {
		cc, cancel := dl(c)
		defer cancel()
		return pb.NewWalletManagerClient(conn(client)).Unlock(cc, req)
	}
	tgt.pubOf = func(path string) []byte {
		// accounts of the initial population from the world that was written to disk; accounts created later through a listing
		if _, a, err := env.B.RawFetch.FetchAccount(ctx, path); err == nil {
			return a.PublicKey().Marshal()
		}
		w, _, _ := strings.Cut(path, "/")
		for _, client := range []string{"c1"} {
			cc, cancel := dl(ctx)
			res, err := pb.NewListerClient(conn(client)).ListAccounts(cc, &pb.ListAccountsRequest{Paths: []string{w}})
			cancel()
			if err == nil {
				for _, a := range res.GetAccounts() {
					if a.GetName() == path {
						return a.GetPublicKey()
					}
				}
			}
		}
		return nil
	}
	tgt.snapshot = func() string { return "" }
	tgt.locks = func() map[string]bool { return map[string]bool{} }
	tgt.restart = func() error {
		closeAll()
		env.Kill()
		return env.Start()
	}
	return runPermOps(ctx, sc, log, tgt)
}

package world

import (
	"context"
	"encoding/hex"
	"errors"
	"strings"

	"github.com/attestantio/dirk/rules"
	"github.com/attestantio/dirk/services/checker"
	"github.com/attestantio/dirk/services/fetcher"
	"github.com/attestantio/dirk/services/locker"
	"github.com/attestantio/dirk/services/ruler"
	"github.com/attestantio/dirk/services/unlocker"
	e2types "github.com/wealdtech/go-eth2-types/v2"
	e2wtypes "github.com/wealdtech/go-eth2-wallet-types/v2"
)

// Names maps concrete identifiers to the abstract names used in traces.
type Names struct {
	// KeyName maps hex(pubkey) to "k0", "k1", ...
	KeyName map[string]string
}

func (n *Names) key(pub []byte) string {
	if n == nil {
		return hex.EncodeToString(pub)
	}
	if len(pub) > 48 {
		pub = pub[:48]
	}
	if s, ok := n.KeyName[hex.EncodeToString(pub)]; ok {
		return s
	}
	h := hex.EncodeToString(pub)
	if len(h) > 8 {
		h = h[:8]
	}
	return "x" + h
}

// ---------------- locker ----------------

type lockerW struct {
	in    locker.Service
	c     *Control
	g     *gmap
	names *Names
}

func (l *lockerW) PreLock() {
	rid := l.g.get()
	l.c.Point(rid, "prelock", "")
	l.c.Log.Emit(Ev{"ev": "PreLockReq", "r": rid})
	l.c.LockWait(rid, "map")
	l.in.PreLock()
	l.c.LockAcquired(rid, "map")
	l.c.Log.Emit(Ev{"ev": "PreLock", "r": rid})
}

func (l *lockerW) PostLock() {
	rid := l.g.get()
	l.c.Point(rid, "postlock", "")
	l.c.Log.Emit(Ev{"ev": "PostLock", "r": rid})
	l.c.LockReleasing(rid, "map")
	l.in.PostLock()
}

func (l *lockerW) Lock(key [48]byte) {
	rid := l.g.get()
	k := l.names.key(key[:])
	l.c.Point(rid, "lock", k)
	l.c.Log.Emit(Ev{"ev": "LockReq", "r": rid, "k": k})
	l.c.LockWait(rid, k)
	l.in.Lock(key)
	l.c.LockAcquired(rid, k)
	l.c.Log.Emit(Ev{"ev": "LockAcq", "r": rid, "k": k})
}

func (l *lockerW) Unlock(key [48]byte) {
	rid := l.g.get()
	k := l.names.key(key[:])
	l.c.Point(rid, "unlock", k)
	l.c.Log.Emit(Ev{"ev": "Unlock", "r": rid, "k": k})
	l.c.LockReleasing(rid, k)
	l.in.Unlock(key)
}

// ---------------- ruler ----------------

type rulerW struct {
	in ruler.Service
	c  *Control
	g  *gmap
}

func resNames(rs []rules.Result) []string {
	out := make([]string, len(rs))
	for i, r := range rs {
		switch r {
		case rules.APPROVED:
			out[i] = "APPROVED"
		case rules.DENIED:
			out[i] = "DENIED"
		case rules.FAILED:
			out[i] = "FAILED"
		default:
			out[i] = "UNKNOWN"
		}
	}
	return out
}

func (r *rulerW) RunRules(ctx context.Context, credentials *checker.Credentials, action string, data []*ruler.RulesData) []rules.Result {
	rid := Rid(ctx)
	if rid != "" {
		r.g.set(rid)
		defer r.g.clear()
	}
	kind := r.c.Point(rid, "ruler.enter", "")
	r.c.Log.Emit(Ev{"ev": "RulerEnter", "r": rid, "action": action, "n": len(data)})
	var res []rules.Result
	switch kind {
	case "error", "failed":
		res = make([]rules.Result, len(data))
		for i := range res {
			res[i] = rules.FAILED
		}
	case "unknown":
		res = make([]rules.Result, len(data))
	case "empty":
		res = []rules.Result{}
	default:
		res = r.in.RunRules(ctx, credentials, action, data)
	}
	r.c.Point(rid, "ruler.exit", "")
	r.c.Log.Emit(Ev{"ev": "RulerExit", "r": rid, "res": resNames(res)})
	return res
}

// ---------------- rules ----------------

type rulesW struct {
	rules.Service
	c     *Control
	names *Names
}

func overrideOne(kind string, r rules.Result) rules.Result {
	switch kind {
	case "unknown":
		return rules.UNKNOWN
	case "failed", "error":
		return rules.FAILED
	case "denied":
		return rules.DENIED
	}
	return r
}

func (w *rulesW) OnSign(ctx context.Context, md *rules.ReqMetadata, req *rules.SignData) rules.Result {
	rid := Rid(ctx)
	k := ""
	if md != nil {
		k = w.names.key(md.PubKey)
	}
	kind := w.c.Point(rid, "rules.sign", k)
	res := overrideOne(kind, rules.UNKNOWN)
	if kind == "" {
		res = w.Service.OnSign(ctx, md, req)
	}
	w.c.Log.Emit(Ev{"ev": "RulesExit", "r": rid, "k": k, "op": "sign", "res": resNames([]rules.Result{res})})
	return res
}

func (w *rulesW) OnSignBeaconAttestation(ctx context.Context, md *rules.ReqMetadata, req *rules.SignBeaconAttestationData) rules.Result {
	rid := Rid(ctx)
	k := w.names.key(md.PubKey)
	kind := w.c.Point(rid, "rules.att", k)
	res := overrideOne(kind, rules.UNKNOWN)
	if kind == "" {
		res = w.Service.OnSignBeaconAttestation(ctx, md, req)
	}
	w.c.Log.Emit(Ev{"ev": "RulesExit", "r": rid, "k": k, "op": "att", "res": resNames([]rules.Result{res})})
	return res
}

func (w *rulesW) OnSignBeaconAttestations(ctx context.Context, md []*rules.ReqMetadata, req []*rules.SignBeaconAttestationData) []rules.Result {
	rid := Rid(ctx)
	kind := w.c.Point(rid, "rules.atts", "")
	var res []rules.Result
	switch kind {
	case "":
		res = w.Service.OnSignBeaconAttestations(ctx, md, req)
		// Positional faults: "rules.atts.pos" with Key = "<index>".
		for i := range res {
			if k2 := w.c.Point(rid, "rules.atts.pos", itoa(i)); k2 != "" {
				res[i] = overrideOne(k2, res[i])
			}
		}
	case "short":
		res = w.Service.OnSignBeaconAttestations(ctx, md, req)
		if len(res) > 0 {
			res = res[:len(res)-1]
		}
	default:
		res = make([]rules.Result, len(req))
		for i := range res {
			res[i] = overrideOne(kind, rules.UNKNOWN)
		}
	}
	w.c.Log.Emit(Ev{"ev": "RulesExit", "r": rid, "op": "atts", "res": resNames(res)})
	return res
}

func (w *rulesW) OnSignBeaconProposal(ctx context.Context, md *rules.ReqMetadata, req *rules.SignBeaconProposalData) rules.Result {
	rid := Rid(ctx)
	k := w.names.key(md.PubKey)
	kind := w.c.Point(rid, "rules.prop", k)
	res := overrideOne(kind, rules.UNKNOWN)
	if kind == "" {
		res = w.Service.OnSignBeaconProposal(ctx, md, req)
	}
	w.c.Log.Emit(Ev{"ev": "RulesExit", "r": rid, "k": k, "op": "prop", "res": resNames([]rules.Result{res})})
	return res
}

func itoa(i int) string {
	const d = "0123456789"
	if i < 10 {
		return d[i : i+1]
	}
	return itoa(i/10) + d[i%10:i%10+1]
}

// ---------------- fetcher ----------------

type fetcherW struct {
	fetcher.Service
	c     *Control
	names *Names
}

func (f *fetcherW) FetchAccount(ctx context.Context, path string) (e2wtypes.Wallet, e2wtypes.Account, error) {
	rid := Rid(ctx)
	kind := f.c.Point(rid, "fetcher.account", path)
	if kind == "wrap-error" || kind == "wrap-locked" {
		w, a, err := f.Service.FetchAccount(ctx, path)
		f.c.Log.Emit(Ev{"ev": "PreCheckFetch", "r": rid, "path": path, "ok": err == nil, "fault": kind})
		if err != nil {
			return w, a, err
		}
		return w, &lockedAccount{Account: a, mode: strings.TrimPrefix(kind, "wrap-")}, nil
	}
	if kind != "" {
		f.c.Log.Emit(Ev{"ev": "PreCheckFetch", "r": rid, "path": path, "ok": false, "fault": kind})
		return nil, nil, ErrInjected
	}
	w, a, err := f.Service.FetchAccount(ctx, path)
	ev := Ev{"ev": "PreCheckFetch", "r": rid, "path": path, "ok": err == nil}
	if err == nil {
		ev["k"] = f.names.key(a.PublicKey().Marshal())
	}
	f.c.Log.Emit(ev)
	return w, a, err
}

func (f *fetcherW) FetchAccountByKey(ctx context.Context, pubKey []byte) (e2wtypes.Wallet, e2wtypes.Account, error) {
	rid := Rid(ctx)
	k := f.names.key(pubKey)
	if kind := f.c.Point(rid, "fetcher.bykey", k); kind != "" {
		f.c.Log.Emit(Ev{"ev": "PreCheckFetch", "r": rid, "bykey": k, "ok": false, "fault": kind})
		return nil, nil, ErrInjected
	}
	w, a, err := f.Service.FetchAccountByKey(ctx, pubKey)
	f.c.Log.Emit(Ev{"ev": "PreCheckFetch", "r": rid, "bykey": k, "ok": err == nil})
	return w, a, err
}

// ---------------- checker ----------------

type checkerW struct {
	in checker.Service
	c  *Control
}

func (w *checkerW) Check(ctx context.Context, credentials *checker.Credentials, account string, operation string) bool {
	rid := Rid(ctx)
	if kind := w.c.Point(rid, "checker", account); kind != "" {
		w.c.Log.Emit(Ev{"ev": "PreCheckPerm", "r": rid, "account": account, "op": operation, "ok": false, "fault": kind})
		return false
	}
	ok := w.in.Check(ctx, credentials, account, operation)
	cl := ""
	if credentials != nil {
		cl = credentials.Client
	}
	w.c.Log.Emit(Ev{"ev": "PreCheckPerm", "r": rid, "client": cl, "account": account, "op": operation, "ok": ok})
	return ok
}

// ---------------- unlocker ----------------

type unlockerW struct {
	in unlocker.Service
	c  *Control
}

func (w *unlockerW) UnlockWallet(ctx context.Context, wallet e2wtypes.Wallet) (bool, error) {
	rid := Rid(ctx)
	switch w.c.Point(rid, "unlocker.wallet", "") {
	case "error":
		return false, ErrInjected
	case "false":
		return false, nil
	}
	return w.in.UnlockWallet(ctx, wallet)
}

func (w *unlockerW) UnlockAccount(ctx context.Context, wallet e2wtypes.Wallet, account e2wtypes.Account) (bool, error) {
	rid := Rid(ctx)
	kind := w.c.Point(rid, "unlocker.account", "")
	switch kind {
	case "error":
		w.c.Log.Emit(Ev{"ev": "PreCheckUnlock", "r": rid, "ok": false, "fault": kind})
		return false, ErrInjected
	case "false":
		w.c.Log.Emit(Ev{"ev": "PreCheckUnlock", "r": rid, "ok": false, "fault": kind})
		return false, nil
	}
	aname := wallet.Name() + "/" + account.Name()
	w.c.Log.Emit(Ev{"ev": "UnlockEnter", "r": rid, "a": aname})
	ok, err := w.in.UnlockAccount(ctx, wallet, account)
	w.c.Log.Emit(Ev{"ev": "PreCheckUnlock", "r": rid, "a": aname, "ok": ok && err == nil})
	return ok, err
}

// lockedAccount wraps an account so that IsUnlocked reports an error or "locked" (fault injection
// for the IsUnlocked call site, which is a method of the wallet library's account).
type lockedAccount struct {
	e2wtypes.Account
	mode string
}

func (a *lockedAccount) IsUnlocked(ctx context.Context) (bool, error) {
	if a.mode == "error" {
		return false, errors.New("verif: injected IsUnlocked failure")
	}
	return false, nil
}
func (a *lockedAccount) Lock(ctx context.Context) error { return nil }
func (a *lockedAccount) Unlock(ctx context.Context, p []byte) error {
	return errors.New("verif: cannot unlock")
}
func (a *lockedAccount) Sign(ctx context.Context, data []byte) (e2types.Signature, error) {
	return a.Account.(e2wtypes.AccountSigner).Sign(ctx, data)
}

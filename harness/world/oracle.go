package world

import (
	"crypto/sha256"
	"encoding/binary"

	e2types "github.com/wealdtech/go-eth2-types/v2"
)

// Independent (hand-written, sha256 only) SSZ hash-tree-roots used to decide what a returned
// signature actually signs.  Shares no code with go-eth2-client / fastssz.

func h2(a, b [32]byte) [32]byte {
	var buf [64]byte
	copy(buf[:32], a[:])
	copy(buf[32:], b[:])
	return sha256.Sum256(buf[:])
}

func leafU64(v uint64) [32]byte {
	var l [32]byte
	binary.LittleEndian.PutUint64(l[:8], v)
	return l
}

func leafBytes(b []byte) [32]byte {
	var l [32]byte
	copy(l[:], b) // same truncation/padding as the code's copy() into a [32]byte
	return l
}

func merkle8(leaves [8][32]byte) [32]byte {
	a := h2(leaves[0], leaves[1])
	b := h2(leaves[2], leaves[3])
	c := h2(leaves[4], leaves[5])
	d := h2(leaves[6], leaves[7])
	return h2(h2(a, b), h2(c, d))
}

// AttRoot is hash_tree_root(AttestationData).
func AttRoot(slot, index uint64, bbr []byte, srcEpoch uint64, srcRoot []byte, tgtEpoch uint64, tgtRoot []byte) [32]byte {
	var l [8][32]byte
	l[0] = leafU64(slot)
	l[1] = leafU64(index)
	l[2] = leafBytes(bbr)
	l[3] = h2(leafU64(srcEpoch), leafBytes(srcRoot))
	l[4] = h2(leafU64(tgtEpoch), leafBytes(tgtRoot))
	return merkle8(l)
}

// HeaderRoot is hash_tree_root(BeaconBlockHeader).
func HeaderRoot(slot, proposer uint64, parent, state, body []byte) [32]byte {
	var l [8][32]byte
	l[0] = leafU64(slot)
	l[1] = leafU64(proposer)
	l[2] = leafBytes(parent)
	l[3] = leafBytes(state)
	l[4] = leafBytes(body)
	return merkle8(l)
}

// SigningRoot is hash_tree_root(SigningData{object_root, domain}).
func SigningRoot(objectRoot [32]byte, domain []byte) [32]byte {
	return h2(objectRoot, leafBytes(domain))
}

// VerifySig checks a BLS signature over a 32-byte signing root under pubkey.
func VerifySig(pubkey []byte, root [32]byte, sig []byte) bool {
	pk, err := e2types.BLSPublicKeyFromBytes(pubkey)
	if err != nil {
		return false
	}
	s, err := e2types.BLSSignatureFromBytes(sig)
	if err != nil {
		return false
	}
	return s.Verify(root[:], pk)
}

package world

import (
	"strings"
	"errors"
	"fmt"
	"os"
	"sync"
	"syscall"
	"time"
)

// Fault is one planned fault: the nth passage (1-based, counted per (Rid,Site,Key) pattern) of a
// matching point returns an error (Kind "error") or, for wrapper sites that support it, an
// override (Kind "unknown", "denied", "failed", "short", "false", "garbage").
type Fault struct {
	Site string `json:"site"`
	Rid  string `json:"rid,omitempty"` // "" = any
	Key  string `json:"key,omitempty"` // "" = any (abstract key name, e.g. "k0")
	Nth  int    `json:"nth,omitempty"` // 0 = every passage
	Kind string `json:"kind"`
	seen int
}

// Token is one step of an imposed schedule: let request Rid advance until it has passed the gate Site
// (for key Key if given).
type Token struct {
	Rid  string `json:"r"`
	Site string `json:"site"`
	Key  string `json:"k,omitempty"`
}

type reqState struct {
	finished bool  // the request function returned (possibly while one of its goroutines is still parked)
	status  string // "running", "parked", "lockwait", "done"
	site    string
	key     string
	release chan struct{}
	releasedAt time.Time
}

// Control owns fault plans, the kill plan, passage counting and the deterministic scheduler.
type Control struct {
	Log *Log

	mu       sync.Mutex
	cond     *sync.Cond
	faults   []*Fault
	passages int
	killAt   int
	// FaultsHit lists the faults that actually fired.
	FaultsHit []string

	// scheduler state
	gating  bool
	reqs    map[string]*reqState
	owner   map[string]string // lock name ("map" or key name) -> rid holding it
	Deviate []string
	// OnDoneWhileParked is called when a request returns while one of its goroutines is parked at a gate
	// (e.g. the response is sent while the store of its record is still pending).
	OnDoneWhileParked func(rid, site string)
	// CloseFn closes the slashing database (token site "close": shutdown begins while requests are in flight).
	CloseFn func()
	// StartFn launches a request that the schedule has not started yet.
	StartFn func(rid string)
	// CancelFn makes the caller of a request go away (cancels its context).
	CancelFn func(rid string)
	cancelled map[string]bool
	// Blocked records "rid blocked on lock held by rid" observations.
	Blocked []string
}

// NewControl creates a control block.
func NewControl(l *Log) *Control {
	c := &Control{Log: l, reqs: map[string]*reqState{}, owner: map[string]string{}}
	c.cond = sync.NewCond(&c.mu)
	return c
}

// SetFaults installs the fault plan.
func (c *Control) SetFaults(f []*Fault) {
	c.mu.Lock()
	c.faults = f
	c.FaultsHit = nil
	c.mu.Unlock()
}

// SetKill arranges for the process to SIGKILL itself at the n-th passage (0 = never).
func (c *Control) SetKill(n int) {
	c.mu.Lock()
	c.killAt = n
	c.passages = 0
	c.mu.Unlock()
}

// Passages returns the number of passages counted so far.
func (c *Control) Passages() int {
	c.mu.Lock()
	defer c.mu.Unlock()
	return c.passages
}

// ErrInjected is returned by faulted points.
var ErrInjected = errors.New("verif: injected fault")

// gateSites are the sites at which a request's (single) thread of control can be parked.
var gateSites = map[string]bool{
	"ruler.enter": true, "prelock": true, "lock": true, "postlock": true, "unlock": true,
	"store.fetch.enter": true, "store.store.enter": true, "store.batch.enter": true,
	"ruler.exit": true,
}

// killSites are the sites counted as crash points.
func isKillSite(site string) bool { return true }

// Point is passed by every wrapper and hook.  It counts the passage (and kills the process if
// planned), parks the request if the scheduler is gating, and returns the planned fault kind
// ("" = none).
func (c *Control) Point(rid, site, key string) string {
	c.mu.Lock()
	c.passages++
	n := c.passages
	kill := c.killAt != 0 && n == c.killAt
	c.mu.Unlock()
	if kill {
		c.Log.Emit(Ev{"ev": "Kill", "r": rid, "site": site, "k": key, "passage": n})
		_ = syscall.Kill(os.Getpid(), syscall.SIGKILL)
		time.Sleep(10 * time.Second)
	}
	if c.gating && rid != "" && gateSites[site] {
		c.park(rid, site, key)
	}
	c.mu.Lock()
	defer c.mu.Unlock()
	frid := strings.TrimSuffix(rid, "~") // (a fault planned for a request also meets work running beside that request)
	for _, f := range c.faults {
		if f.Site != site || (f.Rid != "" && f.Rid != frid) || (f.Key != "" && f.Key != key) {
			continue
		}
		f.seen++
		if f.Nth == 0 || f.seen == f.Nth {
			c.FaultsHit = append(c.FaultsHit, fmt.Sprintf("%s/%s/%s#%d:%s", site, rid, key, f.seen, f.Kind))
			return f.Kind
		}
	}
	return ""
}

// ---- scheduler ----

// StartGating switches the scheduler on for the given request ids; requests in lazy are only
// launched when the schedule says so (token site "start") or when the schedule is exhausted.
func (c *Control) StartGating(rids []string, lazy map[string]bool) {
	c.mu.Lock()
	c.gating = true
	c.reqs = map[string]*reqState{}
	c.owner = map[string]string{}
	c.cancelled = nil
	c.Deviate = nil
	c.Blocked = nil
	for _, r := range rids {
		c.reqs[r] = &reqState{status: "running"}
		if lazy[r] {
			c.reqs[r].status = "unstarted"
		}
	}
	c.mu.Unlock()
}

func (c *Control) startLocked(rid string) {
	s := c.reqs[rid]
	if s != nil && s.status == "unstarted" {
		s.status = "running"
		if c.StartFn != nil {
			go c.StartFn(rid)
		}
	}
}

// StopGating switches the scheduler off and releases everything parked.
func (c *Control) StopGating() {
	c.mu.Lock()
	c.gating = false
	for _, s := range c.reqs {
		if s.status == "parked" {
			s.status = "running"
			close(s.release)
		}
	}
	c.cond.Broadcast()
	c.mu.Unlock()
}

func (c *Control) park(rid, site, key string) {
	c.mu.Lock()
	s := c.reqs[rid]
	if s != nil && c.gating && s.status == "parked" {
		// ANOTHER goroutine working for this request is parked already (the shipped code has one thread of control per request between
		// the gates; work that runs beside or outlives its request - e.g. a rule evaluation that goes on after the ruler has returned -
		// gives two): the newcomer is an actor of its own, "<rid>~"
		rid += "~"
		s = c.reqs[rid]
		if s == nil {
			s = &reqState{status: "running"}
			c.reqs[rid] = s
		}
	}
	if s == nil || !c.gating {
		c.mu.Unlock()
		return
	}
	s.status, s.site, s.key = "parked", site, key
	s.release = make(chan struct{})
	ch := s.release
	var cb func(string, string)
	if s.finished {
		cb = c.OnDoneWhileParked // the request already answered, yet one of its goroutines only now gets here
	}
	c.cond.Broadcast()
	c.mu.Unlock()
	if cb != nil {
		cb(rid, site)
	}
	<-ch
}

// LockWait is called by the locker wrapper before a blocking Lock/PreLock call.
func (c *Control) LockWait(rid, name string) {
	c.mu.Lock()
	if s := c.reqs[rid]; s != nil {
		s.status, s.site, s.key = "lockwait", "lock", name
	}
	c.cond.Broadcast()
	c.mu.Unlock()
}

// LockAcquired is called by the locker wrapper after Lock/PreLock returned.
func (c *Control) LockAcquired(rid, name string) {
	c.mu.Lock()
	c.owner[name] = rid
	if s := c.reqs[rid]; s != nil {
		s.status = "running"
	}
	c.cond.Broadcast()
	c.mu.Unlock()
}

// LockReleasing is called by the locker wrapper before Unlock/PostLock.
func (c *Control) LockReleasing(rid, name string) {
	c.mu.Lock()
	if c.owner[name] == rid {
		delete(c.owner, name)
	}
	c.cond.Broadcast()
	c.mu.Unlock()
}

// Done marks a request as finished.
func (c *Control) Done(rid string) {
	c.mu.Lock()
	var cb func(string, string)
	site := ""
	if s := c.reqs[rid]; s != nil {
		s.finished = true
		if s.status == "parked" {
			// keep it parked (it is released later); report
			cb, site = c.OnDoneWhileParked, s.site
		} else {
			s.status = "done"
		}
	}
	c.cond.Broadcast()
	c.mu.Unlock()
	if cb != nil {
		cb(rid, site)
	}
}

// stable reports, under c.mu, whether request state s cannot change without scheduler action.
func (c *Control) stableLocked(rid string, s *reqState) bool {
	if s.status == "running" {
		// a request one of whose two actors (rid, rid~) is parked may be waiting for that one
		if o := c.reqs[rid+"~"]; o != nil && o.status == "parked" {
			return true
		}
		if strings.HasSuffix(rid, "~") {
			if o := c.reqs[strings.TrimSuffix(rid, "~")]; o != nil && o.status == "parked" {
				return true
			}
		}
	}
	switch s.status {
	case "parked", "done", "unstarted":
		return true
	case "lockwait":
		o, held := c.owner[s.key]
		_ = o
		return held // held by someone (possibly itself): genuinely blocked until that one moves
	}
	return false
}

// waitStable waits until every request is parked, done or blocked on a held lock.
// It returns false if that does not happen within the timeout.
func (c *Control) waitStable(timeout time.Duration) bool {
	deadline := time.Now().Add(timeout)
	c.mu.Lock()
	defer c.mu.Unlock()
	for {
		all := true
		for r, s := range c.reqs {
			if !c.stableLocked(r, s) {
				all = false
				break
			}
		}
		if all {
			return true
		}
		if time.Now().After(deadline) {
			return false
		}
		// cond.Wait with a wake-up ticker.
		go func() {
			time.Sleep(20 * time.Millisecond)
			c.cond.Broadcast()
		}()
		c.cond.Wait()
	}
}

func recentlyReleased(s *reqState) bool {
	return s != nil && !s.releasedAt.IsZero() && time.Since(s.releasedAt) < 60*time.Millisecond
}

func (c *Control) releaseLocked(rid string) {
	s := c.reqs[rid]
	if s != nil && s.status == "parked" {
		s.releasedAt = time.Now()
		s.status = "running"
		if s.finished || strings.HasSuffix(rid, "~") {
			s.status = "done" // (an actor beside its request is not followed further; if it reaches another gate it parks again)
		}
		close(s.release)
	}
}

// SchedResult is the outcome of running a schedule.
type SchedResult struct {
	Deadlock   bool     `json:"deadlock"`
	Stuck      bool     `json:"stuck"` // watchdog without deadlock evidence
	Deviations []string `json:"deviations"`
	Blocked    []string `json:"blocked"`
}

// RunSchedule drives the gated requests through the token list, then drains.
func (c *Control) RunSchedule(tokens []Token) SchedResult {
	res := SchedResult{}
	const to = 20 * time.Second
	noteBlocked := func() {
		c.mu.Lock()
		for r, s := range c.reqs {
			if s.status == "lockwait" {
				if o, held := c.owner[s.key]; held {
					m := fmt.Sprintf("%s waits for %s held by %s", r, s.key, o)
					dup := false
					for _, b := range res.Blocked {
						if b == m {
							dup = true
						}
					}
					if !dup {
						res.Blocked = append(res.Blocked, m)
						c.Log.Emit(Ev{"ev": "Blocked", "r": r, "lock": s.key, "by": o})
					}
				}
			}
		}
		c.mu.Unlock()
	}
	allDoneOrBlocked := func() (done bool, dead bool) {
		c.mu.Lock()
		defer c.mu.Unlock()
		done, anyParked, anyBlocked := true, false, false
		for _, s := range c.reqs {
			if s.status != "done" {
				done = false
			}
			if s.status == "parked" || s.status == "unstarted" {
				anyParked = true
			}
			if s.status == "lockwait" {
				anyBlocked = true
			}
		}
		return done, !done && !anyParked && anyBlocked
	}
	// abandon: some request neither parks nor waits for a lock with a known holder (it waits for something the wrappers cannot see,
	// e.g. a lock taken inside the locker itself, whose holder may be parked at a gate).  The imposed schedule is given up: every
	// parked or unstarted request is let go and the requests run freely; whether they finish, or end up waiting on each other,
	// is then established as usual (logged lock ownership, or the goroutine dump of the watchdog).
	orphanWaits := map[string]int{}
	abandoned := false
	abandon := func() {
		abandoned = true
		res.Deviations = append(res.Deviations, "schedule abandoned: a request neither parks nor waits for a lock with a known holder; all parked requests released")
		c.mu.Lock()
		c.gating = false
		for r, s := range c.reqs {
			if s.status == "unstarted" {
				c.startLocked(r)
			} else {
				c.releaseLocked(r)
			}
		}
		c.mu.Unlock()
	}
tokenLoop:
	for _, t := range tokens {
		if t.Site == "cancel" {
			// the caller of this request goes away now (wherever the request is parked)
			if c.waitStable(to) && c.CancelFn != nil {
				c.mu.Lock()
				if c.cancelled == nil {
					c.cancelled = map[string]bool{}
				}
				c.cancelled[t.Rid] = true
				c.mu.Unlock()
				c.CancelFn(t.Rid)
				// give the request's own goroutine a moment to notice (a request that does not look at its context notices nothing)
				time.Sleep(30 * time.Millisecond)
			}
			continue
		}
		if t.Site == "start" {
			c.mu.Lock()
			c.startLocked(t.Rid)
			c.mu.Unlock()
			continue
		}
		if t.Site == "close" {
			if c.CloseFn != nil {
				c.CloseFn()
			}
			// after the close every parked request is let go; a request that then neither finishes nor parks within
			// three seconds is reported as hung (the write batch of the pinned badger version never returns on a closed store)
			c.mu.Lock()
			for r := range c.reqs {
				c.releaseLocked(r)
			}
			c.mu.Unlock()
			if !c.waitStable(3 * time.Second) {
				res.Stuck = true
				res.Deviations = append(res.Deviations, "hung after close")
				return res
			}
			continue
		}
		hold, until := "", ""
		if len(t.Site) > 5 && t.Site[:5] == "hold:" {
			hold = t.Site[5:]
		}
		if len(t.Site) > 6 && t.Site[:6] == "until:" {
			until = t.Site[6:] // advance until PARKED at the gate (not released)
		}
		// Advance t.Rid until it has passed gate (t.Site, t.Key); site "done" = until it has finished;
		// "hold:<gate>" = until it is parked at <gate>, then watch for a while whether the request answers
		// although it is parked there, then let it go.
		for steps := 0; steps < 64; steps++ {
			if !c.waitStable(to) {
				abandon()
				break tokenLoop
			}
			noteBlocked()
			c.mu.Lock()
			s := c.reqs[t.Rid]
			rid := t.Rid
			if s2 := c.reqs[t.Rid+"~"]; s2 != nil && s2.status == "parked" && s2.site == t.Site {
				s, rid = s2, t.Rid+"~" // the step the token names is being taken by work running beside the request
			}
			if s != nil && s.status == "done" && t.Site == "done" {
				c.mu.Unlock()
				break
			}
			if s != nil && s.status == "lockwait" {
				// the request is blocked on a lock whose holder is parked: the imposed order cannot be had at this point.  The holder
				// is advanced by ONE gate and the token tried again, so that the schedule is realised as closely as the code's own
				// blocking allows (the blocked request goes ahead the moment the holder lets go, not after the holder has finished).
				if o, held := c.owner[s.key]; held && o != t.Rid {
					if recentlyReleased(c.reqs[o]) || recentlyReleased(c.reqs[o+"~"]) {
						// an actor of the holder has just been let go (it may be about to release this very lock): look again in a moment
						c.mu.Unlock()
						time.Sleep(2 * time.Millisecond)
						continue
					}
					if tw := c.reqs[o+"~"]; tw != nil && tw.status == "parked" && (tw.site == "unlock" || c.reqs[o] == nil || c.reqs[o].status != "parked") {
						o += "~" // of two parked actors of the holder, the one at the unlock gate is the one that lets the lock go
					}
					if os := c.reqs[o]; os != nil && os.status == "parked" {
						res.Deviations = append(res.Deviations, fmt.Sprintf("%s@%s:%s waits for %s: holder %s advanced past %s", t.Rid, t.Site, t.Key, s.key, o, os.site))
						c.releaseLocked(o)
						c.mu.Unlock()
						continue
					}
					if os := c.reqs[o]; os != nil && os.status == "running" {
						// the holder is on its way (it has just been let go and is about to release the lock, or to reach its next gate):
						// not a deviation yet - look again once it has settled
						c.mu.Unlock()
						time.Sleep(2 * time.Millisecond)
						continue
					}
				}
			}
			if s != nil && s.status == "done" && c.cancelled[t.Rid] && t.Site != "done" && orphanWaits[t.Rid] < 3 {
				// the caller of this request has gone away and the request has been answered; work that was started for it may still
				// be on its way to a gate (it would be an orphan: the shipped code starts none) - give it a moment before moving on
				orphanWaits[t.Rid]++
				c.mu.Unlock()
				time.Sleep(150 * time.Millisecond)
				continue
			}
			if s == nil || s.status != "parked" {
				st := "unknown"
				if s != nil {
					st = s.status
				}
				res.Deviations = append(res.Deviations, fmt.Sprintf("%s@%s:%s request %s", t.Rid, t.Site, t.Key, st))
				c.mu.Unlock()
				break
			}
			hit := s.site == t.Site && (t.Key == "" || t.Key == s.key)
			if until != "" && s.site == until {
				c.mu.Unlock()
				break
			}
			if hold != "" && s.site == hold {
				c.mu.Unlock()
				for w := 0; w < 30; w++ {
					time.Sleep(10 * time.Millisecond)
					c.mu.Lock()
					fin := s.finished
					c.mu.Unlock()
					if fin {
						break
					}
				}
				c.mu.Lock()
				c.releaseLocked(t.Rid)
				if s.finished {
					s.status = "done"
				}
				c.mu.Unlock()
				break
			}
			c.releaseLocked(rid)
			c.mu.Unlock()
			if hit {
				break
			}
		}
		if d, dead := allDoneOrBlocked(); d {
			break
		} else if dead {
			if c.waitStable(to) {
				if _, dead2 := allDoneOrBlocked(); dead2 {
					noteBlocked()
					res.Deadlock = true
					return res
				}
			}
		}
	}
	// Drain: release parked requests, lowest id first, until all are done.
	for i := 0; i < 100000; i++ {
		if !c.waitStable(to) {
			if !abandoned {
				abandon()
				continue
			}
			res.Stuck = true
			return res
		}
		noteBlocked()
		done, dead := allDoneOrBlocked()
		if done {
			return res
		}
		if dead {
			res.Deadlock = true
			return res
		}
		c.mu.Lock()
		pick := ""
		for r, s := range c.reqs {
			if (s.status == "parked" || s.status == "unstarted") && (pick == "" || r < pick) {
				pick = r
			}
		}
		if pick != "" && c.reqs[pick].status == "unstarted" {
			c.startLocked(pick)
		} else {
			c.releaseLocked(pick)
		}
		c.mu.Unlock()
	}
	res.Stuck = true
	return res
}

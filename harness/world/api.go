package world

import (
	"sync"

	"path/filepath"
	"os/exec"
	"context"
	"crypto/ecdsa"
	"crypto/elliptic"
	"crypto/rand"
	"crypto/tls"
	"crypto/x509"
	"crypto/x509/pkix"
	"encoding/pem"
	"fmt"
	"math/big"
	"net"
	"os"
	"strings"
	"syscall"
	"time"

	standardaccountmanager "github.com/attestantio/dirk/services/accountmanager/standard"
	grpcapi "github.com/attestantio/dirk/services/api/grpc"
	staticpeers "github.com/attestantio/dirk/services/peers/static"
	standardprocess "github.com/attestantio/dirk/services/process/standard"
	standardwalletmanager "github.com/attestantio/dirk/services/walletmanager/standard"
	pb "github.com/wealdtech/eth2-signer-api/pb/v1"
	e2wtypes "github.com/wealdtech/go-eth2-wallet-types/v2"
	"google.golang.org/grpc"
	"google.golang.org/grpc/credentials"
	"google.golang.org/grpc/credentials/insecure"
	"google.golang.org/protobuf/proto"
)

// PKI is a throw-away certificate authority with helpers to mint certificates.
type PKI struct {
	CAKey  *ecdsa.PrivateKey
	CACert *x509.Certificate
	CAPEM  []byte
	serial int64
}

// NewPKI creates a certificate authority.
func NewPKI(cn string) (*PKI, error) {
	key, err := ecdsa.GenerateKey(elliptic.P256(), rand.Reader)
	if err != nil {
		return nil, err
	}
	tmpl := &x509.Certificate{SerialNumber: big.NewInt(1), Subject: pkix.Name{CommonName: cn}, NotBefore: time.Now().Add(-time.Hour),
		NotAfter: time.Now().Add(24 * time.Hour), IsCA: true, KeyUsage: x509.KeyUsageCertSign | x509.KeyUsageDigitalSignature, BasicConstraintsValid: true}
	der, err := x509.CreateCertificate(rand.Reader, tmpl, tmpl, &key.PublicKey, key)
	if err != nil {
		return nil, err
	}
	cert, _ := x509.ParseCertificate(der)
	return &PKI{CAKey: key, CACert: cert, CAPEM: pem.EncodeToMemory(&pem.Block{Type: "CERTIFICATE", Bytes: der}), serial: 1}, nil
}

// Issue mints a leaf certificate; selfSigned ignores the CA; expired makes it lapse an hour ago.
func (p *PKI) Issue(cn string, server bool, selfSigned bool, expired bool) (der []byte, key *ecdsa.PrivateKey, err error) {
	return p.IssueSAN(cn, nil, server, selfSigned, expired)
}

// IssueSAN is Issue with subject alternative names (DNS) on a client certificate: they name nobody - the identity is the subject's common name.
func (p *PKI) IssueSAN(cn string, sans []string, server bool, selfSigned bool, expired bool) (der []byte, key *ecdsa.PrivateKey, err error) {
	key, err = ecdsa.GenerateKey(elliptic.P256(), rand.Reader)
	if err != nil {
		return nil, nil, err
	}
	p.serial++
	tmpl := &x509.Certificate{SerialNumber: big.NewInt(p.serial), Subject: pkix.Name{CommonName: cn}, NotBefore: time.Now().Add(-2 * time.Hour),
		NotAfter: time.Now().Add(12 * time.Hour), KeyUsage: x509.KeyUsageDigitalSignature,
		ExtKeyUsage: []x509.ExtKeyUsage{x509.ExtKeyUsageClientAuth, x509.ExtKeyUsageServerAuth}}
	if expired {
		tmpl.NotAfter = time.Now().Add(-time.Hour)
	}
	if len(sans) > 0 {
		tmpl.DNSNames = sans
		tmpl.EmailAddresses = sans
		tmpl.Subject.Organization = sans
		tmpl.Subject.OrganizationalUnit = sans
	}
	if server {
		tmpl.DNSNames = []string{"localhost", cn}
		tmpl.IPAddresses = []net.IP{net.ParseIP("127.0.0.1")}
		if ip := net.ParseIP(cn); ip != nil { // a node named by its (loopback) address
			tmpl.IPAddresses = append(tmpl.IPAddresses, ip)
		}
	}
	parent, signer := p.CACert, p.CAKey
	if selfSigned {
		parent, signer = tmpl, key
	}
	der, err = x509.CreateCertificate(rand.Reader, tmpl, parent, &key.PublicKey, signer)
	return der, key, err
}

func keyPEM(k *ecdsa.PrivateKey) []byte {
	b, _ := x509.MarshalECPrivateKey(k)
	return pem.EncodeToMemory(&pem.Block{Type: "EC PRIVATE KEY", Bytes: b})
}

func certPEM(der []byte) []byte { return pem.EncodeToMemory(&pem.Block{Type: "CERTIFICATE", Bytes: der}) }

var netDialer10s = net.Dialer{Timeout: 10 * time.Second}

// APIServer is a real gRPC API service of Dirk on 127.0.0.1 in front of a real world.
type APIServer struct {
	Addr   string
	PKI    *PKI
	Other  *PKI // a different authority
	B      *Base
	St     *Stack
	cancel context.CancelFunc
	Dir    string
	proc   *exec.Cmd // external mode: the real dirk binary
	exited chan struct{}
	fromIP string // DialFrom: source address of the next connection
}

var (
	hostTrustOnce sync.Once
	hostTrustPKI  *PKI
	hostTrustErr  error
)

// HostTrust gives this process - and every program it starts - an operating-system trust store of its own: SSL_CERT_FILE names a
// file with ONE "public" authority, SSL_CERT_DIR an empty directory.  The configured client authority of a server is never this
// one; a certificate issued by it is what "some authority the machine happens to trust" looks like (credential kind publicca-X).
func HostTrust() (*PKI, error) {
	hostTrustOnce.Do(func() {
		hostTrustPKI, hostTrustErr = NewPKI("a public CA of the host trust store")
		if hostTrustErr != nil {
			return
		}
		var dir string
		if dir, hostTrustErr = os.MkdirTemp("", "hosttrust"); hostTrustErr != nil {
			return
		}
		f := filepath.Join(dir, "ca-certificates.crt")
		if hostTrustErr = os.WriteFile(f, hostTrustPKI.CAPEM, 0o644); hostTrustErr != nil {
			return
		}
		_ = os.MkdirAll(filepath.Join(dir, "certs"), 0o755)
		os.Setenv("SSL_CERT_FILE", f)
		os.Setenv("SSL_CERT_DIR", filepath.Join(dir, "certs"))
	})
	return hostTrustPKI, hostTrustErr
}

// StartAPIServer builds a world (wallets W1 for client c1, W2 for client c2, distributed wallet DW for both) and
// serves it with the repository's gRPC service, TLS material minted on the spot.
func StartAPIServer(ctx context.Context, log *Log) (*APIServer, error) {
	return StartAPIServerMode(ctx, log, "bare")
}

// StartAPIServerMode: mode says how the server's own certificate file is set up - "bare" (leaf issued by the client CA),
// "samechain" (that leaf followed by the CA certificate), "foreignchain" (a leaf of the OTHER authority followed by that
// authority's certificate).  The configured client CA is the same in all three.
func StartAPIServerMode(ctx context.Context, log *Log, mode string) (*APIServer, error) {
	if _, err := HostTrust(); err != nil {
		return nil, err
	}
	pki, err := NewPKI("verif CA")
	if err != nil {
		return nil, err
	}
	other, err := NewPKI("another CA")
	if err != nil {
		return nil, err
	}
	spec := Spec{Wallets: []WalletSpec{{Name: "W1", Type: "nd", Accounts: []AccountSpec{{Name: "a0", KeyIdx: 0}, {Name: "a1", KeyIdx: 1}}},
		{Name: "W2", Type: "nd", Accounts: []AccountSpec{{Name: "b0", KeyIdx: 2}, {Name: "b1", KeyIdx: 3}}}, {Name: "DW", Type: "distributed"}},
		Perms: []ClientPerms{{Client: "c1", Perms: []Perm{{Path: "W1", Ops: []string{"All"}}, {Path: "DW", Ops: []string{"All"}}}},
			{Client: "c2", Perms: []Perm{{Path: "W2", Ops: []string{"All"}}}}}, AdminIPs: []string{"127.0.0.1"}}
	ctl := NewControl(log)
	b, err := NewBase(ctx, spec, log, ctl)
	if err != nil {
		return nil, err
	}
	peersSvc, err := staticpeers.New(ctx, staticpeers.WithPeers(map[uint64]string{1: "signer-1:9091", 2: "signer-2:9092"}))
	if err != nil {
		return nil, err
	}
	proc, err := standardprocess.New(ctx, standardprocess.WithChecker(b.Checker), standardprocess.WithFetcher(b.Fetcher),
		standardprocess.WithUnlocker(b.Unlocker), standardprocess.WithSender(nullSender{}), standardprocess.WithPeers(peersSvc),
		standardprocess.WithID(1), standardprocess.WithStores([]e2wtypes.Store{b.Store}), standardprocess.WithEncryptor(b.Encryptor),
		standardprocess.WithGenerationPassphrase([]byte("pass")), standardprocess.WithGenerationTimeout(10*time.Second))
	if err != nil {
		return nil, err
	}
	dir, err := os.MkdirTemp("", "apidb")
	if err != nil {
		return nil, err
	}
	st, err := NewStack(ctx, b, dir, proc)
	if err != nil {
		return nil, err
	}
	sctx, cancel := context.WithCancel(ctx)
	am, err := standardaccountmanager.New(sctx, standardaccountmanager.WithUnlocker(b.Unlocker), standardaccountmanager.WithChecker(b.Checker),
		standardaccountmanager.WithFetcher(b.Fetcher), standardaccountmanager.WithRuler(st.Ruler), standardaccountmanager.WithProcess(proc))
	if err != nil {
		cancel()
		return nil, err
	}
	wm, err := standardwalletmanager.New(sctx, standardwalletmanager.WithUnlocker(b.Unlocker), standardwalletmanager.WithChecker(b.Checker),
		standardwalletmanager.WithFetcher(b.Fetcher), standardwalletmanager.WithRuler(st.Ruler))
	if err != nil {
		cancel()
		return nil, err
	}
	issuer := pki
	if mode == "foreignchain" {
		issuer = other
	}
	sder, skey, err := issuer.Issue("signer-1", true, false, false)
	if err != nil {
		cancel()
		return nil, err
	}
	serverPEM := certPEM(sder)
	if mode == "samechain" || mode == "foreignchain" {
		serverPEM = append(append([]byte{}, serverPEM...), issuer.CAPEM...)
	}
	l, err := net.Listen("tcp", "127.0.0.1:0")
	if err != nil {
		cancel()
		return nil, err
	}
	addr := l.Addr().String()
	_ = l.Close()
	if _, err := grpcapi.New(sctx, grpcapi.WithSigner(st.Signer), grpcapi.WithLister(st.Lister), grpcapi.WithProcess(proc), grpcapi.WithAccountManager(am),
		grpcapi.WithWalletManager(wm), grpcapi.WithPeers(peersSvc), grpcapi.WithName("signer-1"), grpcapi.WithID(1), grpcapi.WithServerCert(serverPEM),
		grpcapi.WithServerKey(keyPEM(skey)), grpcapi.WithCACert(pki.CAPEM), grpcapi.WithListenAddress(addr)); err != nil {
		cancel()
		return nil, err
	}
	return &APIServer{Addr: addr, PKI: pki, Other: other, B: b, St: st, cancel: cancel, Dir: dir}, nil
}

// Stop shuts the server down.
func (a *APIServer) Stop(ctx context.Context) {
	if a.proc != nil {
		_ = a.proc.Process.Kill()
		<-a.exited
		os.RemoveAll(a.Dir)
		return
	}
	a.cancel()
	_ = a.St.Close(ctx)
	os.RemoveAll(a.Dir)
}

// ExternalStderr returns what the external binary wrote to its standard error (the panic message, if it died of one).
func (a *APIServer) ExternalStderr() string {
	if a.proc == nil {
		return ""
	}
	out, _ := os.ReadFile(filepath.Join(a.Dir, "dirk.stderr"))
	if len(out) > 8000 {
		out = append(out[:5000], out[len(out)-3000:]...)
	}
	return string(out)
}

// Alive reports whether the external binary is still running (always true for the in-process server).
func (a *APIServer) Alive() bool {
	if a.proc == nil {
		return true
	}
	return !hasExited(a.exited)
}

// StartExternalDirk prepares what the SHIPPED PROGRAM needs on disk - a filesystem wallet store with the same population as the
// in-process world, certificate files for the given server set-up, a dirk.yml with the same permissions, peers and unlocker
// passphrases - and starts the real dirk binary (main.go's own configuration reading and wiring) on a free local port.
func StartExternalDirk(ctx context.Context, log *Log, mode string, binary string) (*APIServer, error) {
	if _, err := HostTrust(); err != nil { // (the started program inherits SSL_CERT_FILE / SSL_CERT_DIR)
		return nil, err
	}
	pki, err := NewPKI("verif CA")
	if err != nil {
		return nil, err
	}
	other, err := NewPKI("another CA")
	if err != nil {
		return nil, err
	}
	base, err := os.MkdirTemp("", "dirkbase")
	if err != nil {
		return nil, err
	}
	wallets := filepath.Join(base, "wallets")
	spec := Spec{Wallets: []WalletSpec{{Name: "W1", Type: "nd", Accounts: []AccountSpec{{Name: "a0", KeyIdx: 0}, {Name: "a1", KeyIdx: 1}}},
		{Name: "W2", Type: "nd", Accounts: []AccountSpec{{Name: "b0", KeyIdx: 2}, {Name: "b1", KeyIdx: 3}}}, {Name: "DW", Type: "distributed"}}, WalletDir: wallets}
	xb, err := NewBase(ctx, spec, log, NewControl(log))
	if err != nil {
		return nil, err
	}
	issuer := pki
	if mode == "foreignchain" {
		issuer = other
	}
	sder, skey, err := issuer.Issue("signer-1", true, false, false)
	if err != nil {
		return nil, err
	}
	serverPEM := certPEM(sder)
	if mode == "samechain" || mode == "foreignchain" {
		serverPEM = append(append([]byte{}, serverPEM...), issuer.CAPEM...)
	}
	addr, err := FreeAddr("127.0.0.1")
	if err != nil {
		return nil, err
	}
	files := map[string][]byte{"server.crt": serverPEM, "server.key": keyPEM(skey), "ca.crt": pki.CAPEM, "pass.txt": []byte("pass")}
	for n, b := range files {
		if err := os.WriteFile(filepath.Join(base, n), b, 0o600); err != nil {
			return nil, err
		}
	}
	_, port, _ := net.SplitHostPort(addr)
	cfg := fmt.Sprintf(`log-level: warn
server:
  id: 1
  name: signer-1
  listen-address: %s
certificates:
  server-cert: file://%s/server.crt
  server-key: file://%s/server.key
  ca-cert: file://%s/ca.crt
storage-path: %s/storage
stores:
- name: Local
  type: filesystem
  location: %s
peers:
  1: signer-1:%s
  2: signer-2:9092
unlocker:
  wallet-passphrases:
  - file://%s/pass.txt
  account-passphrases:
  - file://%s/pass.txt
process:
  generation-passphrase: file://%s/pass.txt
  generation-timeout: 10s
permissions:
  c1:
    W1: All
    DW: All
  c2:
    W2: All
`, addr, base, base, base, base, wallets, port, base, base, base)
	if err := os.WriteFile(filepath.Join(base, "dirk.yml"), []byte(cfg), 0o600); err != nil {
		return nil, err
	}
	cmd := exec.Command(binary, "--base-dir", base)
	cmd.Env = append(os.Environ(), "HOME="+base)
	errf, _ := os.Create(filepath.Join(base, "dirk.stderr"))
	cmd.Stdout, cmd.Stderr = errf, errf
	if err := cmd.Start(); err != nil {
		return nil, err
	}
	a := &APIServer{Addr: addr, PKI: pki, Other: other, Dir: base, proc: cmd, B: xb, exited: watchProc(cmd)}
	if err := waitOurServer(addr, a.exited, filepath.Join(base, "dirk.stderr"), pki, other); err != nil {
		a.Stop(ctx)
		return nil, err
	}
	return a, nil
}

// Dial connects with the named credential kind.
// Dial opens a client connection with the given credential kind.  "X@after-Y": a connection with credential X from the very
// local address (ip:port) that a connection with credential Y used a moment ago (Y connects, makes one request, goes away).
func (a *APIServer) Dial(ctx context.Context, cred string) (*grpc.ClientConn, error) {
	if i := strings.Index(cred, "@after-"); i >= 0 {
		l, err := net.Listen("tcp", "127.0.0.1:0")
		if err != nil {
			return nil, err
		}
		port := l.Addr().(*net.TCPAddr).Port
		_ = l.Close()
		first, err := a.dialPort(ctx, cred[i+len("@after-"):], port)
		if err != nil {
			return nil, err
		}
		cctx, cancel := context.WithTimeout(ctx, 10*time.Second)
		_, ferr := pb.NewListerClient(first).ListAccounts(cctx, &pb.ListAccountsRequest{Paths: []string{"W1"}})
		cancel()
		_ = first.Close()
		if ferr != nil {
			return nil, fmt.Errorf("earlier connection from port %d could not make its request: %w", port, ferr)
		}
		time.Sleep(100 * time.Millisecond)
		return a.dialPort(ctx, cred[:i], port)
	}
	return a.dialPort(ctx, cred, 0)
}

// lingerConn resets the connection on Close so that the local address can be used again at once.
type lingerConn struct{ *net.TCPConn }

func (c lingerConn) Close() error {
	_ = c.TCPConn.SetLinger(0)
	return c.TCPConn.Close()
}

func boundDialer(port int) func(context.Context, string) (net.Conn, error) {
	return boundDialerIP("127.0.0.1", port)
}

// DialFrom opens a client connection whose SOURCE address is the given loopback address (any 127.x.y.z is local).
func (a *APIServer) DialFrom(ctx context.Context, cred, ip string) (*grpc.ClientConn, error) {
	a.fromIP = ip
	defer func() { a.fromIP = "" }()
	return a.dialPort(ctx, cred, -1)
}

func boundDialerIP(ip string, port int) func(context.Context, string) (net.Conn, error) {
	return func(ctx context.Context, addr string) (net.Conn, error) {
		d := net.Dialer{LocalAddr: &net.TCPAddr{IP: net.ParseIP(ip), Port: port}, Control: func(_, _ string, rc syscall.RawConn) error {
			var serr error
			if err := rc.Control(func(fd uintptr) { serr = syscall.SetsockoptInt(int(fd), syscall.SOL_SOCKET, syscall.SO_REUSEADDR, 1) }); err != nil {
				return err
			}
			return serr
		}}
		c, err := d.DialContext(ctx, "tcp", addr)
		if err != nil {
			return nil, err
		}
		return lingerConn{c.(*net.TCPConn)}, nil
	}
}

func (a *APIServer) dialPort(ctx context.Context, cred string, port int) (*grpc.ClientConn, error) {
	pool := x509.NewCertPool()
	pool.AddCert(a.PKI.CACert)
	pool.AddCert(a.Other.CACert) // the clients accept the server certificate of either hierarchy
	cfg := &tls.Config{RootCAs: pool, ServerName: "localhost", MinVersion: tls.VersionTLS13}
	leaf := func(p *PKI, cn string, self, expired bool) (tls.Certificate, error) {
		der, key, err := p.Issue(cn, false, self, expired)
		return tls.Certificate{Certificate: [][]byte{der}, PrivateKey: key}, err
	}
	var opts []grpc.DialOption
	if port > 0 {
		opts = append(opts, grpc.WithContextDialer(boundDialer(port)))
	} else if port < 0 && a.fromIP != "" {
		opts = append(opts, grpc.WithContextDialer(boundDialerIP(a.fromIP, 0)))
	}
	switch {
	case cred == "plaintext":
		opts = append(opts, grpc.WithTransportCredentials(insecure.NewCredentials()))
	case cred == "tls-nocert":
		opts = append(opts, grpc.WithTransportCredentials(credentials.NewTLS(cfg)))
	default:
		var c tls.Certificate
		var err error
		switch {
		case strings.HasPrefix(cred, "selfsigned-"):
			c, err = leaf(a.PKI, strings.TrimPrefix(cred, "selfsigned-"), true, false)
		case strings.HasPrefix(cred, "ticket-otherca-"):
			// other-authority certificate plus a self-minted session ticket (ticket.go)
			c, err = leaf(a.Other, strings.TrimPrefix(cred, "ticket-otherca-"), false, false)
			if err == nil {
				var tcfg *tls.Config
				if tcfg, err = a.forgedTicketConfig(ctx, c); err == nil {
					return grpc.NewClient(a.Addr, grpc.WithTransportCredentials(credentials.NewTLS(tcfg)))
				}
			}
		case strings.HasPrefix(cred, "publicca-"):
			// issued by the authority of the host's trust store (HostTrust), which is not the configured client authority
			var pub *PKI
			if pub, err = HostTrust(); err == nil {
				c, err = leaf(pub, strings.TrimPrefix(cred, "publicca-"), false, false)
			}
		case strings.HasPrefix(cred, "otherca-"):
			c, err = leaf(a.Other, strings.TrimPrefix(cred, "otherca-"), false, false)
		case strings.HasPrefix(cred, "expired-"):
			c, err = leaf(a.PKI, strings.TrimPrefix(cred, "expired-"), false, true)
		case strings.Contains(cred, "+"):
			// "valid-X+selfsigned-Y" / "valid-X+otherca-Y": genuine leaf for X followed by an unverified certificate naming Y
			parts := strings.SplitN(cred, "+", 2)
			c, err = leaf(a.PKI, strings.TrimPrefix(parts[0], "valid-"), false, false)
			if err == nil {
				var extra tls.Certificate
				if strings.HasPrefix(parts[1], "selfsigned-") {
					extra, err = leaf(a.PKI, strings.TrimPrefix(parts[1], "selfsigned-"), true, false)
				} else {
					extra, err = leaf(a.Other, strings.TrimPrefix(parts[1], "otherca-"), false, false)
				}
				if err == nil {
					c.Certificate = append(c.Certificate, extra.Certificate[0])
				}
			}
		case strings.HasPrefix(cred, "valid-") && strings.Contains(cred, "~san-"):
			// "valid-X~san-Y": genuine leaf for X that carries Y as alternative name, organisation and unit
			parts := strings.SplitN(strings.TrimPrefix(cred, "valid-"), "~san-", 2)
			var der []byte
			var key *ecdsa.PrivateKey
			if der, key, err = a.PKI.IssueSAN(parts[0], []string{parts[1]}, false, false, false); err == nil {
				c = tls.Certificate{Certificate: [][]byte{der}, PrivateKey: key}
			}
		case strings.HasPrefix(cred, "valid-"):
			c, err = leaf(a.PKI, strings.TrimPrefix(cred, "valid-"), false, false)
		default:
			err = fmt.Errorf("unknown credential kind %q", cred)
		}
		if err != nil {
			return nil, err
		}
		cfg.Certificates = []tls.Certificate{c}
		opts = append(opts, grpc.WithTransportCredentials(credentials.NewTLS(cfg)))
	}
	return grpc.NewClient(a.Addr, opts...)
}

// APICall describes one RPC to attempt.
type APICall struct {
	ID     string `json:"id"`
	Cred   string `json:"cred"`
	Method string `json:"method"`
	Target string `json:"target"` // wallet owner targeted: "c1" (W1/a0) or "c2" (W2/b0)
	Epoch  uint64 `json:"epoch"`
}

// DoCall performs the call and classifies the outcome: transport ("the RPC never reached a handler") or response,
// and whether the caller obtained data / a state change.
func (a *APIServer) DoCall(ctx context.Context, conn *grpc.ClientConn, c APICall) Ev {
	cctx, cancel := context.WithTimeout(ctx, 5*time.Second)
	defer cancel()
	acct, wallet := "W1/a0", "W1"
	if c.Target == "c2" {
		acct, wallet = "W2/b0", "W2"
	}
	att := &pb.SignBeaconAttestationRequest{Id: &pb.SignBeaconAttestationRequest_Account{Account: acct}, Domain: domainBytes("att", 1),
		Data: &pb.AttestationData{Slot: 1, CommitteeIndex: 1, BeaconBlockRoot: rootBytes("A"), Source: &pb.Checkpoint{Epoch: c.Epoch, Root: rootBytes("s")},
			Target: &pb.Checkpoint{Epoch: c.Epoch + 1, Root: rootBytes("t")}}}
	gen := &pb.SignRequest{Id: &pb.SignRequest_Account{Account: acct}, Domain: domainBytes("randao", 1), Data: rootBytes("D")}
	var err error
	data := false
	detail := ""
	signed := func(st pb.ResponseState, sig []byte) { data = st == pb.ResponseState_SUCCEEDED && len(sig) > 0; detail = st.String() }
	switch c.Method {
	case "Lister.ListAccounts":
		var r *pb.ListAccountsResponse
		if r, err = pb.NewListerClient(conn).ListAccounts(cctx, &pb.ListAccountsRequest{Paths: []string{wallet}}); err == nil {
			data = len(r.GetAccounts()) > 0
			detail = fmt.Sprint(r.GetState(), len(r.GetAccounts()))
		}
	case "Signer.Sign":
		var r *pb.SignResponse
		if r, err = pb.NewSignerClient(conn).Sign(cctx, gen); err == nil {
			signed(r.GetState(), r.GetSignature())
		}
	case "Signer.Multisign":
		var r *pb.MultisignResponse
		if r, err = pb.NewSignerClient(conn).Multisign(cctx, &pb.MultisignRequest{Requests: []*pb.SignRequest{gen}}); err == nil && len(r.GetResponses()) > 0 {
			signed(r.GetResponses()[0].GetState(), r.GetResponses()[0].GetSignature())
		}
	case "Signer.SignBeaconAttestation":
		var r *pb.SignResponse
		if r, err = pb.NewSignerClient(conn).SignBeaconAttestation(cctx, att); err == nil {
			signed(r.GetState(), r.GetSignature())
		}
	case "Signer.SignBeaconAttestations":
		var r *pb.MultisignResponse
		if r, err = pb.NewSignerClient(conn).SignBeaconAttestations(cctx, &pb.SignBeaconAttestationsRequest{Requests: []*pb.SignBeaconAttestationRequest{att}}); err == nil && len(r.GetResponses()) > 0 {
			signed(r.GetResponses()[0].GetState(), r.GetResponses()[0].GetSignature())
		}
	case "Signer.SignBeaconProposal":
		var r *pb.SignResponse
		if r, err = pb.NewSignerClient(conn).SignBeaconProposal(cctx, &pb.SignBeaconProposalRequest{Id: &pb.SignBeaconProposalRequest_Account{Account: acct}, Domain: domainBytes("prop", 1),
			Data: &pb.BeaconBlockHeader{Slot: c.Epoch + 1, ProposerIndex: 1, ParentRoot: rootBytes("p"), StateRoot: rootBytes("q"), BodyRoot: rootBytes("b")}}); err == nil {
			signed(r.GetState(), r.GetSignature())
		}
	case "AccountManager.Generate":
		var r *pb.GenerateResponse
		if r, err = pb.NewAccountManagerClient(conn).Generate(cctx, &pb.GenerateRequest{Account: fmt.Sprintf("%s/gen%d", wallet, c.Epoch), Passphrase: []byte("pass"), Participants: 1, SigningThreshold: 1}); err == nil {
			data = r.GetState() == pb.ResponseState_SUCCEEDED
			detail = r.GetState().String()
		}
	case "AccountManager.Lock":
		var r *pb.LockAccountResponse
		if r, err = pb.NewAccountManagerClient(conn).Lock(cctx, &pb.LockAccountRequest{Account: acct}); err == nil {
			data = r.GetState() == pb.ResponseState_SUCCEEDED
			detail = r.GetState().String()
		}
	case "AccountManager.Unlock":
		var r *pb.UnlockAccountResponse
		if r, err = pb.NewAccountManagerClient(conn).Unlock(cctx, &pb.UnlockAccountRequest{Account: acct, Passphrase: []byte("pass")}); err == nil {
			data = r.GetState() == pb.ResponseState_SUCCEEDED
			detail = r.GetState().String()
		}
	case "WalletManager.Lock":
		var r *pb.LockWalletResponse
		if r, err = pb.NewWalletManagerClient(conn).Lock(cctx, &pb.LockWalletRequest{Wallet: wallet}); err == nil {
			data = r.GetState() == pb.ResponseState_SUCCEEDED
			detail = r.GetState().String()
		}
	case "WalletManager.Unlock":
		var r *pb.UnlockWalletResponse
		if r, err = pb.NewWalletManagerClient(conn).Unlock(cctx, &pb.UnlockWalletRequest{Wallet: wallet, Passphrase: []byte("pass")}); err == nil {
			data = r.GetState() == pb.ResponseState_SUCCEEDED
			detail = r.GetState().String()
		}
	case "DKG.Prepare":
		_, err = pb.NewDKGClient(conn).Prepare(cctx, &pb.PrepareRequest{Account: fmt.Sprintf("DW/p%d", c.Epoch), Passphrase: []byte("pass"), Threshold: 2,
			Participants: []*pb.Endpoint{{Id: 1, Name: "signer-1", Port: 9091}, {Id: 2, Name: "signer-2", Port: 9092}}})
		data = err == nil
	case "DKG.Execute":
		_, err = pb.NewDKGClient(conn).Execute(cctx, &pb.ExecuteRequest{Account: "DW/session"})
		data = err == nil
	case "DKG.Commit":
		_, err = pb.NewDKGClient(conn).Commit(cctx, &pb.CommitRequest{Account: "DW/session", ConfirmationData: make([]byte, 32)})
		data = err == nil
	case "DKG.Abort":
		_, err = pb.NewDKGClient(conn).Abort(cctx, &pb.AbortRequest{Account: fmt.Sprintf("DW/ab%d", c.Epoch)})
		data = err == nil
	case "DKG.Contribute":
		var r *pb.ContributeResponse
		r, err = pb.NewDKGClient(conn).Contribute(cctx, &pb.ContributeRequest{Account: "DW/session", Secret: make([]byte, 32), VerificationVector: [][]byte{}})
		data = err == nil && r != nil && len(r.GetSecret()) > 0
	default:
		err = fmt.Errorf("unknown method")
	}
	outcome := "response"
	if err != nil {
		msg := err.Error()
		detail = msg
		// transport-level refusal: the connection / handshake failed, no handler ran
		if strings.Contains(msg, "Unavailable") || strings.Contains(msg, "handshake") || strings.Contains(msg, "tls:") || strings.Contains(msg, "connection") ||
			strings.Contains(msg, "certificate") || strings.Contains(msg, "EOF") || strings.Contains(msg, "DeadlineExceeded") {
			outcome = "transport"
		} else {
			outcome = "rpcerror"
		}
	}
	if len(detail) > 160 {
		detail = detail[:160]
	}
	return Ev{"ev": "ApiCall", "id": c.ID, "cred": c.Cred, "method": c.Method, "target": c.Target, "outcome": outcome, "data": data, "detail": detail}
}

var _ = proto.Marshal

// RunListRace: clients c1 (may access W1 only) and c2 (W2 only) send byte-identical ListAccounts requests - paths [W1], [W2],
// [W1, W2] - from four connections each at the same time.  Every response is an ApiCall event for the wallet(s) whose accounts it
// CONTAINS (data: true) - a response that contains nothing of a wallet is reported once per client and wallet (data: false).
func (a *APIServer) RunListRace(ctx context.Context, ms int, log *Log) {
	deadline := time.Now().Add(time.Duration(ms) * time.Millisecond)
	var wg sync.WaitGroup
	var mu sync.Mutex
	seen := map[string]int{}
	report := func(cred, target string, data bool, n int) {
		key := fmt.Sprintf("%s/%s/%v", cred, target, data)
		mu.Lock()
		seen[key]++
		first := seen[key] == 1
		mu.Unlock()
		if first {
			log.Emit(Ev{"ev": "ApiCall", "id": "race-" + key, "cred": cred, "method": "Lister.ListAccounts", "target": target, "outcome": "response", "data": data,
				"detail": fmt.Sprintf("concurrent identical listings; %d accounts of the wallet", n)})
		}
	}
	for w := 0; w < 8; w++ {
		cred := []string{"valid-c1", "valid-c2"}[w%2]
		conn, err := a.Dial(ctx, cred)
		if err != nil {
			continue
		}
		wg.Add(1)
		go func(w int, cred string, conn *grpc.ClientConn) {
			defer wg.Done()
			defer conn.Close()
			cl := pb.NewListerClient(conn)
			for i := 0; time.Now().Before(deadline); i++ {
				paths := [][]string{{"W1"}, {"W2"}, {"W1", "W2"}}[i%3]
				cctx, cancel := context.WithTimeout(ctx, 10*time.Second)
				res, err := cl.ListAccounts(cctx, &pb.ListAccountsRequest{Paths: paths})
				cancel()
				if err != nil {
					continue
				}
				n1, n2 := 0, 0
				for _, acc := range res.GetAccounts() {
					if strings.HasPrefix(acc.GetName(), "W1/") {
						n1++
					}
					if strings.HasPrefix(acc.GetName(), "W2/") {
						n2++
					}
				}
				for _, pth := range paths {
					if pth == "W1" {
						report(cred, "c1", n1 > 0, n1)
					} else {
						report(cred, "c2", n2 > 0, n2)
					}
				}
			}
		}(w, cred, conn)
	}
	wg.Wait()
	mu.Lock()
	total := 0
	for _, n := range seen {
		total += n
	}
	mu.Unlock()
	log.Emit(Ev{"ev": "ListRace", "responses": total})
}

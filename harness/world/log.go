// Package world builds an in-process Dirk out of the real services of /repo with a tracing,
// gating and fault-injecting wrapper at every interface boundary, and records one NDJSON event
// per specification action.
package world

import (
	"sync/atomic"
	"bytes"
	"context"
	"encoding/json"
	"io"
	"runtime"
	"strconv"
	"sync"
)

// Ev is one trace event.  Keys are short on purpose; TLC reads them with ndJsonDeserialize.
type Ev map[string]any

// Log is the process-wide, totally ordered event log.
type Log struct {
	mu  sync.Mutex
	seq int
	w   io.Writer
	// Mem keeps the events in memory too (used by in-process consumers).
	Mem    []Ev
	KeepIn bool
	// OnEmit is called under the log mutex for every event (used by the scheduler).
	OnEmit func(Ev)
}

// responded counts the requests answered so far in this process (progress indicator for the watchdog).
var responded atomic.Int64

// NewLog creates a log writing NDJSON lines to w (may be nil).
func NewLog(w io.Writer) *Log { return &Log{w: w} }

// Emit appends an event, assigning the next sequence number under the log mutex.
func (l *Log) Emit(ev Ev) {
	l.mu.Lock()
	defer l.mu.Unlock()
	l.seq++
	ev["seq"] = l.seq
	if ev["ev"] == "Respond" {
		responded.Add(1)
	}
	if l.OnEmit != nil {
		l.OnEmit(ev)
	}
	if l.KeepIn {
		l.Mem = append(l.Mem, ev)
	}
	if l.w != nil {
		b, err := json.Marshal(ev)
		if err != nil {
			panic(err)
		}
		b = append(b, '\n')
		// One unbuffered write per event so that a SIGKILL loses nothing already emitted.
		_, _ = l.w.Write(b)
	}
}

type ridKeyT struct{}

// WithRid attaches a request id to a context.
func WithRid(ctx context.Context, rid string) context.Context {
	return context.WithValue(ctx, ridKeyT{}, rid)
}

// Rid returns the request id of a context ("" if none).
func Rid(ctx context.Context) string {
	if ctx == nil {
		return ""
	}
	if v, ok := ctx.Value(ridKeyT{}).(string); ok {
		return v
	}
	return ""
}

// goid returns the current goroutine's id (the locker interface carries no context).
func goid() int64 {
	var buf [64]byte
	n := runtime.Stack(buf[:], false)
	b := buf[:n]
	b = bytes.TrimPrefix(b, []byte("goroutine "))
	i := bytes.IndexByte(b, ' ')
	if i < 0 {
		return -1
	}
	id, _ := strconv.ParseInt(string(b[:i]), 10, 64)
	return id
}

// gmap maps goroutine ids to request ids (registered by the ruler wrapper around RunRules).
type gmap struct {
	mu sync.Mutex
	m  map[int64]string
}

func (g *gmap) set(rid string) {
	g.mu.Lock()
	if g.m == nil {
		g.m = map[int64]string{}
	}
	g.m[goid()] = rid
	g.mu.Unlock()
}

func (g *gmap) clear() {
	g.mu.Lock()
	delete(g.m, goid())
	g.mu.Unlock()
}

func (g *gmap) get() string {
	g.mu.Lock()
	defer g.mu.Unlock()
	return g.m[goid()]
}

package world

import (
	"strings"
	"context"
	"encoding/hex"
	"encoding/json"
	"fmt"
	"os"
	"sort"
	"time"

	"github.com/attestantio/dirk/core"
	"github.com/attestantio/dirk/rules"
	"github.com/attestantio/dirk/services/checker"
	staticchecker "github.com/attestantio/dirk/services/checker/static"
	staticpeers "github.com/attestantio/dirk/services/peers/static"
	standardprocess "github.com/attestantio/dirk/services/process/standard"
	"github.com/herumi/bls-eth-go-binary/bls"
	pb "github.com/wealdtech/eth2-signer-api/pb/v1"
	e2wtypes "github.com/wealdtech/go-eth2-wallet-types/v2"
)

// nullSender is the sender of an instance without peers.
type nullSender struct{}

func (nullSender) Prepare(context.Context, *core.Endpoint, string, []byte, uint32, []*core.Endpoint) error {
	return fmt.Errorf("no network")
}
func (nullSender) Execute(context.Context, *core.Endpoint, string) error { return fmt.Errorf("no network") }
func (nullSender) Commit(context.Context, *core.Endpoint, string, []byte) ([]byte, []byte, error) {
	return nil, nil, fmt.Errorf("no network")
}
func (nullSender) Abort(context.Context, *core.Endpoint, string) error { return fmt.Errorf("no network") }
func (nullSender) SendContribution(context.Context, *core.Endpoint, string, bls.SecretKey, []bls.PublicKey) (bls.SecretKey, []bls.PublicKey, error) {
	return bls.SecretKey{}, nil, fmt.Errorf("no network")
}

// NewSoloProcess builds the process service of an instance without peers (account creation only).
func NewSoloProcess(ctx context.Context, b *Base) (*standardprocess.Service, error) {
	peers, err := staticpeers.New(ctx, staticpeers.WithPeers(map[uint64]string{1: "solo:1"}))
	if err != nil {
		return nil, err
	}
	return standardprocess.New(ctx, standardprocess.WithChecker(b.Checker), standardprocess.WithFetcher(b.Fetcher),
		standardprocess.WithUnlocker(b.Unlocker), standardprocess.WithSender(nullSender{}), standardprocess.WithPeers(peers),
		standardprocess.WithID(1), standardprocess.WithStores([]e2wtypes.Store{b.Store}), standardprocess.WithEncryptor(b.Encryptor),
		standardprocess.WithGenerationPassphrase([]byte(b.Spec.Passphrase)), standardprocess.WithGenerationTimeout(10*time.Second))
}

// ---------------------------------------------------------------- checker-level cases

// CheckCase is one configuration with requests for the real static checker.
type CheckCase struct {
	ID    string        `json:"id"`
	Perms []ClientPerms `json:"perms"`
	Reqs  []struct {
		Client  string `json:"client"`
		Account string `json:"account"`
		Op      string `json:"op"`
		NilCred bool   `json:"nilcred,omitempty"`
	} `json:"reqs"`
}

// RunCheckCases calls staticchecker.Check for every request of every case.
func RunCheckCases(ctx context.Context, cases []CheckCase, out *json.Encoder) error {
	for _, c := range cases {
		perms := map[string][]*checker.Permissions{}
		for _, cp := range c.Perms {
			for _, p := range cp.Perms {
				perms[cp.Client] = append(perms[cp.Client], &checker.Permissions{Path: p.Path, Operations: p.Ops})
			}
		}
		ck, err := staticchecker.New(ctx, staticchecker.WithPermissions(perms))
		res := make([]bool, len(c.Reqs))
		if err != nil {
			_ = out.Encode(map[string]any{"ev": "CheckCase", "id": c.ID, "error": err.Error()})
			continue
		}
		for i, q := range c.Reqs {
			var cred *checker.Credentials
			if !q.NilCred {
				cred = &checker.Credentials{Client: q.Client}
			}
			res[i] = ck.Check(ctx, cred, q.Account, q.Op)
		}
		_ = out.Encode(map[string]any{"ev": "CheckCase", "id": c.ID, "res": res})
	}
	return nil
}

// ---------------------------------------------------------------- service-level cases

// PermOp is one operation attempted through the real handlers.
type PermOp struct {
	ID     string `json:"id"`
	Kind   string `json:"kind"`   // gen att prop list lockacct unlockacct create lockwallet unlockwallet restart
	Pass   string `json:"pass"`   // passphrase sent with unlockacct / unlockwallet (default: the world's)
	Second string `json:"second"` // kinds "multi2" / "atts2": "wallet/account" of the batch's second entry
	Client string `json:"client"` // "" = no authenticated identity
	Wallet string `json:"wallet"`
	WRaw   string `json:"wraw"`          // wallet operations: the wallet string actually sent when it differs from Wallet (e.g. "Wallet1/acc")
	Acct   string `json:"acct"`          // account name inside Wallet
	KeyOf  string `json:"keyof"`         // "wallet/account" whose public key is sent ("" = none)
	NoName bool   `json:"noname"`        // do not send the account name (address by key only)
	Epoch  uint64 `json:"epoch"`         // fresh target epoch / slot so that rules approve
	Paths  []string `json:"paths"`       // for kind "listpaths"
}

// PermScenario is one world with operations.
type PermScenario struct {
	ID    string   `json:"id"`
	World Spec     `json:"world"`
	Ops   []PermOp `json:"ops"`
}

// lockState reports, per account path and per wallet name, whether it is UNLOCKED (read from the wallet objects directly).
func lockState(ctx context.Context, b *Base) map[string]bool {
	out := map[string]bool{}
	for _, ws := range b.Spec.Wallets {
		if accts, err := b.RawFetch.FetchAccounts(ctx, ws.Name); err == nil {
			for n, a := range accts {
				if l, ok := a.(e2wtypes.AccountLocker); ok {
					u, _ := l.IsUnlocked(ctx)
					out[n] = u
				}
			}
		}
		if w, err := b.RawFetch.FetchWallet(ctx, ws.Name); err == nil {
			if l, ok := w.(e2wtypes.WalletLocker); ok {
				u, _ := l.IsUnlocked(ctx)
				out[ws.Name] = u
			}
		}
	}
	return out
}

func wraw(op PermOp) string {
	if op.WRaw != "" {
		return op.WRaw
	}
	return op.Wallet
}

func snapshot(ctx context.Context, st *Stack, b *Base) string {
	m, err := st.Rules.ExportSlashingProtection(ctx)
	if err != nil {
		return "err:" + err.Error()
	}
	keys := []string{}
	for k, v := range m {
		keys = append(keys, fmt.Sprintf("%x:%d:%d:%d", k[:6], v.HighestAttestedSourceEpoch, v.HighestAttestedTargetEpoch, v.HighestProposedSlot))
	}
	sort.Strings(keys)
	// wallet/account population and lock state
	for _, ws := range b.Spec.Wallets {
		accts, err := b.RawFetch.FetchAccounts(ctx, ws.Name)
		names := []string{}
		if err == nil {
			for n, a := range accts {
				locked := "?"
				if l, ok := a.(e2wtypes.AccountLocker); ok {
					u, _ := l.IsUnlocked(ctx)
					locked = fmt.Sprint(u)
				}
				names = append(names, n+"="+locked)
			}
		}
		sort.Strings(names)
		wl := "?"
		if w, err := b.RawFetch.FetchWallet(ctx, ws.Name); err == nil {
			if l, ok := w.(e2wtypes.WalletLocker); ok {
				u, _ := l.IsUnlocked(ctx)
				wl = fmt.Sprint(u)
			}
		}
		keys = append(keys, fmt.Sprintf("%s[%s]%v", ws.Name, wl, names))
	}
	return fmt.Sprint(keys)
}

// RunPermScenario executes the operations and reports for each whether it was carried out and whether
// stored state changed.
func RunPermScenario(ctx context.Context, sc *PermScenario, log *Log) error {
	return runPermScenario(ctx, sc, log, "")
}

// RunPermScenarioOn runs the scenario against the in-process handlers (binary == "") or the real dirk binary.
func RunPermScenarioOn(ctx context.Context, sc *PermScenario, log *Log, binary string) error {
	return runPermScenario(ctx, sc, log, binary)
}

// permTarget is what the operations of a permission scenario are sent to: the in-process handlers or the real binary.
type permTarget struct {
	sig          func(client string) SignerAPI
	list         func(ctx context.Context, client string, req *pb.ListAccountsRequest) (*pb.ListAccountsResponse, error)
	acctLock     func(ctx context.Context, client string, req *pb.LockAccountRequest) (*pb.LockAccountResponse, error)
	acctUnlock   func(ctx context.Context, client string, req *pb.UnlockAccountRequest) (*pb.UnlockAccountResponse, error)
	generate     func(ctx context.Context, client string, req *pb.GenerateRequest) (*pb.GenerateResponse, error)
	walletLock   func(ctx context.Context, client string, req *pb.LockWalletRequest) (*pb.LockWalletResponse, error)
	walletUnlock func(ctx context.Context, client string, req *pb.UnlockWalletRequest) (*pb.UnlockWalletResponse, error)
	signBoth     func(ctx context.Context, client, name string, pub []byte) (core.Result, []byte) // nil: not expressible on this target
	pubOf        func(path string) []byte
	snapshot     func() string
	locks        func() map[string]bool
	restart      func() error
	passphrase   string
}

// runPermScenario: binary == "" runs against the in-process handlers, else against the real dirk binary at that path.
func runPermScenario(ctx context.Context, sc *PermScenario, log *Log, binary string) error {
	if binary != "" {
		return runPermScenarioRemote(ctx, sc, log, binary)
	}
	ctl := NewControl(log)
	needRestart := false
	for _, op := range sc.Ops {
		needRestart = needRestart || op.Kind == "restart"
	}
	if needRestart && sc.World.WalletDir == "" {
		wd, err := os.MkdirTemp("", "permwallets")
		if err != nil {
			return err
		}
		defer os.RemoveAll(wd)
		sc.World.WalletDir = wd
	}
	b, err := NewBase(ctx, sc.World, log, ctl)
	if err != nil {
		return err
	}
	dir, err := os.MkdirTemp("", "permdb")
	if err != nil {
		return err
	}
	defer os.RemoveAll(dir)
	proc, err := NewSoloProcess(ctx, b)
	if err != nil {
		return err
	}
	st, err := NewStack(ctx, b, dir, proc)
	if err != nil {
		return err
	}
	defer st.cancel()
	pubOf := func(path string) []byte {
		_, a, err := b.RawFetch.FetchAccount(ctx, path)
		if err != nil {
			return nil
		}
		return a.PublicKey().Marshal()
	}
	tgt := &permTarget{passphrase: b.Spec.Passphrase}
	tgt.sig = func(string) SignerAPI { return st.SignerH }
	tgt.list = func(c context.Context, _ string, req *pb.ListAccountsRequest) (*pb.ListAccountsResponse, error) {
		return st.ListerH.ListAccounts(c, roundTrip(req, &pb.ListAccountsRequest{}))
	}
	tgt.acctLock = func(c context.Context, _ string, req *pb.LockAccountRequest) (*pb.LockAccountResponse, error) {
		return st.AcctH.Lock(c, roundTrip(req, &pb.LockAccountRequest{}))
	}
	tgt.acctUnlock = func(c context.Context, _ string, req *pb.UnlockAccountRequest) (*pb.UnlockAccountResponse, error) {
		return st.AcctH.Unlock(c, roundTrip(req, &pb.UnlockAccountRequest{}))
	}
	tgt.generate = func(c context.Context, _ string, req *pb.GenerateRequest) (*pb.GenerateResponse, error) {
		return st.AcctH.Generate(c, roundTrip(req, &pb.GenerateRequest{}))
	}
	tgt.walletLock = func(c context.Context, _ string, req *pb.LockWalletRequest) (*pb.LockWalletResponse, error) {
		return st.WalletH.Lock(c, roundTrip(req, &pb.LockWalletRequest{}))
	}
	tgt.walletUnlock = func(c context.Context, _ string, req *pb.UnlockWalletRequest) (*pb.UnlockWalletResponse, error) {
		return st.WalletH.Unlock(c, roundTrip(req, &pb.UnlockWalletRequest{}))
	}
	tgt.signBoth = func(c context.Context, client, name string, pub []byte) (core.Result, []byte) {
		return st.Signer.SignGeneric(c, &checker.Credentials{Client: client}, name, pub, &rules.SignData{Domain: domainBytes("randao", 0x33), Data: rootBytes("A")})
	}
	tgt.pubOf = func(path string) []byte { return pubOf(path) }
	tgt.snapshot = func() string { return snapshot(ctx, st, b) }
	tgt.locks = func() map[string]bool { return lockState(ctx, b) }
	tgt.restart = func() error {
		// a new process image on the same wallet store and the same slashing database
		_ = st.Close(ctx)
		st.cancel()
		if b, err = NewBase(ctx, sc.World, log, ctl); err != nil {
			return fmt.Errorf("restart: %w", err)
		}
		if proc, err = NewSoloProcess(ctx, b); err != nil {
			return fmt.Errorf("restart: %w", err)
		}
		if st, err = NewStack(ctx, b, dir, proc); err != nil {
			return fmt.Errorf("restart: %w", err)
		}
		return nil
	}
	defer func() { _ = st.Close(ctx) }()
	return runPermOps(ctx, sc, log, tgt)
}

// runPermOps executes the operations against a target and reports for each whether it was carried out.
func runPermOps(ctx context.Context, sc *PermScenario, log *Log, tgt *permTarget) error {
	pubOf := tgt.pubOf
	log.Emit(Ev{"ev": "Begin", "sc": sc.ID})
	passOr := func(p string) []byte {
		if p != "" {
			return []byte(p)
		}
		return []byte(tgt.passphrase)
	}
	for _, op := range sc.Ops {
		if op.Kind == "restart" {
			if err := tgt.restart(); err != nil {
				return err
			}
			log.Emit(Ev{"ev": "PermOp", "id": op.ID, "kind": "restart", "client": "", "wallet": "", "acct": "", "keyof": "", "served": true, "listed": []string{},
				"servedfor": "", "changed": false, "detail": "", "pub": "", "locks": tgt.locks()})
			continue
		}
		c := credsCtx(WithRid(ctx, op.ID), op.Client, "")
		path := op.Wallet + "/" + op.Acct
		var pub []byte
		if op.KeyOf != "" {
			pub = pubOf(op.KeyOf)
		}
		name := path
		if op.NoName {
			name = ""
		}
		before := tgt.snapshot()
		served := false
		servedFor := ""
		detail := ""
		listed := []string{}
		emitted := false
		func() {
			defer func() {
				if p := recover(); p != nil {
					detail = fmt.Sprint("panic: ", p)
				}
			}()
			dom := func(cl string) []byte { return domainBytes(cl, 0x33) }
			switch op.Kind {
			case "gen":
				req := &pb.SignRequest{Domain: dom("randao"), Data: rootBytes("A")}
				if pub != nil {
					req.Id = &pb.SignRequest_PublicKey{PublicKey: pub}
				}
				if name != "" {
					req.Id = &pb.SignRequest_Account{Account: name}
				}
				var sigBytes []byte
				if pub != nil && name != "" {
					// Name AND public key: the wire message (a oneof) cannot carry both, the signer service's API can.
					if tgt.signBoth == nil {
						detail = "unsupported on this target"
						emitted = true
						return
					}
					r2, sg := tgt.signBoth(c, op.Client, name, pub)
					served = r2 == core.ResultSucceeded && len(sg) > 0
					sigBytes = sg
					detail = fmt.Sprint("service:", r2)
				} else {
					res, err := tgt.sig(op.Client).Sign(c, roundTrip(req, &pb.SignRequest{}))
					served = err == nil && res.GetState() == pb.ResponseState_SUCCEEDED && len(res.GetSignature()) > 0
					detail = fmt.Sprint(res.GetState())
					sigBytes = res.GetSignature()
				}
				if served {
					// which account was the signature produced for?
					root := SigningRoot([32]byte(rootBytes("A")), dom("randao"))
					for _, cand := range []string{path, op.KeyOf} {
						if cand != "" && VerifySig(pubOf(cand), root, sigBytes) {
							servedFor = cand
							break
						}
					}
				}
			case "att":
				req := &pb.SignBeaconAttestationRequest{Domain: dom("att"), Data: &pb.AttestationData{Slot: 1, CommitteeIndex: 1, BeaconBlockRoot: rootBytes("A"),
					Source: &pb.Checkpoint{Epoch: op.Epoch, Root: rootBytes("s")}, Target: &pb.Checkpoint{Epoch: op.Epoch + 1, Root: rootBytes("t")}}}
				if pub != nil {
					req.Id = &pb.SignBeaconAttestationRequest_PublicKey{PublicKey: pub}
				}
				if name != "" {
					req.Id = &pb.SignBeaconAttestationRequest_Account{Account: name}
				}
				res, err := tgt.sig(op.Client).SignBeaconAttestation(c, roundTrip(req, &pb.SignBeaconAttestationRequest{}))
				served = err == nil && res.GetState() == pb.ResponseState_SUCCEEDED && len(res.GetSignature()) > 0
				detail = fmt.Sprint(res.GetState())
			case "prop":
				req := &pb.SignBeaconProposalRequest{Domain: dom("prop"), Data: &pb.BeaconBlockHeader{Slot: op.Epoch + 1, ProposerIndex: 1,
					ParentRoot: rootBytes("p"), StateRoot: rootBytes("q"), BodyRoot: rootBytes("b")}}
				if pub != nil {
					req.Id = &pb.SignBeaconProposalRequest_PublicKey{PublicKey: pub}
				}
				if name != "" {
					req.Id = &pb.SignBeaconProposalRequest_Account{Account: name}
				}
				res, err := tgt.sig(op.Client).SignBeaconProposal(c, roundTrip(req, &pb.SignBeaconProposalRequest{}))
				served = err == nil && res.GetState() == pb.ResponseState_SUCCEEDED && len(res.GetSignature()) > 0
				detail = fmt.Sprint(res.GetState())
			case "list":
				res, err := tgt.list(c, op.Client, &pb.ListAccountsRequest{Paths: []string{op.Wallet}})
				if err == nil {
					for _, a := range res.GetAccounts() {
						if a.GetName() == path {
							served = true
						}
					}
					detail = fmt.Sprint(res.GetState(), len(res.GetAccounts()))
				}
			case "listpaths":
				res, err := tgt.list(c, op.Client, &pb.ListAccountsRequest{Paths: op.Paths})
				if err == nil {
					keysok := true
					for _, a := range res.GetAccounts() {
						listed = append(listed, a.GetName())
						if want := pubOf(a.GetName()); want == nil || hex.EncodeToString(want) != hex.EncodeToString(a.GetPublicKey()) {
							keysok = false
						}
					}
					for _, a := range res.GetDistributedAccounts() {
						listed = append(listed, a.GetName())
					}
					served = keysok
					detail = fmt.Sprint(res.GetState())
				} else {
					detail = "error: " + err.Error()
				}
			case "multi2", "atts2":
				// a two-entry batch over two accounts: each position is judged by itself (reported as two operations id.0 / id.1)
				paths := []string{path, op.Second}
				states := make([]pb.ResponseState, 2)
				sigsb := make([][]byte, 2)
				roots2 := make([][32]byte, 2)
				if op.Kind == "multi2" {
					req := &pb.MultisignRequest{}
					for j, pth := range paths {
						req.Requests = append(req.Requests, &pb.SignRequest{Id: &pb.SignRequest_Account{Account: pth}, Domain: dom("randao"), Data: rootBytes(fmt.Sprintf("M%d", j))})
						roots2[j] = SigningRoot([32]byte(rootBytes(fmt.Sprintf("M%d", j))), dom("randao"))
					}
					if res, err := tgt.sig(op.Client).Multisign(c, roundTrip(req, &pb.MultisignRequest{})); err == nil {
						for j, rr := range res.GetResponses() {
							if j < 2 {
								states[j], sigsb[j] = rr.GetState(), rr.GetSignature()
							}
						}
					}
				} else {
					req := &pb.SignBeaconAttestationsRequest{}
					for j, pth := range paths {
						req.Requests = append(req.Requests, &pb.SignBeaconAttestationRequest{Id: &pb.SignBeaconAttestationRequest_Account{Account: pth}, Domain: dom("att"),
							Data: &pb.AttestationData{Slot: 1, CommitteeIndex: 1, BeaconBlockRoot: rootBytes("A"), Source: &pb.Checkpoint{Epoch: op.Epoch, Root: rootBytes("s")},
								Target: &pb.Checkpoint{Epoch: op.Epoch + 1, Root: rootBytes("t")}}})
						roots2[j] = SigningRoot(AttRoot(1, 1, rootBytes("A"), op.Epoch, rootBytes("s"), op.Epoch+1, rootBytes("t")), dom("att"))
					}
					if res, err := tgt.sig(op.Client).SignBeaconAttestations(c, roundTrip(req, &pb.SignBeaconAttestationsRequest{})); err == nil {
						for j, rr := range res.GetResponses() {
							if j < 2 {
								states[j], sigsb[j] = rr.GetState(), rr.GetSignature()
							}
						}
					}
				}
				// (whether a refused request changed anything is judged on single requests; a position of a batch is judged on "served only if allowed")
				for j, pth := range paths {
					w2, a2, _ := strings.Cut(pth, "/")
					srv := states[j] == pb.ResponseState_SUCCEEDED && len(sigsb[j]) > 0
					// a signature at position j that verifies for ANOTHER position's account counts for that account
					if srv && !VerifySig(pubOf(pth), roots2[j], sigsb[j]) {
						for jj, p2 := range paths {
							if VerifySig(pubOf(p2), roots2[jj], sigsb[j]) {
								w2, a2, _ = strings.Cut(p2, "/")
							}
						}
					}
					log.Emit(Ev{"ev": "PermOp", "id": fmt.Sprintf("%s.%d", op.ID, j), "kind": map[string]string{"multi2": "gen", "atts2": "att"}[op.Kind], "client": op.Client, "wallet": w2, "acct": a2,
						"keyof": "", "served": srv, "listed": listed, "servedfor": "", "changed": false, "detail": states[j].String(), "pub": "", "locks": tgt.locks()})
				}
				emitted = true
				return
			case "lockacct":
				res, err := tgt.acctLock(c, op.Client, &pb.LockAccountRequest{Account: path})
				served = err == nil && res.GetState() == pb.ResponseState_SUCCEEDED
				detail = fmt.Sprint(res.GetState())
			case "unlockacct":
				res, err := tgt.acctUnlock(c, op.Client, &pb.UnlockAccountRequest{Account: path, Passphrase: passOr(op.Pass)})
				served = err == nil && res.GetState() == pb.ResponseState_SUCCEEDED
				detail = fmt.Sprint(res.GetState())
			case "create":
				res, err := tgt.generate(c, op.Client, &pb.GenerateRequest{Account: path, Passphrase: passOr(op.Pass), Participants: 1, SigningThreshold: 1})
				served = err == nil && res.GetState() == pb.ResponseState_SUCCEEDED
				detail = fmt.Sprint(res.GetState(), " ", res.GetMessage())
			case "lockwallet":
				res, err := tgt.walletLock(c, op.Client, &pb.LockWalletRequest{Wallet: wraw(op)})
				served = err == nil && res.GetState() == pb.ResponseState_SUCCEEDED
				detail = fmt.Sprint(res.GetState())
			case "unlockwallet":
				res, err := tgt.walletUnlock(c, op.Client, &pb.UnlockWalletRequest{Wallet: wraw(op), Passphrase: passOr(op.Pass)})
				served = err == nil && res.GetState() == pb.ResponseState_SUCCEEDED
				detail = fmt.Sprint(res.GetState())
			}
		}()
		if emitted {
			continue
		}
		after := tgt.snapshot()
		log.Emit(Ev{"ev": "PermOp", "id": op.ID, "kind": op.Kind, "client": op.Client, "wallet": op.Wallet, "acct": op.Acct, "keyof": op.KeyOf,
			"served": served, "listed": listed, "servedfor": servedFor, "changed": before != after, "detail": detail, "pub": hex.EncodeToString(pub), "locks": tgt.locks()})
	}
	log.Emit(Ev{"ev": "End", "sc": sc.ID})
	return nil
}

package world

import (
	"sync"
	"sync/atomic"
	"bytes"
	"context"
	"fmt"
	"math/rand"
	"strings"
	"time"

	pb "github.com/wealdtech/eth2-signer-api/pb/v1"
	"google.golang.org/grpc"
)

func shapeBytes(class string, rnd *rand.Rand) []byte {
	switch class {
	case "absent":
		return nil
	case "empty":
		return []byte{}
	}
	var n int
	if _, err := fmt.Sscanf(class, "len%d", &n); err != nil {
		return nil
	}
	b := make([]byte, n)
	rnd.Read(b)
	return b
}

// trap is a byte sequence (invalid UTF-8 mixed with combining marks) on which golang.org/x/text's NFKD iterator - used by the
// keystore encryptor to normalise passphrases - dereferences a nil pointer (found by this check, see DESIGN.md 12.2).
var trap = []byte{0x30, 0x97, 0x3b, 0x53, 0xf8, 0xa0, 0x0b, 0xcf, 0xdf, 0xf6, 0xcc, 0x8b, 0xdc, 0xb9, 0x9e, 0x36, 0x84, 0xd7, 0x7a, 0x6a, 0xfd, 0x4b, 0xf4, 0x3a}

// fillBytes overrides the random content of a byte field with a content class (the length class stays).
func fillBytes(b []byte, fill string) []byte {
	switch fill {
	case "zeros":
		for i := range b {
			b[i] = 0
		}
	case "ones":
		for i := range b {
			b[i] = 0xff
		}
	case "ascii":
		for i := range b {
			b[i] = 'a' + byte(i%26)
		}
	case "combining":
		// text made of an invalid-UTF-8 / combining-mark pattern, repeated
		for i := range b {
			b[i] = trap[i%len(trap)]
		}
	}
	return b
}

func shapeDomain(class string, rnd *rand.Rand) []byte {
	switch class {
	case "att", "prop", "exit", "randao":
		return domainBytes(class, byte(rnd.Intn(256)))
	case "att-len31":
		return domainBytes("att:len31", 1)
	case "att-len33":
		return domainBytes("att:len33", 1)
	}
	return shapeBytes(class, rnd)
}

func shapeU64(class string) uint64 {
	switch class {
	case "1":
		return 1
	case "2":
		return 2
	case "3":
		return 3
	case "2^63-1":
		return 1<<63 - 1
	case "2^63":
		return 1 << 63
	case "2^64-1":
		return ^uint64(0)
	case "2^32-1":
		return 1<<32 - 1
	}
	return 0
}

func shapeCount(class string) int {
	switch class {
	case "1":
		return 1
	case "2":
		return 2
	case "17":
		return 17
	case "300":
		return 300
	}
	return 0
}

func shapeStr(class string, walletLevel bool, rnd *rand.Rand) string {
	switch class {
	case "empty":
		return ""
	case "wallet-only":
		return "W1"
	case "valid":
		if walletLevel {
			return "W1"
		}
		return "W1/a1"
	case "unknown":
		if walletLevel {
			return "Nowhere"
		}
		return "W1/nothere"
	case "no-wallet":
		return "/a0"
	case "badregex":
		return "W1/["
	case "long":
		return "W1/" + strings.Repeat("x", 20000)
	case "unicode":
		return "W1/é世界\x00\xff"
	case "exists":
		return "W1/a0"
	case "underscore":
		return "W1/_hidden"
	}
	return class
}

func shapePath(class string, k int) string {
	switch class {
	case "empty":
		return ""
	case "wallet":
		return "W1"
	case "wallet-slash":
		return "W1/"
	case "slash":
		return "/"
	case "slash-acct":
		return "/a0"
	case "badregex":
		return "W1/["
	case "unclosed-group":
		return "W1/(a"
	case "long":
		return "W1/" + strings.Repeat("a?", 5000)
	case "unknown":
		return fmt.Sprintf("ZZ%d", k)
	case "dotstar":
		return "W1/.*"
	case "unicode":
		return "Wé1/\xff\x00"
	case "two-slashes":
		return "W1/a0/b"
	case "fresh-acct":
		return fmt.Sprintf("W1/a%d.*|n%d", k, atomic.AddInt64(&freshPath, 1))
	}
	return class
}

var freshPath int64

type idSetter func(acct string, key []byte)

var (
	createdMu   sync.Mutex
	createdName []string
	createdKey  [][]byte
)

func (a *APIServer) noteCreated(name string, key []byte) {
	createdMu.Lock()
	createdName = append(createdName, name)
	createdKey = append(createdKey, append([]byte{}, key...))
	createdMu.Unlock()
}

func (a *APIServer) lastCreated() (string, []byte) {
	createdMu.Lock()
	defer createdMu.Unlock()
	if len(createdName) == 0 {
		return "", nil
	}
	return createdName[len(createdName)-1], createdKey[len(createdKey)-1]
}

func (a *APIServer) shapeID(class string, rnd *rand.Rand, set idSetter) {
	pk := a.B.PubKeys["k1"]
	switch class {
	case "none":
	case "acct-empty":
		set("", nil)
	case "acct-wallet-only":
		set("W1", nil)
	case "acct-valid":
		set("W1/a1", nil)
	case "acct-unknown":
		set("W1/nothere", nil)
	case "acct-unknown-wallet":
		set("ZZ/a0", nil)
	case "acct-badregex":
		set("W1/[", nil)
	case "acct-long":
		set("W1/"+strings.Repeat("y", 50000), nil)
	case "key-valid":
		set("", pk)
	case "acct-created", "key-created":
		// an account created through Dirk during this run (falls back to a start-up account while there is none)
		name, key := a.lastCreated()
		switch {
		case name == "" && class == "acct-created":
			set("W1/a1", nil)
		case name == "":
			set("", pk)
		case class == "acct-created":
			set(name, nil)
		default:
			set("", key)
		}
	case "key-len1":
		set("", pk[:1])
	case "key-len47":
		set("", pk[:47])
	case "key-len49":
		set("", append(append([]byte{}, pk...), 7))
	case "key-unknown":
		b := make([]byte, 48)
		rnd.Read(b)
		set("", b)
	case "key-len1000":
		set("", bytes.Repeat([]byte{9}, 1000))
	}
}

func str(m map[string]any, k string) string {
	if v, ok := m[k].(string); ok {
		return v
	}
	return ""
}

func (a *APIServer) buildSign(sh map[string]any, rnd *rand.Rand) *pb.SignRequest {
	r := &pb.SignRequest{Domain: shapeDomain(str(sh, "domain"), rnd), Data: shapeBytes(str(sh, "data"), rnd)}
	a.shapeID(str(sh, "id"), rnd, func(acct string, key []byte) {
		if key != nil {
			r.Id = &pb.SignRequest_PublicKey{PublicKey: key}
		} else {
			r.Id = &pb.SignRequest_Account{Account: acct}
		}
	})
	return r
}

func (a *APIServer) buildAtt(sh map[string]any, rnd *rand.Rand, bump uint64) *pb.SignBeaconAttestationRequest {
	r := &pb.SignBeaconAttestationRequest{Domain: shapeDomain(str(sh, "domain"), rnd)}
	a.shapeID(str(sh, "id"), rnd, func(acct string, key []byte) {
		if key != nil {
			r.Id = &pb.SignBeaconAttestationRequest_PublicKey{PublicKey: key}
		} else {
			r.Id = &pb.SignBeaconAttestationRequest_Account{Account: acct}
		}
	})
	if str(sh, "data") == "present" {
		d := &pb.AttestationData{Slot: shapeU64(str(sh, "slot")), CommitteeIndex: shapeU64(str(sh, "index")), BeaconBlockRoot: shapeBytes(str(sh, "bbr"), rnd)}
		if str(sh, "source") == "present" {
			d.Source = &pb.Checkpoint{Epoch: shapeU64(str(sh, "sepoch")) + bump, Root: shapeBytes(orDefault(str(sh, "sroot"), "len32"), rnd)}
		}
		if str(sh, "target") == "present" {
			d.Target = &pb.Checkpoint{Epoch: shapeU64(str(sh, "tepoch")) + bump, Root: shapeBytes(orDefault(str(sh, "troot"), "len32"), rnd)}
		}
		r.Data = d
	}
	return r
}

func orDefault(s, d string) string {
	if s == "" {
		return d
	}
	return s
}

// sendOne concretises and sends one shape message; returns ("response"|"error", detail).
func (a *APIServer) sendOne(ctx context.Context, get func(string) (*grpc.ClientConn, error), m FuzzMsg, begin func()) (string, string, error) {
		rnd := rand.New(rand.NewSource(m.Seed))
		cred := m.Cred
		if cred == "" {
			cred = "valid-c1"
		}
		if c := str(m.Shape, "caller"); c == "unknown" {
			cred = "valid-nobody"
		}
		conn, err := get(cred)
		if err != nil {
			return "", "", err
		}
		if begin != nil {
			begin()
		}
		sh := m.Shape
		if str(sh, "acct") == "locked" {
			// the addressed start-up account is locked first, so the request has to open it (keystore decryption) on its way
			if c1, err := get("valid-c1"); err == nil {
				lctx, lcancel := context.WithTimeout(ctx, 20*time.Second)
				_, _ = pb.NewAccountManagerClient(c1).Lock(lctx, &pb.LockAccountRequest{Account: "W1/a1"})
				lcancel()
			}
		}
		// an impatient caller: the deadline travels with the request (grpc-timeout) and the server cancels the handler's context when it expires
		patience := 20 * time.Second
		switch str(sh, "patience") {
		case "gone-5ms":
			patience = 5 * time.Millisecond
		case "gone-40ms":
			patience = 40 * time.Millisecond
		}
		cctx, cancel := context.WithTimeout(ctx, patience)
		var rerr error
		detail := ""
		switch m.Method {
		case "Sign":
			var r *pb.SignResponse
			if r, rerr = pb.NewSignerClient(conn).Sign(cctx, a.buildSign(sh, rnd)); rerr == nil {
				detail = r.GetState().String()
			}
		case "Multisign":
			req := &pb.MultisignRequest{}
			n := shapeCount(str(sh, "count"))
			for i := 0; i < n; i++ {
				if str(sh, "mix") == "alternate-empty" && i%2 == 1 {
					req.Requests = append(req.Requests, &pb.SignRequest{})
				} else {
					req.Requests = append(req.Requests, a.buildSign(sh, rnd))
				}
			}
			var r *pb.MultisignResponse
			if r, rerr = pb.NewSignerClient(conn).Multisign(cctx, req); rerr == nil {
				detail = fmt.Sprint(len(r.GetResponses()))
			}
		case "Attestation":
			var r *pb.SignResponse
			if r, rerr = pb.NewSignerClient(conn).SignBeaconAttestation(cctx, a.buildAtt(sh, rnd, 0)); rerr == nil {
				detail = r.GetState().String()
			}
		case "Attestations":
			req := &pb.SignBeaconAttestationsRequest{}
			n := shapeCount(str(sh, "count"))
			for i := 0; i < n; i++ {
				switch {
				case str(sh, "mix") == "alternate-empty" && i%2 == 1:
					req.Requests = append(req.Requests, &pb.SignBeaconAttestationRequest{})
				default:
					q := a.buildAtt(sh, rnd, 0)
					if str(sh, "mix") != "same-account" && str(sh, "id") == "acct-valid" {
						q.Id = &pb.SignBeaconAttestationRequest_Account{Account: []string{"W1/a0", "W1/a1"}[i%2]}
					}
					req.Requests = append(req.Requests, q)
				}
			}
			var r *pb.MultisignResponse
			if r, rerr = pb.NewSignerClient(conn).SignBeaconAttestations(cctx, req); rerr == nil {
				detail = fmt.Sprint(len(r.GetResponses()))
			}
		case "Proposal":
			req := &pb.SignBeaconProposalRequest{Domain: shapeDomain(str(sh, "domain"), rnd)}
			a.shapeID(str(sh, "id"), rnd, func(acct string, key []byte) {
				if key != nil {
					req.Id = &pb.SignBeaconProposalRequest_PublicKey{PublicKey: key}
				} else {
					req.Id = &pb.SignBeaconProposalRequest_Account{Account: acct}
				}
			})
			if str(sh, "data") == "present" {
				req.Data = &pb.BeaconBlockHeader{Slot: shapeU64(str(sh, "slot")), ProposerIndex: shapeU64(str(sh, "proposer")), ParentRoot: shapeBytes(str(sh, "parent"), rnd),
					StateRoot: shapeBytes(str(sh, "state"), rnd), BodyRoot: shapeBytes(str(sh, "body"), rnd)}
			}
			var r *pb.SignResponse
			if r, rerr = pb.NewSignerClient(conn).SignBeaconProposal(cctx, req); rerr == nil {
				detail = r.GetState().String()
			}
		case "List":
			req := &pb.ListAccountsRequest{}
			n := shapeCount(str(sh, "count"))
			for i := 0; i < n; i++ {
				k := 0
				if str(sh, "mix") == "distinct" {
					k = i
				}
				if str(sh, "mix") == "with-valid" && i%2 == 0 {
					// (a path that yields accessible accounts next to the odd one: the request is not dropped early)
					req.Paths = append(req.Paths, "W1")
					continue
				}
				req.Paths = append(req.Paths, shapePath(str(sh, "path"), k))
			}
			var r *pb.ListAccountsResponse
			if r, rerr = pb.NewListerClient(conn).ListAccounts(cctx, req); rerr == nil {
				detail = fmt.Sprint(r.GetState(), len(r.GetAccounts()))
			}
		case "Generate":
			acct := shapeStr(str(sh, "account"), false, rnd)
			if str(sh, "account") == "valid" {
				acct = fmt.Sprintf("W1/fz%s", m.ID)
			}
			var r *pb.GenerateResponse
			if r, rerr = pb.NewAccountManagerClient(conn).Generate(cctx, &pb.GenerateRequest{Account: acct, Passphrase: fillBytes(shapeBytes(str(sh, "passphrase"), rnd), str(sh, "fill")),
				Participants: uint32(shapeU64(str(sh, "participants"))), SigningThreshold: uint32(shapeU64(str(sh, "threshold")))}); rerr == nil {
				detail = r.GetState().String()
				if r.GetState() == pb.ResponseState_SUCCEEDED && len(r.GetPublicKey()) == 48 {
					a.noteCreated(acct, r.GetPublicKey())
				}
			}
		case "LockAccount":
			var r *pb.LockAccountResponse
			if r, rerr = pb.NewAccountManagerClient(conn).Lock(cctx, &pb.LockAccountRequest{Account: shapeStr(str(sh, "account"), false, rnd)}); rerr == nil {
				detail = r.GetState().String()
			}
		case "UnlockAccount":
			var r *pb.UnlockAccountResponse
			if r, rerr = pb.NewAccountManagerClient(conn).Unlock(cctx, &pb.UnlockAccountRequest{Account: shapeStr(str(sh, "account"), false, rnd), Passphrase: fillBytes(shapeBytes(str(sh, "passphrase"), rnd), str(sh, "fill"))}); rerr == nil {
				detail = r.GetState().String()
			}
		case "LockWallet":
			var r *pb.LockWalletResponse
			if r, rerr = pb.NewWalletManagerClient(conn).Lock(cctx, &pb.LockWalletRequest{Wallet: shapeStr(str(sh, "wallet"), true, rnd)}); rerr == nil {
				detail = r.GetState().String()
			}
		case "UnlockWallet":
			var r *pb.UnlockWalletResponse
			if r, rerr = pb.NewWalletManagerClient(conn).Unlock(cctx, &pb.UnlockWalletRequest{Wallet: shapeStr(str(sh, "wallet"), true, rnd), Passphrase: fillBytes(shapeBytes(str(sh, "passphrase"), rnd), str(sh, "fill"))}); rerr == nil {
				detail = r.GetState().String()
			}
		case "DkgPrepare":
			n := shapeCount(str(sh, "nparticipants"))
			parts := make([]*pb.Endpoint, n)
			for i := range parts {
				parts[i] = &pb.Endpoint{Id: uint64(i + 1), Name: fmt.Sprintf("signer-%d", i+1), Port: 9000}
			}
			_, rerr = pb.NewDKGClient(conn).Prepare(cctx, &pb.PrepareRequest{Account: shapeStr(str(sh, "account"), false, rnd), Passphrase: []byte("p"),
				Threshold: uint32(shapeU64(str(sh, "threshold"))), Participants: parts})
		case "DkgExecute":
			_, rerr = pb.NewDKGClient(conn).Execute(cctx, &pb.ExecuteRequest{Account: shapeStr(str(sh, "account"), false, rnd)})
		case "DkgCommit":
			_, rerr = pb.NewDKGClient(conn).Commit(cctx, &pb.CommitRequest{Account: shapeStr(str(sh, "account"), false, rnd), ConfirmationData: shapeBytes(str(sh, "confirmation"), rnd)})
		case "DkgAbort":
			_, rerr = pb.NewDKGClient(conn).Abort(cctx, &pb.AbortRequest{Account: shapeStr(str(sh, "account"), false, rnd)})
		case "DkgContribute":
			n := shapeCount(str(sh, "vveccount"))
			vv := make([][]byte, n)
			for i := range vv {
				vv[i] = shapeBytes("len48", rnd)
			}
			_, rerr = pb.NewDKGClient(conn).Contribute(cctx, &pb.ContributeRequest{Account: shapeStr(str(sh, "account"), false, rnd), Secret: shapeBytes(str(sh, "secret"), rnd), VerificationVector: vv})
		default:
			cancel()
			return "", "", fmt.Errorf("unknown fuzz method %s", m.Method)
		}
		cancel()
		answered := "response"
		if rerr != nil {
			answered = "error"
			detail = rerr.Error()
			if len(detail) > 120 {
				detail = detail[:120]
			}
		}
		return answered, detail, nil
}

// probeAlive: another client's ordinary requests - a listing AND a signature with its own account - must still be answered.
func probeAlive(ctx context.Context, probe *grpc.ClientConn) (bool, error) {
	pctx, pcancel := context.WithTimeout(ctx, 10*time.Second)
	defer pcancel()
	pres, perr := pb.NewListerClient(probe).ListAccounts(pctx, &pb.ListAccountsRequest{Paths: []string{"W2"}})
	if perr != nil || len(pres.GetAccounts()) != 2 {
		return false, perr
	}
	dom := make([]byte, 32)
	dom[0] = 2 // randao
	_, serr := pb.NewSignerClient(probe).Sign(pctx, &pb.SignRequest{Id: &pb.SignRequest_Account{Account: "W2/b0"}, Domain: dom, Data: make([]byte, 32)})
	if serr != nil {
		return false, fmt.Errorf("listing answered, signing request not: %w", serr)
	}
	return true, nil
}

// runFuzz sends every shape message over a real connection and probes liveness after each one.
func (a *APIServer) runFuzz(ctx context.Context, msgs []FuzzMsg, log *Log) error {
	conns := map[string]*grpc.ClientConn{}
	get := func(cred string) (*grpc.ClientConn, error) {
		if c, ok := conns[cred]; ok {
			return c, nil
		}
		c, err := a.Dial(ctx, cred)
		if err == nil {
			conns[cred] = c
		}
		return c, err
	}
	probe, err := get("valid-c2")
	if err != nil {
		return err
	}
	for _, m := range msgs {
		m := m
		answered, detail, err := a.sendOne(ctx, get, m, func() { log.Emit(Ev{"ev": "FuzzBegin", "id": m.ID, "method": m.Method, "shape": m.Shape}) })
		if err != nil {
			return err
		}
		// liveness: another client's ordinary request must still be answered
		alive := false
		var perr error
		for try := 0; try < 3 && !alive; try++ { // a loaded machine may be slow; a dead or wedged server stays silent for all three
			alive, perr = probeAlive(ctx, probe)
		}
		log.Emit(Ev{"ev": "FuzzEnd", "id": m.ID, "method": m.Method, "answered": answered, "detail": detail, "alive": alive})
		if !alive {
			return fmt.Errorf("server stopped answering after message %s: %v", m.ID, perr)
		}
	}
	for _, c := range conns {
		_ = c.Close()
	}
	return nil
}

// RunStorm: the same message classes under CONCURRENCY.  One stream creates accounts through Dirk one after the other while
// `workers` streams keep sending shape messages (half of them signing requests that address the most recently created account by
// public key or by name, from a permitted and from an unpermitted client).  Afterwards the daemon must still answer a fresh client.
func (a *APIServer) RunStorm(ctx context.Context, msgs []FuzzMsg, workers, generates int, log *Log) error {
	dial := func() func(string) (*grpc.ClientConn, error) {
		conns := map[string]*grpc.ClientConn{}
		return func(cred string) (*grpc.ClientConn, error) {
			if c, ok := conns[cred]; ok {
				return c, nil
			}
			c, err := a.Dial(ctx, cred)
			if err == nil {
				conns[cred] = c
			}
			return c, err
		}
	}
	wctx, stop := context.WithCancel(ctx)
	var wg sync.WaitGroup
	var sent, unanswered int64
	for w := 0; w < workers; w++ {
		wg.Add(1)
		go func(w int) {
			defer wg.Done()
			get := dial()
			for i := 0; wctx.Err() == nil; i++ {
				var m FuzzMsg
				if w%2 == 0 || len(msgs) == 0 {
					m = FuzzMsg{ID: fmt.Sprintf("s%d_%d", w, i), Method: "Sign", Cred: []string{"valid-c2", "valid-c1"}[(w/2)%2], Seed: int64(w*1000003 + i),
						Shape: map[string]any{"id": []string{"key-created", "acct-created"}[i%2], "domain": "randao", "data": "len32"}}
				} else if w%4 == 3 {
					// listings whose account expressions the daemon has never seen (as the signing streams address accounts it has only just created)
					m = FuzzMsg{ID: fmt.Sprintf("l%d_%d", w, i), Method: "List", Cred: []string{"valid-c1", "valid-c2"}[(w/4)%2], Seed: int64(w*1000003 + i),
						Shape: map[string]any{"count": []string{"1", "2", "17"}[i%3], "path": "fresh-acct", "mix": "distinct"}}
				} else {
					m = msgs[(w*7919+i)%len(msgs)]
					m.ID = fmt.Sprintf("%s_w%d_%d", m.ID, w, i)
				}
				_, detail, err := a.sendOne(wctx, get, m, nil)
				if err != nil {
					return
				}
				atomic.AddInt64(&sent, 1)
				if wctx.Err() == nil && strings.Contains(detail, "DeadlineExceeded") && !strings.HasPrefix(str(m.Shape, "patience"), "gone") {
					atomic.AddInt64(&unanswered, 1)
				}
			}
		}(w)
	}
	get := dial()
	conn, err := get("valid-c1")
	if err != nil {
		stop()
		return err
	}
	done := 0
	hung := ""
	for g := 0; g < generates; g++ {
		gctx, cancel := context.WithTimeout(ctx, 20*time.Second)
		name := fmt.Sprintf("W1/storm%d", g)
		r, gerr := pb.NewAccountManagerClient(conn).Generate(gctx, &pb.GenerateRequest{Account: name, Passphrase: []byte("pass"), Participants: 1, SigningThreshold: 1})
		cancel()
		if gerr != nil {
			hung = fmt.Sprintf("Generate #%d got no answer: %v", g, gerr)
			break
		}
		if r.GetState() == pb.ResponseState_SUCCEEDED && len(r.GetPublicKey()) == 48 {
			a.noteCreated(name, r.GetPublicKey())
			done++
		}
	}
	stop()
	waited := make(chan struct{})
	go func() { wg.Wait(); close(waited) }()
	select {
	case <-waited:
	case <-time.After(30 * time.Second):
	}
	probe, err := a.Dial(ctx, "valid-c2")
	alive := false
	perrs := ""
	if err == nil {
		var perr error
		for try := 0; try < 3 && !alive; try++ {
			alive, perr = probeAlive(ctx, probe)
		}
		if perr != nil {
			perrs = perr.Error()
		}
		_ = probe.Close()
	}
	log.Emit(Ev{"ev": "Storm", "workers": workers, "generates": generates, "created": done, "sent": atomic.LoadInt64(&sent), "unanswered": atomic.LoadInt64(&unanswered),
		"hung": hung, "alive": alive, "probe_error": perrs})
	if !alive {
		return fmt.Errorf("server stopped answering under concurrent load: %s %s", hung, perrs)
	}
	return nil
}

package world

// A FAULTY PARTICIPANT OVER THE REAL TRANSPORT.  Two instances of a cluster are real dirk binaries; the third - the one with the
// highest identifier, so that it only ever ANSWERS contribution requests - is served by this process: the repository's gRPC service,
// receiver handler and process service on a loopback address of its own, with the process service wrapped so that the reply to a
// contribution is tampered with (the fault kinds of Dkg.tla).  The binaries reach it through their own services/sender/grpc, which
// is the only place where that sender's handling of a faulty reply is executed.

import (
	"context"
	"encoding/hex"
	"fmt"
	"net"
	"os"
	"sort"
	"strings"
	"time"

	standardaccountmanager "github.com/attestantio/dirk/services/accountmanager/standard"
	grpcapi "github.com/attestantio/dirk/services/api/grpc"
	staticpeers "github.com/attestantio/dirk/services/peers/static"
	"github.com/attestantio/dirk/core"
	"github.com/attestantio/dirk/services/process"
	standardprocess "github.com/attestantio/dirk/services/process/standard"
	standardwalletmanager "github.com/attestantio/dirk/services/walletmanager/standard"
	"github.com/herumi/bls-eth-go-binary/bls"
	pb "github.com/wealdtech/eth2-signer-api/pb/v1"
	e2wtypes "github.com/wealdtech/go-eth2-wallet-types/v2"
)

type faultyProcess struct {
	process.Service
	id   uint64
	kind string
	hits *int
	// impostor: this server holds the peer's ADDRESS but a certificate of an authority of the host trust store, not of the cluster's
	// authority; whatever key-generation message reaches its handlers was sent to somebody who is not the configured peer
	impostor bool
	name     string
	log      *Log
}

func (f *faultyProcess) got(sender uint64, what string) {
	if f.impostor {
		*f.hits++
		f.log.Emit(Ev{"ev": "Misdelivery", "from": sender, "id": f.id, "name": f.name, "port": 0, "reached": "impostor:" + what})
	}
}

func (f *faultyProcess) OnPrepare(ctx context.Context, sender uint64, account string, passphrase []byte, threshold uint32, participants []*core.Endpoint) error {
	f.got(sender, "prepare")
	return f.Service.OnPrepare(ctx, sender, account, passphrase, threshold, participants)
}

func (f *faultyProcess) OnExecute(ctx context.Context, sender uint64, account string) error {
	f.got(sender, "execute")
	return f.Service.OnExecute(ctx, sender, account)
}

func (f *faultyProcess) OnCommit(ctx context.Context, sender uint64, account string, confirmationData []byte) ([]byte, []byte, error) {
	f.got(sender, "commit")
	return f.Service.OnCommit(ctx, sender, account, confirmationData)
}

func (f *faultyProcess) OnContribute(ctx context.Context, sender uint64, account string, secret bls.SecretKey, vVec []bls.PublicKey) (bls.SecretKey, []bls.PublicKey, error) {
	f.got(sender, "contribute (a share)")
	rs, rv, err := f.Service.OnContribute(ctx, sender, account, secret, vVec)
	if err != nil || f.impostor {
		return rs, rv, err
	}
	*f.hits++
	rs, rv = tamper(f.kind, sender, rs, rv)
	return rs, rv, nil
}

// RunRemoteFaultyDkg: ids[0], ids[1] are real binaries, ids[2] (the highest) is the harness-served faulty participant whose contribution
// replies carry fault sc.Faults[0].Kind.  A client asks sc.Initiator (a binary) for an n = 3 generation.
func RunRemoteFaultyDkg(ctx context.Context, sc *DkgScenario, binary string, log *Log) error {
	if len(sc.IDs) != 3 || len(sc.Faults) != 1 {
		return fmt.Errorf("faulty peer over gRPC: needs three instances and one fault")
	}
	kind := sc.Faults[0].Kind
	// (before the binaries are started: they inherit the host trust store, which holds a "public" authority that is NOT the cluster's)
	hostPKI, err := HostTrust()
	if err != nil {
		return err
	}
	pki, err := NewPKI("verif CA")
	if err != nil {
		return err
	}
	other, err := NewPKI("another CA")
	if err != nil {
		return err
	}
	ids := append([]uint64{}, sc.IDs...)
	sort.Slice(ids, func(i, j int) bool { return ids[i] < ids[j] })
	fid := ids[2]
	names, addrs := map[uint64]string{}, map[uint64]string{}
	for i, id := range ids {
		names[id] = fmt.Sprintf("127.0.0.%d", 11+i)
		if addrs[id], err = FreeAddr(names[id]); err != nil {
			return err
		}
	}
	wn, _, _ := strings.Cut(sc.Account, "/")
	spec := Spec{Wallets: []WalletSpec{{Name: "W1", Type: "nd", Accounts: []AccountSpec{{Name: "a0", KeyIdx: 0}}}, {Name: wn, Type: "distributed"}}}
	envs := map[uint64]*ExternalEnv{}
	defer func() {
		for _, e := range envs {
			e.Kill()
			e.Remove()
		}
	}()
	for _, id := range ids[:2] {
		e, err := PrepareExternalNode(ctx, log, "bare", binary, spec, map[string]map[string]string{"c1": {"W1": "All", wn: "All"}},
			Node{ID: id, Name: names[id], Addr: addrs[id], Peers: addrs, PKI: pki, Other: other})
		if err != nil {
			return err
		}
		envs[id] = e
	}
	// ---- the faulty participant, served by this process
	fb, err := NewBase(ctx, spec, log, NewControl(log))
	if err != nil {
		return err
	}
	ps, err := staticpeers.New(ctx, staticpeers.WithPeers(addrs))
	if err != nil {
		return err
	}
	inner, err := standardprocess.New(ctx, standardprocess.WithChecker(fb.Checker), standardprocess.WithFetcher(fb.Fetcher),
		standardprocess.WithUnlocker(fb.Unlocker), standardprocess.WithSender(nullSender{}), standardprocess.WithPeers(ps),
		standardprocess.WithID(fid), standardprocess.WithStores([]e2wtypes.Store{fb.Store}), standardprocess.WithEncryptor(fb.Encryptor),
		standardprocess.WithGenerationPassphrase([]byte("pass")), standardprocess.WithGenerationTimeout(10*time.Second))
	if err != nil {
		return err
	}
	hits := 0
	fproc := &faultyProcess{Service: inner, id: fid, kind: kind, hits: &hits, impostor: kind == "impostor", name: names[fid], log: log}
	fdir, err := os.MkdirTemp("", "faultydb")
	if err != nil {
		return err
	}
	defer os.RemoveAll(fdir)
	fst, err := NewStack(ctx, fb, fdir, inner)
	if err != nil {
		return err
	}
	sctx, cancel := context.WithCancel(ctx)
	defer cancel()
	defer fst.Close(ctx)
	am, err := standardaccountmanager.New(sctx, standardaccountmanager.WithUnlocker(fb.Unlocker), standardaccountmanager.WithChecker(fb.Checker),
		standardaccountmanager.WithFetcher(fb.Fetcher), standardaccountmanager.WithRuler(fst.Ruler), standardaccountmanager.WithProcess(fproc))
	if err != nil {
		return err
	}
	wm, err := standardwalletmanager.New(sctx, standardwalletmanager.WithUnlocker(fb.Unlocker), standardwalletmanager.WithChecker(fb.Checker),
		standardwalletmanager.WithFetcher(fb.Fetcher), standardwalletmanager.WithRuler(fst.Ruler))
	if err != nil {
		return err
	}
	issuer := pki
	if kind == "impostor" {
		issuer = hostPKI
	}
	sder, skey, err := issuer.Issue(names[fid], true, false, false)
	if err != nil {
		return err
	}
	if _, err := grpcapi.New(sctx, grpcapi.WithSigner(fst.Signer), grpcapi.WithLister(fst.Lister), grpcapi.WithProcess(fproc), grpcapi.WithAccountManager(am),
		grpcapi.WithWalletManager(wm), grpcapi.WithPeers(ps), grpcapi.WithName(names[fid]), grpcapi.WithID(fid), grpcapi.WithServerCert(certPEM(sder)),
		grpcapi.WithServerKey(keyPEM(skey)), grpcapi.WithCACert(pki.CAPEM), grpcapi.WithListenAddress(addrs[fid])); err != nil {
		return fmt.Errorf("faulty participant: %w", err)
	}
	for try := 0; ; try++ {
		c, derr := net.DialTimeout("tcp", addrs[fid], time.Second)
		if derr == nil {
			_ = c.Close()
			break
		}
		if try > 50 {
			return fmt.Errorf("faulty participant does not listen on %s: %v", addrs[fid], derr)
		}
		time.Sleep(100 * time.Millisecond)
	}
	for _, id := range ids[:2] {
		if err := envs[id].Start(); err != nil {
			return err
		}
	}
	log.Emit(Ev{"ev": "Begin", "sc": sc.ID, "remote": true, "faulty": fid, "kind": kind})
	init := sc.Initiator
	if envs[init] == nil {
		init = ids[0]
	}
	conn, err := envs[init].Dialer().Dial(ctx, "valid-c1")
	if err != nil {
		return err
	}
	gctx, gcancel := context.WithTimeout(ctx, 60*time.Second)
	res, gerr := pb.NewAccountManagerClient(conn).Generate(gctx, &pb.GenerateRequest{Account: sc.Account, Passphrase: []byte("pass"), Participants: 3, SigningThreshold: sc.T})
	gcancel()
	ok := gerr == nil && res != nil && res.GetState() == pb.ResponseState_SUCCEEDED
	out := Ev{"ev": "Outcome", "ok": ok, "n": 3, "t": sc.T, "hung": gerr != nil && strings.Contains(gerr.Error(), "DeadlineExceeded")}
	parts := []uint64{}
	if res != nil {
		out["message"] = res.GetMessage()
		out["pubkey"] = hex.EncodeToString(res.GetPublicKey())
		for _, p := range res.GetParticipants() {
			parts = append(parts, p.GetId())
		}
	}
	out["participants"] = parts
	hit := []string{}
	if hits > 0 {
		hit = append(hit, fmt.Sprintf("contribute.rep:%d->0:%s", fid, kind))
	}
	out["faults_hit"] = hit
	log.Emit(out)
	_ = conn.Close()
	// what every instance holds under the name afterwards (the binaries as a client sees them, the harness participant directly)
	crashed := []uint64{}
	for _, id := range ids[:2] {
		present, composite := false, ""
		alive := !hasExited(envs[id].exited)
		if c, derr := envs[id].Dialer().Dial(ctx, "valid-c1"); derr == nil {
			lctx, lcancel := context.WithTimeout(ctx, 10*time.Second)
			lres, lerr := pb.NewListerClient(c).ListAccounts(lctx, &pb.ListAccountsRequest{Paths: []string{wn}})
			lcancel()
			_ = c.Close()
			if lerr != nil {
				alive = false
			} else {
				for _, a := range lres.GetDistributedAccounts() {
					if a.GetName() == sc.Account {
						present, composite = true, hex.EncodeToString(a.GetCompositePublicKey())
					}
				}
			}
		} else {
			alive = false
		}
		if !alive {
			crashed = append(crashed, id)
		}
		log.Emit(Ev{"ev": "Holds", "inst": id, "present": present, "in_fetcher": present, "composite": composite, "share": "", "threshold": 0, "vvec": []string{},
			"nvvec": 0, "participants": map[string]string{}, "share_ok": false, "crashed": !alive})
	}
	_, _, ferr := fb.RawFetch.FetchAccount(ctx, sc.Account)
	log.Emit(Ev{"ev": "Holds", "inst": fid, "present": ferr == nil, "in_fetcher": ferr == nil, "composite": "", "share": "", "threshold": 0, "vvec": []string{},
		"nvvec": 0, "participants": map[string]string{}, "share_ok": false, "crashed": false})
	log.Emit(Ev{"ev": "End", "sc": sc.ID, "crashed": crashed})
	return nil
}

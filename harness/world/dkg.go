package world

import (
	"context"
	"encoding/hex"
	"errors"
	"fmt"
	"sort"
	"strings"
	"sync"
	"sync/atomic"
	"time"

	"github.com/attestantio/dirk/core"
	"github.com/attestantio/dirk/util"
	"github.com/attestantio/dirk/util/verifhook"
	"github.com/herumi/bls-eth-go-binary/bls"
	pb "github.com/wealdtech/eth2-signer-api/pb/v1"
)

// DkgCall is one protocol message delivered directly to an instance's receiver handler (C16 / C17).
type DkgCall struct {
	Inst         uint64   `json:"inst"`
	Caller       string   `json:"caller"` // authenticated name as the interceptor would set it ("" = none)
	Msg          string   `json:"msg"`    // prepare execute commit abort contribute tick generate
	Account      string   `json:"account"`
	Threshold    uint32   `json:"t"`
	Participants []uint64 `json:"participants"`
	TickMs       int      `json:"tick_ms"`
	// for "contribute": whose valid contribution to send ("" = a self-made valid one for the receiving instance)
	N uint32 `json:"n"`
	// for "prepare": identifier -> "name:port" written into the participant list instead of the configured endpoint
	Bind map[string]string `json:"bind"`
}

// DkgScenario is one key-generation run on a fresh cluster.
type DkgScenario struct {
	ID          string      `json:"id"`
	IDs         []uint64    `json:"ids"`
	N           uint32      `json:"n"`
	T           uint32      `json:"t"`
	Initiator   uint64      `json:"initiator"`
	Account     string      `json:"account"`
	Client      string      `json:"client"`
	Faults      []*NetFault `json:"faults"`
	CommitOrder []uint64    `json:"commit_order"`
	Probe       bool        `json:"probe"`
	Calls       []DkgCall   `json:"calls"`
	TimeoutMs   int         `json:"timeout_ms"`
	Generate    bool        `json:"generate"`
	Warm        bool        `json:"warm"` // an earlier, fault-free generation of another account in the same wallet (from the last instance) comes first
	Duties      []DutyOp    `json:"duties"`
	// Prior: an earlier generation of the SAME account name, requested of instance Prior.Initiator with Prior.N participants and
	// threshold Prior.T (the cluster is larger than that).  With InitiatorNonHolder the main generation is then requested of the
	// first instance that does not hold an account of that name (Initiator is ignored).
	Prior              *PriorGen `json:"prior"`
	InitiatorNonHolder bool      `json:"initiator_nonholder"`
	// StormMs > 0: for that long, peers and non-peers send key-generation messages to the first instance CONCURRENTLY (C16 under
	// concurrent arrival): StormWorkers streams per side
	StormMs      int `json:"storm_ms"`
	StormWorkers int `json:"storm_workers"`
	// ConcGens: generations requested AT THE SAME TIME of (possibly different) instances of the cluster (DkgConc.tla)
	// FaultyGRPC (with -dirk): two instances are real binaries, the third is a harness-served participant reached over real gRPC whose
	// contribution replies carry the fault Faults[0].Kind (RunRemoteFaultyDkg)
	FaultyGRPC bool `json:"faulty_grpc"`
	ConcGens []ConcGen `json:"conc_gens"`
	JitterUs int       `json:"jitter_us"` // every message between instances is delayed by a random time below this (seeded per scenario id)
}

// ConcGen is one of several generations that run concurrently.
type ConcGen struct {
	Initiator uint64 `json:"initiator"`
	N         uint32 `json:"n"`
	T         uint32 `json:"t"`
	Account   string `json:"account"`
}

// PriorGen describes the earlier generation of the same name.
type PriorGen struct {
	Initiator uint64 `json:"initiator"`
	N         uint32 `json:"n"`
	T         uint32 `json:"t"`
}

// DutyOp asks one instance for a partial signature for a duty on the generated account (C14).
type DutyOp struct {
	Inst    uint64 `json:"inst"`
	Duty    string `json:"duty"`    // label, e.g. "r12:A"
	Kind    string `json:"kind"`    // att | prop
	Variant string `json:"variant"` // single | batch1 | batch2 (attestations only)
	By      string `json:"by"`      // name | key
	S       uint64 `json:"s"`
	T       uint64 `json:"t"`
	Slot    uint64 `json:"slot"`
	Root    string `json:"root"`
	Filler  uint64 `json:"filler"` // epoch base for the filler entry of batch2
	Fault   string `json:"fault"`  // "" | read | write: the instance's slashing database fails while it handles this request (in-process clusters only)
}

func errClass(err error) string {
	if err == nil {
		return "ok"
	}
	s := err.Error()
	switch {
	case strings.Contains(s, "unknown sender"):
		return "unknownsender"
	case strings.Contains(s, "not in progress"):
		return "notinprogress"
	case strings.Contains(s, "in progress"):
		return "inprogress"
	case strings.Contains(s, "not found"):
		return "notinprogress"
	}
	return "error"
}

func combos(ids []uint64, k int) [][]uint64 {
	var out [][]uint64
	var rec func(start int, cur []uint64)
	rec = func(start int, cur []uint64) {
		if len(cur) == k {
			out = append(out, append([]uint64{}, cur...))
			return
		}
		for i := start; i < len(ids); i++ {
			rec(i+1, append(cur, ids[i]))
		}
	}
	rec(0, nil)
	return out
}

// RunDkgScenario runs one scenario and logs what happened.
func RunDkgScenario(ctx context.Context, sc *DkgScenario, log *Log) error {
	timeout := 10 * time.Second
	if sc.TimeoutMs > 0 {
		timeout = time.Duration(sc.TimeoutMs) * time.Millisecond
	}
	c, err := NewCluster(ctx, sc.IDs, log, timeout)
	if err != nil {
		return err
	}
	defer c.Close(ctx)
	c.Faults = sc.Faults
	c.CommitOrder = sc.CommitOrder
	client := sc.Client
	if client == "" {
		client = "c1"
	}
	log.Emit(Ev{"ev": "Begin", "sc": sc.ID, "ids": sc.IDs, "n": sc.N, "t": sc.T, "initiator": sc.Initiator})

	// ---- direct protocol calls (C16, C17)
	for i, call := range sc.Calls {
		in := c.Inst[call.Inst]
		if call.Msg == "tick" {
			time.Sleep(time.Duration(call.TickMs) * time.Millisecond)
			log.Emit(Ev{"ev": "Call", "i": i, "msg": "tick"})
			continue
		}
		if in == nil {
			return fmt.Errorf("call %d: unknown instance %d", i, call.Inst)
		}
		cctx := callerCtx(ctx, call.Caller)
		parts := make([]*pb.Endpoint, len(call.Participants))
		for j, id := range call.Participants {
			parts[j] = &pb.Endpoint{Id: id, Name: peerName(id), Port: uint32(10000 + id%50000)}
			if b, ok := call.Bind[fmt.Sprint(id)]; ok {
				// the request binds this identifier to another name:port than the receiver's configuration does
				host, port, _ := strings.Cut(b, ":")
				var pn uint64
				fmt.Sscan(port, &pn)
				parts[j] = &pb.Endpoint{Id: id, Name: host, Port: uint32(pn)}
			}
		}
		before := c.sessionProbeSnapshot(ctx, in, call.Account)
		var cerr error
		extra := Ev{}
		// a caller waits for its answer: a message that is neither acted on nor refused within 30 s is recorded as unanswered, and the
		// rest of the sequence is not sent (the goroutine that still works on it is left behind)
		callDone := make(chan struct{})
		go func() {
		defer close(callDone)
		_ = c.deliver(in, call.Msg, func() error {
			switch call.Msg {
			case "prepare":
				_, cerr = in.RecvH.Prepare(cctx, roundTrip(&pb.PrepareRequest{Account: call.Account, Passphrase: []byte("pass"), Threshold: call.Threshold, Participants: parts}, &pb.PrepareRequest{}))
			case "execute":
				_, cerr = in.RecvH.Execute(cctx, roundTrip(&pb.ExecuteRequest{Account: call.Account}, &pb.ExecuteRequest{}))
			case "commit":
				var res *pb.CommitResponse
				res, cerr = in.RecvH.Commit(cctx, roundTrip(&pb.CommitRequest{Account: call.Account, ConfirmationData: make([]byte, 32)}, &pb.CommitRequest{}))
				if cerr == nil {
					extra["pubkey"] = hex.EncodeToString(res.GetPublicKey())
				}
			case "abort":
				_, cerr = in.RecvH.Abort(cctx, roundTrip(&pb.AbortRequest{Account: call.Account}, &pb.AbortRequest{}))
			case "contribute":
				// a self-consistent contribution for the receiving instance's id with threshold call.Threshold
				t := int(call.Threshold)
				if t == 0 {
					t = 2
				}
				sks := make([]bls.SecretKey, t)
				vv := make([][]byte, t)
				for k := range sks {
					sks[k].SetByCSPRNG()
					vv[k] = sks[k].GetPublicKey().Serialize()
				}
				var share bls.SecretKey
				_ = share.Set(sks, util.BLSID(in.ID))
				var res *pb.ContributeResponse
				res, cerr = in.RecvH.Contribute(cctx, roundTrip(&pb.ContributeRequest{Account: call.Account, Secret: share.Serialize(), VerificationVector: vv}, &pb.ContributeRequest{}))
				if cerr == nil && res != nil {
					extra["got_share"] = len(res.GetSecret()) > 0
				}
			case "generate":
				var res *pb.GenerateResponse
				res, cerr = in.St.AcctH.Generate(credsCtx(ctx, call.Caller, ""), roundTrip(&pb.GenerateRequest{Account: call.Account, Passphrase: []byte("pass"), Participants: call.N, SigningThreshold: call.Threshold}, &pb.GenerateRequest{}))
				if cerr == nil && res.GetState() != pb.ResponseState_SUCCEEDED {
					cerr = fmt.Errorf("generate: %s", res.GetMessage())
				}
			}
			return nil
		})
		}()
		hungCall := false
		select {
		case <-callDone:
		case <-time.After(30 * time.Second):
			hungCall = true
		}
		if hungCall {
			log.Emit(Ev{"ev": "Call", "i": i, "inst": call.Inst, "caller": call.Caller, "msg": call.Msg, "account": call.Account, "result": "hung",
				"changed": false, "crashed": false, "err": "no answer after 30 s"})
			break
		}
		after := c.sessionProbeSnapshot(ctx, in, call.Account)
		ev := Ev{"ev": "Call", "i": i, "inst": call.Inst, "caller": call.Caller, "msg": call.Msg, "account": call.Account, "result": errClass(cerr),
			"changed": before != after, "crashed": in.Crashed != ""}
		if cerr != nil {
			ev["err"] = cerr.Error()
		}
		for k, v := range extra {
			ev[k] = v
		}
		log.Emit(ev)
	}

	if sc.StormMs > 0 {
		c.storm(ctx, sc, log)
	}
	if len(sc.ConcGens) > 0 {
		c.JitterUs = sc.JitterUs
		c.concGens(ctx, sc, client, log)
	}

	// ---- a complete generation driven by the initiator
	if sc.Generate {
		in := c.Inst[sc.Initiator]
		if in == nil && !(sc.Prior != nil && sc.InitiatorNonHolder) {
			return fmt.Errorf("unknown initiator %d", sc.Initiator)
		}
		if sc.Warm {
			// the wallet already holds an account created through Dirk since the instances started
			w := c.Inst[c.Order[len(c.Order)-1]]
			wn, _, _ := strings.Cut(sc.Account, "/")
			var wres *pb.GenerateResponse
			var werr error
			_ = c.deliver(w, "Generate", func() error {
				wres, werr = w.St.AcctH.Generate(credsCtx(ctx, client, ""), roundTrip(&pb.GenerateRequest{Account: wn + "/warm", Passphrase: []byte("pass"),
					Participants: uint32(len(c.Order)), SigningThreshold: uint32(len(c.Order))}, &pb.GenerateRequest{}))
				return nil
			})
			log.Emit(Ev{"ev": "Warm", "ok": werr == nil && wres != nil && wres.GetState() == pb.ResponseState_SUCCEEDED})
		}
		if sc.Prior != nil {
			pi := c.Inst[sc.Prior.Initiator]
			if pi == nil {
				return fmt.Errorf("unknown prior initiator %d", sc.Prior.Initiator)
			}
			var pres *pb.GenerateResponse
			var perr error
			_ = c.deliver(pi, "Generate", func() error {
				pres, perr = pi.St.AcctH.Generate(credsCtx(ctx, client, ""), roundTrip(&pb.GenerateRequest{Account: sc.Account, Passphrase: []byte("pass"),
					Participants: sc.Prior.N, SigningThreshold: sc.Prior.T}, &pb.GenerateRequest{}))
				return nil
			})
			pok := perr == nil && pres != nil && pres.GetState() == pb.ResponseState_SUCCEEDED
			pparts := []uint64{}
			if pres != nil {
				for _, p := range pres.GetParticipants() {
					pparts = append(pparts, p.GetId())
				}
			}
			holders := []uint64{}
			for _, id := range c.Order {
				if info := c.Inspect(ctx, c.Inst[id], sc.Account); info.Present || info.InFetcher {
					holders = append(holders, id)
				}
			}
			log.Emit(Ev{"ev": "Prior", "ok": pok, "participants": pparts, "holders": holders})
			if sc.InitiatorNonHolder {
				in = nil
				for _, id := range c.Order {
					held := false
					for _, h := range holders {
						held = held || h == id
					}
					if !held {
						in = c.Inst[id]
						break
					}
				}
				if in == nil {
					log.Emit(Ev{"ev": "Outcome", "ok": false, "n": sc.N, "t": sc.T, "message": "harness: every instance holds the name already", "participants": []uint64{}, "faults_hit": []string{}, "skipped": true})
					log.Emit(Ev{"ev": "End", "sc": sc.ID, "crashed": []uint64{}})
					return nil
				}
				log.Emit(Ev{"ev": "InitiatorChosen", "inst": in.ID})
			}
		}
		var res *pb.GenerateResponse
		var gerr error
		// the client waits for its answer: a generation takes well under a second here and a session expires after ten; one that has
		// not ended after 40 s is recorded as never-ending (the goroutines that still work on it are left behind)
		type genOut struct {
			res *pb.GenerateResponse
			err error
		}
		gch := make(chan genOut, 1)
		go func() {
			var r0 *pb.GenerateResponse
			var e0 error
			_ = c.deliver(in, "Generate", func() error {
				r0, e0 = in.St.AcctH.Generate(credsCtx(ctx, client, ""), roundTrip(&pb.GenerateRequest{Account: sc.Account, Passphrase: []byte("pass"),
					Participants: sc.N, SigningThreshold: sc.T}, &pb.GenerateRequest{}))
				return nil
			})
			gch <- genOut{r0, e0}
		}()
		hung := false
		select {
		case g := <-gch:
			res, gerr = g.res, g.err
		case <-time.After(40 * time.Second):
			hung = true
			gerr = fmt.Errorf("no answer after 40 s")
		}
		ok := gerr == nil && res != nil && res.GetState() == pb.ResponseState_SUCCEEDED
		out := Ev{"ev": "Outcome", "ok": ok, "n": sc.N, "t": sc.T, "hung": hung}
		parts := []uint64{}
		if res != nil {
			out["message"] = res.GetMessage()
			out["pubkey"] = hex.EncodeToString(res.GetPublicKey())
			for _, p := range res.GetParticipants() {
				parts = append(parts, p.GetId())
			}
		}
		sort.Slice(parts, func(i, j int) bool { return parts[i] < parts[j] })
		out["participants"] = parts
		hit := []string{}
		for _, f := range sc.Faults {
			if f.Hit {
				hit = append(hit, fmt.Sprintf("%s:%d->%d:%s", f.Site, f.From, f.To, f.Kind))
			}
		}
		out["faults_hit"] = hit
		log.Emit(out)
		holders := []uint64{}
		infos := map[uint64]AccountInfo{}
		for _, id := range c.Order {
			info := c.Inspect(ctx, c.Inst[id], sc.Account)
			infos[id] = info
			if info.Present || info.InFetcher {
				holders = append(holders, id)
			}
			log.Emit(Ev{"ev": "Holds", "inst": id, "present": info.Present, "in_fetcher": info.InFetcher, "composite": info.Composite, "share": info.Share,
				"threshold": info.Threshold, "vvec": info.VVec, "nvvec": len(info.VVec), "participants": info.Participants, "share_ok": info.ShareOK,
				"crashed": c.Inst[id].Crashed != ""})
		}
		if ok && sc.Probe {
			c.probe(ctx, sc, parts, hex.EncodeToString(res.GetPublicKey()), log)
		}
		if ok && len(sc.Duties) > 0 {
			c.runDuties(ctx, sc, infos, hex.EncodeToString(res.GetPublicKey()), log)
		}
	}
	crashed := []uint64{}
	for _, id := range c.Order {
		if c.Inst[id].Crashed != "" {
			crashed = append(crashed, id)
		}
	}
	log.Emit(Ev{"ev": "End", "sc": sc.ID, "crashed": crashed})
	return nil
}

// sessionProbeSnapshot is a cheap observable of an instance's state for "changes nothing": whether the
// account exists in the store / fetcher.  (The session table is private; C17's replay observes it through
// the error classes of later calls.)
func (c *Cluster) sessionProbeSnapshot(ctx context.Context, in *Instance, account string) string {
	if account == "" {
		return ""
	}
	info := c.Inspect(ctx, in, account)
	return fmt.Sprint(info.Present, info.InFetcher, info.Composite)
}

// probe checks that the generated account is immediately usable on every participant and that any t partial
// signatures recover a signature valid under the composite key while t-1 do not.
func (c *Cluster) probe(ctx context.Context, sc *DkgScenario, parts []uint64, composite string, log *Log) {
	domain := domainBytes("randao", 0x44)
	data := rootBytes("D")
	root := SigningRoot([32]byte(data), domain)
	sigs := map[uint64]bls.Sign{}
	for _, id := range parts {
		in := c.Inst[id]
		cctx := credsCtx(WithRid(ctx, fmt.Sprintf("probe%d", id)), "c1", "")
		signOK, listOK := false, false
		res, err := in.St.SignerH.Sign(cctx, roundTrip(&pb.SignRequest{Id: &pb.SignRequest_Account{Account: sc.Account}, Domain: domain, Data: data}, &pb.SignRequest{}))
		if err == nil && res.GetState() == pb.ResponseState_SUCCEEDED {
			var s bls.Sign
			if s.Deserialize(res.GetSignature()) == nil {
				sigs[id] = s
				signOK = true
			}
			if bk, isByz := c.Byz[id]; isByz {
				sigs[id] = *bk.SignByte(root[:]) // the faulty participant keeps signing with its other key
			}
		}
		// ... and addressed by the share's public key
		signKeyOK := false
		if share, herr := hex.DecodeString(c.Inspect(ctx, in, sc.Account).Share); herr == nil && len(share) == 48 {
			kres, kerr := in.St.SignerH.Sign(cctx, roundTrip(&pb.SignRequest{Id: &pb.SignRequest_PublicKey{PublicKey: share}, Domain: domain, Data: data}, &pb.SignRequest{}))
			signKeyOK = kerr == nil && kres.GetState() == pb.ResponseState_SUCCEEDED && len(kres.GetSignature()) > 0
		}
		wn, _, _ := strings.Cut(sc.Account, "/")
		lres, err := in.St.ListerH.ListAccounts(cctx, roundTrip(&pb.ListAccountsRequest{Paths: []string{wn}}, &pb.ListAccountsRequest{}))
		if err == nil {
			for _, a := range lres.GetDistributedAccounts() {
				if a.GetName() == sc.Account && hex.EncodeToString(a.GetCompositePublicKey()) == composite {
					listOK = true
				}
			}
		}
		log.Emit(Ev{"ev": "Usable", "inst": id, "sign": signOK, "signkey": signKeyOK, "list": listOK})
	}
	thresholdEvent(log, parts, sigs, composite, int(sc.T), root)
	_ = core.Endpoint{}
}

// runDuties routes duties to instances and reports which partial signatures were obtained; at the end it tries
// to recover a composite signature per duty from the partial signatures collected.
func (c *Cluster) runDuties(ctx context.Context, sc *DkgScenario, infos map[uint64]AccountInfo, composite string, log *Log) {
	shares := map[uint64][]byte{}
	for id, info := range infos {
		shares[id], _ = hex.DecodeString(info.Share)
	}
	runDutiesWith(ctx, sc, shares, func(id uint64) SignerAPI {
		if in := c.Inst[id]; in != nil {
			return in.St.Sig
		}
		return nil
	}, composite, log)
}

// runDutiesWith routes the duties to instances reached through api (in-process handlers or gRPC clients of real binaries).
func runDutiesWith(ctx context.Context, sc *DkgScenario, shares map[uint64][]byte, api func(uint64) SignerAPI, composite string, log *Log) {
	type got struct {
		root [32]byte
		sigs map[uint64]bls.Sign
	}
	all := map[string]*got{}
	order := []string{}
	attDomain := domainBytes("att", 0x66)
	propDomain := domainBytes("prop", 0x66)
	for n, d := range sc.Duties {
		in := api(d.Inst)
		if in == nil {
			continue
		}
		cctx := credsCtx(WithRid(ctx, fmt.Sprintf("duty%d", n)), "c1", "")
		share := shares[d.Inst]
		fired := false
		if d.Fault != "" {
			// duties are delivered one at a time: the observation points of the whole process fail for the duration of this request
			want := map[string]bool{"store.fetch.enter": true}
			if d.Fault == "write" {
				want = map[string]bool{"store.store.enter": true, "store.batch.enter": true}
			}
			verifhook.Hook = func(_ context.Context, site string, _ []byte, _ []byte) error {
				if want[site] {
					fired = true
					return errors.New("injected storage fault")
				}
				return nil
			}
		}
		var root [32]byte
		var sig []byte
		state := "ERROR"
		switch d.Kind {
		case "prop":
			root = SigningRoot(HeaderRoot(d.Slot, 11, rootBytes("p"+d.Root), rootBytes("q"+d.Root), rootBytes(d.Root)), propDomain)
			req := &pb.SignBeaconProposalRequest{Domain: propDomain, Data: &pb.BeaconBlockHeader{Slot: d.Slot, ProposerIndex: 11,
				ParentRoot: rootBytes("p" + d.Root), StateRoot: rootBytes("q" + d.Root), BodyRoot: rootBytes(d.Root)}}
			if d.By == "key" {
				req.Id = &pb.SignBeaconProposalRequest_PublicKey{PublicKey: share}
			} else if d.By == "keypad" {
				// the share's public key followed by extra bytes (accounts are resolved on the first 48 bytes)
				req.Id = &pb.SignBeaconProposalRequest_PublicKey{PublicKey: append(append([]byte{}, share...), 0x00, byte(n))}
			} else {
				req.Id = &pb.SignBeaconProposalRequest_Account{Account: sc.Account}
			}
			if res, err := in.SignBeaconProposal(cctx, roundTrip(req, &pb.SignBeaconProposalRequest{})); err == nil {
				state, sig = res.GetState().String(), res.GetSignature()
			}
		default:
			root = SigningRoot(AttRoot(100+d.T, 7, rootBytes(d.Root), d.S, rootBytes("s"+d.Root), d.T, rootBytes("t"+d.Root)), attDomain)
			one := &pb.SignBeaconAttestationRequest{Domain: attDomain, Data: &pb.AttestationData{Slot: 100 + d.T, CommitteeIndex: 7, BeaconBlockRoot: rootBytes(d.Root),
				Source: &pb.Checkpoint{Epoch: d.S, Root: rootBytes("s" + d.Root)}, Target: &pb.Checkpoint{Epoch: d.T, Root: rootBytes("t" + d.Root)}}}
			if d.By == "key" {
				one.Id = &pb.SignBeaconAttestationRequest_PublicKey{PublicKey: share}
			} else if d.By == "keypad" {
				one.Id = &pb.SignBeaconAttestationRequest_PublicKey{PublicKey: append(append([]byte{}, share...), 0x00, byte(n))}
			} else {
				one.Id = &pb.SignBeaconAttestationRequest_Account{Account: sc.Account}
			}
			switch d.Variant {
			case "batch1", "batch2", "batch2d":
				req := &pb.SignBeaconAttestationsRequest{Requests: []*pb.SignBeaconAttestationRequest{one}}
				if d.Variant == "batch2d" {
					// the duty is followed by an entry that the rules REFUSE (target not after source) for another account
					req.Requests = append(req.Requests, &pb.SignBeaconAttestationRequest{Id: &pb.SignBeaconAttestationRequest_Account{Account: "W1/a0"}, Domain: attDomain,
						Data: &pb.AttestationData{Slot: 1, CommitteeIndex: 1, BeaconBlockRoot: rootBytes("F"),
							Source: &pb.Checkpoint{Epoch: d.Filler + 1, Root: rootBytes("f")}, Target: &pb.Checkpoint{Epoch: d.Filler, Root: rootBytes("g")}}})
				}
				if d.Variant == "batch2" {
					req.Requests = append(req.Requests, &pb.SignBeaconAttestationRequest{Id: &pb.SignBeaconAttestationRequest_Account{Account: "W1/a0"}, Domain: attDomain,
						Data: &pb.AttestationData{Slot: 1, CommitteeIndex: 1, BeaconBlockRoot: rootBytes("F"),
							Source: &pb.Checkpoint{Epoch: d.Filler, Root: rootBytes("f")}, Target: &pb.Checkpoint{Epoch: d.Filler + 1, Root: rootBytes("g")}}})
				}
				if res, err := in.SignBeaconAttestations(cctx, roundTrip(req, &pb.SignBeaconAttestationsRequest{})); err == nil && len(res.GetResponses()) > 0 {
					state, sig = res.GetResponses()[0].GetState().String(), res.GetResponses()[0].GetSignature()
				}
			default:
				if res, err := in.SignBeaconAttestation(cctx, roundTrip(one, &pb.SignBeaconAttestationRequest{})); err == nil {
					state, sig = res.GetState().String(), res.GetSignature()
				}
			}
		}
		if d.Fault != "" {
			verifhook.Hook = nil
		}
		valid := len(sig) > 0 && VerifySig(share, root, sig)
		if _, ok := all[d.Duty]; !ok {
			all[d.Duty] = &got{root: root, sigs: map[uint64]bls.Sign{}}
			order = append(order, d.Duty)
		}
		if valid {
			var bs bls.Sign
			if bs.Deserialize(sig) == nil {
				all[d.Duty].sigs[d.Inst] = bs
			}
		}
		log.Emit(Ev{"ev": "Partial", "inst": d.Inst, "duty": d.Duty, "variant": d.Variant, "by": d.By, "state": state, "valid": valid, "hassig": len(sig) > 0, "fault": d.Fault, "fault_fired": fired})
	}
	var cpk bls.PublicKey
	cb, _ := hex.DecodeString(composite)
	_ = cpk.Deserialize(cb)
	for _, name := range order {
		g := all[name]
		ids := make([]uint64, 0, len(g.sigs))
		for id := range g.sigs {
			ids = append(ids, id)
		}
		sort.Slice(ids, func(i, j int) bool { return ids[i] < ids[j] })
		compositeOK := false
		if len(ids) >= int(sc.T) {
			ss := make([]bls.Sign, 0)
			is := make([]bls.ID, 0)
			for _, id := range ids[:sc.T] {
				ss = append(ss, g.sigs[id])
				is = append(is, *util.BLSID(id))
			}
			var rec bls.Sign
			msg := append([]byte{}, g.root[:]...) // cgo: do not hand over memory that sits next to Go pointers
			compositeOK = rec.Recover(ss, is) == nil && rec.VerifyByte(&cpk, msg)
		}
		log.Emit(Ev{"ev": "DutyTotal", "duty": name, "partials": len(ids), "composite_valid": compositeOK})
	}
}

// thresholdEvent checks that ALL t-subsets of the partial signatures recover a signature valid under the composite key and that no
// (t-1)-subset does, and emits the Threshold event.
func thresholdEvent(log *Log, parts []uint64, sigs map[uint64]bls.Sign, composite string, t int, root [32]byte) {
	var cpk bls.PublicKey
	cb, _ := hex.DecodeString(composite)
	if cpk.Deserialize(cb) != nil {
		log.Emit(Ev{"ev": "Threshold", "t_ok": false, "tm1_fail": false, "note": "composite key does not parse"})
		return
	}
	check := func(k int) (allValid, noneValid bool, n int) {
		allValid, noneValid = true, true
		for _, sub := range combos(parts, k) {
			ss := make([]bls.Sign, 0, k)
			is := make([]bls.ID, 0, k)
			missing := false
			for _, id := range sub {
				s, ok := sigs[id]
				if !ok {
					missing = true
					break
				}
				ss = append(ss, s)
				is = append(is, *util.BLSID(id))
			}
			n++
			var rec bls.Sign
			valid := !missing && rec.Recover(ss, is) == nil && rec.VerifyByte(&cpk, root[:])
			if valid {
				noneValid = false
			} else {
				allValid = false
			}
		}
		return
	}
	tAll, _, nt := check(t)
	tm1None := true
	ntm1 := 0
	if t-1 >= 1 {
		_, tm1None, ntm1 = check(t - 1)
	}
	log.Emit(Ev{"ev": "Threshold", "t_ok": tAll, "tm1_fail": tm1None, "subsets_t": nt, "subsets_tm1": ntm1})
}

// storm: for sc.StormMs milliseconds genuine peers run small generations' worth of messages (prepare, contribute, abort) against the
// first instance while callers that are NOT peers send every kind of message at the same time - new names, and the names the peers
// are using right now.  Every non-peer call is logged (ConcCall); for peers only the share-ownership of contribution replies is.
func (c *Cluster) storm(ctx context.Context, sc *DkgScenario, log *Log) {
	in := c.Inst[c.Order[0]]
	workers := sc.StormWorkers
	if workers == 0 {
		workers = 4
	}
	peersOf := []uint64{}
	for _, id := range c.Order[1:] {
		peersOf = append(peersOf, id)
	}
	parts := make([]*pb.Endpoint, len(c.Order))
	for j, id := range c.Order {
		parts[j] = &pb.Endpoint{Id: id, Name: peerName(id), Port: uint32(10000 + id%50000)}
	}
	var mu sync.Mutex
	active := []string{}
	note := func(name string, add bool) {
		mu.Lock()
		defer mu.Unlock()
		if add {
			active = append(active, name)
			if len(active) > 32 {
				active = active[len(active)-32:]
			}
		}
	}
	pick := func(i int) string {
		mu.Lock()
		defer mu.Unlock()
		if len(active) == 0 {
			return "DW/none"
		}
		return active[len(active)-1-i%min(len(active), 4)]
	}
	contribution := func(t int, forID uint64) (bls.SecretKey, [][]byte, []bls.PublicKey) {
		sks := make([]bls.SecretKey, t)
		vv := make([][]byte, t)
		pks := make([]bls.PublicKey, t)
		for k := range sks {
			sks[k].SetByCSPRNG()
			pks[k] = *sks[k].GetPublicKey()
			vv[k] = pks[k].Serialize()
		}
		var share bls.SecretKey
		_ = share.Set(sks, util.BLSID(forID))
		return share, vv, pks
	}
	wctx, stop := context.WithTimeout(ctx, time.Duration(sc.StormMs)*time.Millisecond)
	defer stop()
	var wg sync.WaitGroup
	var peerCalls, peerOK, intruderCalls int64
	guard := func() {
		if r := recover(); r != nil {
			mu.Lock()
			in.Crashed = fmt.Sprint(r)
			mu.Unlock()
			stop()
		}
	}
	for w := 0; w < workers; w++ {
		// a genuine peer
		wg.Add(1)
		go func(w int) {
			defer wg.Done()
			defer guard()
			pid := peersOf[w%len(peersOf)]
			cctx := callerCtx(ctx, peerName(pid))
			for i := 0; wctx.Err() == nil; i++ {
				name := fmt.Sprintf("DW/storm%d_%d", w, i)
				_, err := in.RecvH.Prepare(cctx, &pb.PrepareRequest{Account: name, Passphrase: []byte("pass"), Threshold: 2, Participants: parts})
				atomic.AddInt64(&peerCalls, 1)
				if err != nil {
					continue
				}
				atomic.AddInt64(&peerOK, 1)
				note(name, true)
				share, vv, _ := contribution(2, in.ID)
				res, err := in.RecvH.Contribute(cctx, &pb.ContributeRequest{Account: name, Secret: share.Serialize(), VerificationVector: vv})
				atomic.AddInt64(&peerCalls, 1)
				if err == nil && res != nil && len(res.GetSecret()) > 0 {
					atomic.AddInt64(&peerOK, 1)
					// whose share does the reply carry?  it must verify for THIS caller's id against the replier's vector
					var rs bls.SecretKey
					rv := make([]bls.PublicKey, len(res.GetVerificationVector()))
					okv := rs.Deserialize(res.GetSecret()) == nil
					for k, b := range res.GetVerificationVector() {
						okv = okv && rv[k].Deserialize(b) == nil
					}
					others := []uint64{}
					if okv {
						for _, id := range c.Order {
							if id != pid && verifyShare(id, rs, rv) {
								others = append(others, id)
							}
						}
					}
					log.Emit(Ev{"ev": "ContribReply", "from": in.ID, "to": pid, "for_caller": okv && verifyShare(pid, rs, rv), "for_others": others, "concurrent": true})
				}
				_, _ = in.RecvH.Abort(cctx, &pb.AbortRequest{Account: name})
				atomic.AddInt64(&peerCalls, 1)
			}
		}(w)
		// a caller that is not a peer (a fully permitted ordinary client, an unknown name, no name at all); streams share names
		wg.Add(1)
		go func(w int) {
			defer wg.Done()
			defer guard()
			caller := []string{"c1", "c1", "nobody", ""}[w%4]
			cctx := callerCtx(ctx, caller)
			for i := 0; wctx.Err() == nil; i++ {
				msg := []string{"prepare", "contribute", "abort", "execute", "commit", "contribute", "abort"}[i%7]
				name := pick(i)
				if msg == "prepare" {
					name = fmt.Sprintf("DW/intruder%d_%d", w, i)
				}
				var err error
				gotShare := false
				switch msg {
				case "prepare":
					_, err = in.RecvH.Prepare(cctx, &pb.PrepareRequest{Account: name, Passphrase: []byte("pass"), Threshold: 2, Participants: parts})
				case "execute":
					_, err = in.RecvH.Execute(cctx, &pb.ExecuteRequest{Account: name})
				case "commit":
					_, err = in.RecvH.Commit(cctx, &pb.CommitRequest{Account: name, ConfirmationData: make([]byte, 32)})
				case "abort":
					_, err = in.RecvH.Abort(cctx, &pb.AbortRequest{Account: name})
				case "contribute":
					share, vv, _ := contribution(2, in.ID)
					var res *pb.ContributeResponse
					res, err = in.RecvH.Contribute(cctx, &pb.ContributeRequest{Account: name, Secret: share.Serialize(), VerificationVector: vv})
					gotShare = err == nil && res != nil && len(res.GetSecret()) > 0
				}
				// every call that was NOT refused is logged; of the refused ones (tens of thousands per second) every sixteenth
				atomic.AddInt64(&intruderCalls, 1)
				if err == nil || gotShare || i%16 == 0 {
					log.Emit(Ev{"ev": "ConcCall", "caller": caller, "msg": msg, "account": name, "result": errClass(err), "got_share": gotShare})
				}
			}
		}(w)
	}
	wg.Wait()
	// ---- rounds of SAME-NAME prepares: eight genuine peers' prepare messages for one fresh name, released at the same moment; a
	// generation is active from the first accepted one on, so exactly one may be accepted ("preparing again while one is active is
	// refused and leaves it intact"); then the name is aborted and the next round uses another
	if in.Crashed == "" {
		for round := 0; round < 25; round++ {
			name := fmt.Sprintf("DW/same%d", round)
			var accepted int64
			var rw sync.WaitGroup
			startCh := make(chan struct{})
			for w := 0; w < 8; w++ {
				rw.Add(1)
				go func(w int) {
					defer rw.Done()
					defer guard()
					cctx := callerCtx(ctx, peerName(peersOf[w%len(peersOf)]))
					<-startCh
					if _, err := in.RecvH.Prepare(cctx, &pb.PrepareRequest{Account: name, Passphrase: []byte("pass"), Threshold: 2, Participants: parts}); err == nil {
						atomic.AddInt64(&accepted, 1)
					}
				}(w)
			}
			close(startCh)
			rw.Wait()
			log.Emit(Ev{"ev": "ConcPrepare", "account": name, "accepted": atomic.LoadInt64(&accepted), "of": 8})
			_, _ = in.RecvH.Abort(callerCtx(ctx, peerName(peersOf[0])), &pb.AbortRequest{Account: name})
		}
	}
	log.Emit(Ev{"ev": "StormEnd", "peer_calls": atomic.LoadInt64(&peerCalls), "peer_ok": atomic.LoadInt64(&peerOK), "non_peer_calls": atomic.LoadInt64(&intruderCalls), "crashed": in.Crashed != ""})
}

// concGens asks for several generations at the same time and reports, per generation, what the client was told and what every
// instance holds under that name afterwards.
func (c *Cluster) concGens(ctx context.Context, sc *DkgScenario, client string, log *Log) {
	type outT struct {
		res  *pb.GenerateResponse
		err  error
		hung bool
	}
	outs := make([]outT, len(sc.ConcGens))
	var wg sync.WaitGroup
	start := make(chan struct{})
	for gi, g := range sc.ConcGens {
		in := c.Inst[g.Initiator]
		if in == nil {
			outs[gi].err = fmt.Errorf("unknown initiator %d", g.Initiator)
			continue
		}
		wg.Add(1)
		go func(gi int, g ConcGen, in *Instance) {
			defer wg.Done()
			<-start
			ch := make(chan outT, 1)
			go func() {
				var r0 *pb.GenerateResponse
				var e0 error
				_ = c.deliver(in, "Generate", func() error {
					r0, e0 = in.St.AcctH.Generate(credsCtx(ctx, client, ""), roundTrip(&pb.GenerateRequest{Account: g.Account, Passphrase: []byte("pass"),
						Participants: g.N, SigningThreshold: g.T}, &pb.GenerateRequest{}))
					return nil
				})
				ch <- outT{res: r0, err: e0}
			}()
			select {
			case o := <-ch:
				outs[gi] = o
			case <-time.After(40 * time.Second):
				outs[gi] = outT{err: fmt.Errorf("no answer after 40 s"), hung: true}
			}
		}(gi, g, in)
	}
	close(start)
	wg.Wait()
	for gi, g := range sc.ConcGens {
		o := outs[gi]
		ok := o.err == nil && o.res != nil && o.res.GetState() == pb.ResponseState_SUCCEEDED
		ev := Ev{"ev": "ConcOutcome", "g": gi, "account": g.Account, "initiator": g.Initiator, "ok": ok, "hung": o.hung, "n": g.N, "t": g.T}
		parts := []uint64{}
		if o.res != nil {
			ev["message"] = o.res.GetMessage()
			ev["pubkey"] = hex.EncodeToString(o.res.GetPublicKey())
			for _, p := range o.res.GetParticipants() {
				parts = append(parts, p.GetId())
			}
		}
		sort.Slice(parts, func(i, j int) bool { return parts[i] < parts[j] })
		ev["participants"] = parts
		log.Emit(ev)
		for _, id := range c.Order {
			info := c.Inspect(ctx, c.Inst[id], g.Account)
			log.Emit(Ev{"ev": "ConcHolds", "g": gi, "inst": id, "present": info.Present, "in_fetcher": info.InFetcher, "composite": info.Composite, "share": info.Share,
				"threshold": info.Threshold, "vvec": info.VVec, "nvvec": len(info.VVec), "participants": info.Participants, "share_ok": info.ShareOK,
				"crashed": c.Inst[id].Crashed != ""})
		}
	}
}

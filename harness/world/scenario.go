package world

import (
	e2wtypes "github.com/wealdtech/go-eth2-wallet-types/v2"
	"encoding/hex"
	"github.com/attestantio/dirk/services/checker"
	"crypto/sha256"
	badger "github.com/dgraph-io/badger/v2"
	"bytes"
	"context"
	"encoding/binary"
	"encoding/gob"
	"encoding/json"
	"fmt"
	"os"
	"runtime"
	"sort"
	"strconv"
	"strings"
	"sync"
	"time"

	standardrules "github.com/attestantio/dirk/rules/standard"
	"github.com/attestantio/dirk/util"
	"github.com/attestantio/dirk/util/verifhook"
	"github.com/rs/zerolog"
	"github.com/attestantio/dirk/services/api/grpc/interceptors"
	pb "github.com/wealdtech/eth2-signer-api/pb/v1"
	"google.golang.org/protobuf/proto"
)

// Ent is one entry of a signing request, in abstract terms.
type Ent struct {
	K    int    `json:"k"`              // key index (abstract name "k<K>")
	S    int    `json:"s,omitempty"`    // abstract source epoch
	T    int    `json:"t,omitempty"`    // abstract target epoch
	Slot int    `json:"slot,omitempty"` // abstract slot (proposals)
	Root string `json:"root,omitempty"` // "A", "B", ... (distinguishes different messages)
	TRoot string `json:"troot,omitempty"` // target root override (entries equal in everything but the target root)
	Dom  string `json:"dom,omitempty"`  // per-entry domain class (overrides Op.Dom)
	By   string `json:"by,omitempty"`   // per-entry addressing (overrides Op.By)
	NK   int    `json:"nk,omitempty"`   // with By=="both": key index used for the *name* (K is the public key sent)
	BothSet bool `json:"bothset,omitempty"`
}

// Op is one operation of a scenario.
type Op struct {
	ID     string  `json:"id"`
	Kind   string  `json:"kind"` // att, atts, prop, gen, multi | restart, export, close | par
	By     string  `json:"by,omitempty"`
	Ents   []Ent   `json:"ents,omitempty"`
	Dom    string  `json:"dom,omitempty"`
	Client string  `json:"client,omitempty"`
	IP     string  `json:"ip,omitempty"`
	Level  string  `json:"level,omitempty"` // "handler" (default) or "service"
	Ops    []Op    `json:"ops,omitempty"`   // for Kind "par"
	Sched  []Token `json:"sched,omitempty"` // for Kind "par": imposed schedule ("free" mode if Gate false)
	Gate   bool    `json:"gate,omitempty"`
	Lane   int     `json:"lane,omitempty"` // inside a free-running "par": ops with the same lane > 0 run one after the other in one goroutine (a sequential client)
	KillAfterUs int `json:"kill_after_us,omitempty"` // remote mode: SIGKILL the binary this many microseconds after the request was sent
	Arrivals bool  `json:"arrivals,omitempty"` // free-running "par": while the requests run, new accounts keep being created through the process service
	Alt    bool    `json:"alt,omitempty"` // remote mode: sent to the SECOND process (started by an "overlap" op on the same directories) if there is one
	Fork   int     `json:"fork,omitempty"` // which of several "forks" the request's domain belongs to (the bytes after the domain type)
	N      int     `json:"n,omitempty"` // for Kind "scatter": batch size
	P      int     `json:"p,omitempty"` // for Kind "scatter": GOMAXPROCS
}

// Prior is a record written directly to the slashing database before the scenario starts.
type Prior struct {
	K    int    `json:"k"`
	Kind string `json:"kind"` // "att" or "prop"
	S    int    `json:"s,omitempty"`
	T    int    `json:"t,omitempty"`
	Slot int    `json:"slot,omitempty"`
	Fmt  string `json:"fmt"` // "v1", "gob", "garbage"
	// Raw values (not abstract) if RawVals is set: S,T,Slot are taken literally (may be -1).
	RawVals bool `json:"raw,omitempty"`
	Fake    bool `json:"fake,omitempty"` // K numbers a synthetic key that is not an account of the world
	// Concrete int64 values as decimal strings; override S/T/Slot when non-empty.
	SV    string `json:"sv,omitempty"`
	TV    string `json:"tv,omitempty"`
	SlotV string `json:"slotv,omitempty"`
}

// Scenario is one run.
type Scenario struct {
	ID         string   `json:"id"`
	World      Spec     `json:"world"`
	Conc       []string `json:"conc"` // abstract epoch/slot -> decimal uint64
	Prior      []Prior  `json:"prior,omitempty"`
	Ops        []Op     `json:"ops"`
	Faults     []*Fault `json:"faults,omitempty"`
	KillAt     int      `json:"kill_at,omitempty"`
	Dir        string   `json:"dir,omitempty"` // slashing database directory (fresh temp dir if empty)
	KeepDir    bool     `json:"keep_dir,omitempty"`
	GoMaxProcs int      `json:"gomaxprocs,omitempty"`
	NoExport   bool     `json:"no_export,omitempty"`
	RawDump    bool     `json:"raw_dump,omitempty"` // read the database directly through badger before the stack opens it and after it is closed
}

// Runner executes scenarios.
type Runner struct {
	Log   *Log
	Ctl   *Control
	bases map[string]*Base
	conc  []uint64
	inv   map[uint64]int
}

// NewRunner creates a runner.
func NewRunner(log *Log) *Runner {
	return &Runner{Log: log, Ctl: NewControl(log), bases: map[string]*Base{}}
}

func (r *Runner) base(ctx context.Context, spec Spec) (*Base, error) {
	js, _ := json.Marshal(spec)
	if b, ok := r.bases[string(js)]; ok {
		return b, nil
	}
	b, err := NewBase(ctx, spec, r.Log, r.Ctl)
	if err != nil {
		return nil, err
	}
	r.bases[string(js)] = b
	return b, nil
}

func (r *Runner) setConc(c []string) error {
	r.conc = make([]uint64, len(c))
	r.inv = map[uint64]int{}
	for i, s := range c {
		v, err := strconv.ParseUint(s, 10, 64)
		if err != nil {
			return err
		}
		r.conc[i] = v
		r.inv[v] = i
	}
	return nil
}

func (r *Runner) cv(a int) uint64 {
	if a >= 0 && a < len(r.conc) {
		return r.conc[a]
	}
	return uint64(a)
}

// abs maps a stored int64 back to its abstract value (-1 stays -1, unknown values -> -99).
func (r *Runner) abs(v int64) int {
	if v == -1 {
		return -1
	}
	if a, ok := r.inv[uint64(v)]; ok {
		return a
	}
	return -99
}

func rootBytes(name string) []byte {
	b := make([]byte, 32)
	if name == "" {
		name = "A"
	}
	for i := range b {
		b[i] = name[i%len(name)]
	}
	return b
}

// DomainTypes are the 4-byte domain type prefixes by class name.
var DomainTypes = map[string][4]byte{
	"prop": {0, 0, 0, 0}, "att": {1, 0, 0, 0}, "randao": {2, 0, 0, 0}, "deposit": {3, 0, 0, 0},
	"exit": {4, 0, 0, 0}, "selection": {5, 0, 0, 0}, "aggregate": {6, 0, 0, 0}, "sync": {7, 0, 0, 0},
	"syncsel": {8, 0, 0, 0}, "contrib": {9, 0, 0, 0}, "appmask": {0, 0, 0, 1}, "other": {0xaa, 0xbb, 0xcc, 0xdd},
	"att2": {1, 0, 0, 1}, "prop2": {0, 1, 0, 0},
}

func domainBytes(class string, salt byte) []byte {
	if strings.HasPrefix(class, "len") { // malformed length, e.g. "len31", "len3", "len0"
		n, _ := strconv.Atoi(class[3:])
		return bytes.Repeat([]byte{1}, n)
	}
	if i := strings.Index(class, ":len"); i > 0 { // right type prefix, wrong length, e.g. "att:len31"
		n, _ := strconv.Atoi(class[i+4:])
		full := domainBytes(class[:i], salt)
		for len(full) < n {
			full = append(full, salt)
		}
		return full[:n]
	}
	d := make([]byte, 32)
	t, ok := DomainTypes[class]
	if !ok {
		t = DomainTypes["other"]
	}
	copy(d, t[:])
	for i := 4; i < 32; i++ {
		d[i] = salt
	}
	return d
}

func defaultDom(kind string) string {
	switch kind {
	case "att", "atts":
		return "att"
	case "prop":
		return "prop"
	}
	return "randao"
}

// decodeRec projects a stored record to trace fields.
func (r *Runner) decodeRec(key, val []byte) Ev {
	ev := Ev{}
	if len(key) != 49 {
		return ev
	}
	switch key[48] {
	case 2:
		ev["kind"] = "att"
		if val == nil {
			ev["fmt"] = "none"
			ev["s"], ev["t"] = -1, -1
			return ev
		}
		if len(val) == 17 && val[0] == 1 {
			ev["fmt"] = "v1"
			ev["s"] = r.abs(int64(binary.LittleEndian.Uint64(val[1:9])))
			ev["t"] = r.abs(int64(binary.LittleEndian.Uint64(val[9:17])))
			return ev
		}
		var st struct{ SourceEpoch, TargetEpoch int64 }
		if len(val) > 0 && val[0] != 1 && gob.NewDecoder(bytes.NewBuffer(val)).Decode(&st) == nil {
			ev["fmt"] = "gob"
			ev["s"], ev["t"] = r.abs(st.SourceEpoch), r.abs(st.TargetEpoch)
			return ev
		}
		ev["fmt"] = "garbage"
	case 3:
		ev["kind"] = "prop"
		if val == nil {
			ev["fmt"] = "none"
			ev["slot"] = -1
			return ev
		}
		if len(val) == 9 && val[0] == 1 {
			ev["fmt"] = "v1"
			ev["slot"] = r.abs(int64(binary.LittleEndian.Uint64(val[1:9])))
			return ev
		}
		var st struct{ Slot int64 }
		if len(val) > 0 && val[0] != 1 && gob.NewDecoder(bytes.NewBuffer(val)).Decode(&st) == nil {
			ev["fmt"] = "gob"
			ev["slot"] = r.abs(st.Slot)
			return ev
		}
		ev["fmt"] = "garbage"
	}
	return ev
}

func (r *Runner) writePriors(ctx context.Context, dir string, b *Base, priors []Prior) error {
	store, err := standardrules.NewStore(ctx, dir, false, zerolog.Nop())
	if err != nil {
		return err
	}
	var raw [][2][]byte // records that the store's own API refuses to write (zero-length values): written through badger directly
	defer func() {
		store.Close(ctx)
		if len(raw) == 0 {
			return
		}
		db, err := badger.Open(badger.DefaultOptions(dir).WithLogger(nil))
		if err != nil {
			panic(fmt.Sprintf("raw prior write: %v", err))
		}
		for _, kv := range raw {
			kv := kv
			if err := db.Update(func(txn *badger.Txn) error { return txn.Set(kv[0], kv[1]) }); err != nil {
				panic(fmt.Sprintf("raw prior write: %v", err))
			}
		}
		_ = db.Close()
	}()
	for _, p := range priors {
		pk := b.PubKeys[fmt.Sprintf("k%d", p.K)]
		if p.Fake {
			// a record of a validator key that is no account of this instance (a well-filled database): 48 deterministic bytes
			h := sha256.Sum256([]byte(fmt.Sprintf("verif-fake-key-%d", p.K)))
			pk = append(append([]byte{0xa0}, h[:]...), h[:15]...)
		}
		if pk == nil {
			return fmt.Errorf("prior: unknown key %d", p.K)
		}
		val0 := func(a int) int64 {
			if p.RawVals {
				return int64(a)
			}
			return int64(r.cv(a))
		}
		lit := func(sv string, a int) int64 {
			if sv != "" {
				v, err := strconv.ParseInt(sv, 10, 64)
				if err == nil {
					return v
				}
			}
			return val0(a)
		}
		val := func(a int) int64 {
			switch a {
			case p.S:
				return lit(p.SV, a)
			}
			return val0(a)
		}
		_ = val
		sVal, tVal, slotVal := lit(p.SV, p.S), lit(p.TV, p.T), lit(p.SlotV, p.Slot)
		var rec []byte
		key := make([]byte, 49)
		copy(key, pk)
		switch {
		case p.Kind == "att":
			key[48] = 2
		default:
			key[48] = 3
		}
		switch {
		case p.Fmt == "garbage":
			rec = []byte{0x01, 0x02, 0x03}
		case p.Fmt == "empty":
			raw = append(raw, [2][]byte{key, {}})
			continue
		case p.Fmt == "versiononly":
			rec = []byte{0x01}
		case p.Fmt == "short":
			rec = []byte{0x01, 9, 0, 0, 0, 0, 0, 0}
		case p.Fmt == "long":
			rec = append([]byte{0x01}, make([]byte, 24)...)
		case p.Fmt == "otherversion":
			rec = []byte{0xff, 0xff, 0xff, 0xff, 0xff, 0xff, 0xff, 0xff, 0xff}
		case p.Kind == "att" && p.Fmt == "gob":
			var buf bytes.Buffer
			_ = gob.NewEncoder(&buf).Encode(struct{ SourceEpoch, TargetEpoch int64 }{sVal, tVal})
			rec = buf.Bytes()
		case p.Kind == "prop" && p.Fmt == "gob":
			var buf bytes.Buffer
			_ = gob.NewEncoder(&buf).Encode(struct{ Slot int64 }{slotVal})
			rec = buf.Bytes()
		case p.Kind == "att":
			rec = make([]byte, 17)
			rec[0] = 1
			binary.LittleEndian.PutUint64(rec[1:9], uint64(sVal))
			binary.LittleEndian.PutUint64(rec[9:17], uint64(tVal))
		default:
			rec = make([]byte, 9)
			rec[0] = 1
			binary.LittleEndian.PutUint64(rec[1:9], uint64(slotVal))
		}
		if err := store.Store(ctx, key, rec); err != nil {
			return err
		}
	}
	return nil
}

// RawDump reads the slashing-protection database through badger directly (the store must not be open): an observation
// of the stored records that does not go through any of the repository's own code.
func (r *Runner) RawDump(dir string, b *Base, label string) {
	db, err := badger.Open(badger.DefaultOptions(dir).WithLogger(nil))
	if err != nil {
		r.Log.Emit(Ev{"ev": "RawDumpFail", "r": label, "err": err.Error()})
		return
	}
	defer db.Close()
	out := map[string]map[string]int{}
	get := func(k string) map[string]int {
		if out[k] == nil {
			out[k] = map[string]int{"as": -1, "at": -1, "ps": -1}
		}
		return out[k]
	}
	undecodable := 0
	_ = db.View(func(txn *badger.Txn) error {
		it := txn.NewIterator(badger.DefaultIteratorOptions)
		defer it.Close()
		for it.Rewind(); it.Valid(); it.Next() {
			key := it.Item().KeyCopy(nil)
			val, err := it.Item().ValueCopy(nil)
			if err != nil || len(key) != 49 {
				continue
			}
			rec := r.decodeRec(key, val)
			k := b.Names.key(key[:48])
			switch {
			case rec["fmt"] == "garbage" || rec["fmt"] == "none":
				undecodable++
			case rec["kind"] == "att":
				get(k)["as"], get(k)["at"] = rec["s"].(int), rec["t"].(int)
			case rec["kind"] == "prop":
				get(k)["ps"] = rec["slot"].(int)
			}
		}
		return nil
	})
	dbv := map[string]any{}
	for k, v := range out {
		dbv[k] = v
	}
	r.Log.Emit(Ev{"ev": "RawDump", "r": label, "db": dbv, "undecodable": undecodable})
}

// Export projects the slashing database to abstract values.
func (r *Runner) Export(ctx context.Context, st *Stack, b *Base) (Ev, error) {
	m, err := st.Rules.ExportSlashingProtection(ctx)
	if err != nil {
		return nil, err
	}
	db := map[string]any{}
	for k, v := range m {
		db[b.Names.key(k[:])] = map[string]int{"as": r.abs(v.HighestAttestedSourceEpoch), "at": r.abs(v.HighestAttestedTargetEpoch), "ps": r.abs(v.HighestProposedSlot)}
	}
	return Ev{"ev": "Export", "db": db}, nil
}

func credsCtx(ctx context.Context, client, ip string) context.Context {
	if client != "" {
		ctx = context.WithValue(ctx, &interceptors.ClientName{}, client)
	}
	if ip != "" {
		ctx = context.WithValue(ctx, &interceptors.ExternalIP{}, ip)
	}
	return ctx
}

func roundTrip[T proto.Message](m T, fresh T) T {
	b, err := proto.Marshal(m)
	if err != nil {
		panic(err)
	}
	if err := proto.Unmarshal(b, fresh); err != nil {
		panic(err)
	}
	return fresh
}

type entReq struct {
	name   string
	pub    []byte
	domain []byte
	ent    Ent
	dom    string
	data   []byte // generic requests: the data field actually sent when it is not the 32-byte root (shifted boundary)
	effDom string // class of the domain that a signature over (data||domain)[0..31], (data||domain)[32..63] would be made under
	effD   []byte
}

func (r *Runner) entReqs(b *Base, op Op) []entReq {
	out := make([]entReq, len(op.Ents))
	for i, e := range op.Ents {
		by := op.By
		if e.By != "" {
			by = e.By
		}
		kn := fmt.Sprintf("k%d", e.K)
		er := entReq{ent: e}
		switch by {
		case "key":
			er.pub = b.PubKeys[kn]
		case "keypad":
			// the account's public key followed by extra bytes: the fetcher resolves accounts on the first 48 bytes
			er.pub = append(append([]byte{}, b.PubKeys[kn]...), 0x00, byte(i))
		case "both":
			er.pub = b.PubKeys[kn]
			nk := e.K
			if e.BothSet {
				nk = e.NK
			}
			er.name = b.Paths[fmt.Sprintf("k%d", nk)]
		default:
			er.name = b.Paths[kn]
		}
		er.dom = op.Dom
		if e.Dom != "" {
			er.dom = e.Dom
		}
		if er.dom == "" {
			er.dom = defaultDom(op.Kind)
		}
		// the 28 bytes after the domain type (fork version / genesis root part) differ between the entries of a batch - as in a batch that
		// spans a fork boundary - except that every third entry shares them with entry 0; the rules look at the type only, the
		// signature of entry i must be over ITS domain
		salt := byte(0x5a) + byte(op.Fork)*0x10
		if len(op.Ents) > 1 && i%3 != 0 {
			salt += byte(i % 3)
		}
		er.domain = domainBytes(er.dom, salt)
		if strings.HasPrefix(er.dom, "shift") {
			// "shiftK:cls": the data field is K bytes short, the domain field K bytes long; together they are the 32-byte root
			// followed by a 32-byte domain of class cls
			k, cls := 4, "att"
			if j := strings.Index(er.dom, ":"); j > 5 {
				k, _ = strconv.Atoi(er.dom[5:j])
				cls = er.dom[j+1:]
			}
			root := rootBytes(e.Root)
			d := domainBytes(cls, 0x5a)
			if k >= 0 {
				er.data = append([]byte{}, root[:32-k]...)
				er.domain = append(append([]byte{}, root[32-k:]...), d...)
			} else {
				// K negative: the data field is -K bytes LONG (the root followed by the first bytes of the domain), the domain -K short
				er.data = append(append([]byte{}, root...), d[:-k]...)
				er.domain = append([]byte{}, d[-k:]...)
			}
			er.effDom, er.effD = cls, d
		}
		out[i] = er
	}
	return out
}

func stateName(s pb.ResponseState) string { return s.String() }

// relDom is the class of the domain a released signature was really made under.
func relDom(er entReq) string {
	if er.effDom != "" {
		return er.effDom
	}
	return er.dom
}

// runSign executes one signing operation at handler level and emits Invoke/Respond/Release events.
func (r *Runner) runSign(ctx context.Context, st *Stack, b *Base, op Op) {
	client := op.Client
	if client == "" {
		client = "c1"
	}
	if client == "-" {
		client = ""
	}
	ctx = credsCtx(WithRid(ctx, op.ID), client, op.IP)
	ers := r.entReqs(b, op)
	ients := make([]Ev, len(ers))
	for i, er := range ers {
		ients[i] = Ev{"k": fmt.Sprintf("k%d", er.ent.K), "s": er.ent.S, "t": er.ent.T, "slot": er.ent.Slot, "root": er.ent.Root, "dom": er.dom}
	}
	r.Log.Emit(Ev{"ev": "Invoke", "r": op.ID, "kind": op.Kind, "ents": ients, "client": client, "ip": op.IP})
	defer func() {
		// A panic on the request goroutine (gRPC would turn it into a process crash) is recorded and the
		// driver goes on, so that the remaining scenarios are still examined.
		if p := recover(); p != nil {
			r.Log.Emit(Ev{"ev": "Panic", "r": op.ID, "what": fmt.Sprint(p)})
			n := len(op.Ents)
			res := make([]string, n)
			for i := range res {
				res[i] = "PANIC"
			}
			r.Log.Emit(Ev{"ev": "Respond", "r": op.ID, "kind": op.Kind, "n": n, "res": res, "sig": make([]bool, n), "sigok": make([]bool, n)})
		}
	}()

	states := make([]string, 0, len(ers))
	sigs := make([][]byte, 0, len(ers))
	// signing roots per entry according to the independent oracle
	roots := make([][32]byte, len(ers))
	for i, er := range ers {
		e := er.ent
		switch op.Kind {
		case "att", "atts":
			roots[i] = SigningRoot(AttRoot(uint64(100+e.T), uint64(7), rootBytes(e.Root), r.cv(e.S), rootBytes("s"+e.Root), r.cv(e.T), rootBytes(tRootName(e))), er.domain)
		case "prop":
			roots[i] = SigningRoot(HeaderRoot(r.cv(e.Slot), 11, rootBytes("p"+e.Root), rootBytes("q"+e.Root), rootBytes(e.Root)), er.domain)
		default:
			if er.effD != nil {
				roots[i] = SigningRoot([32]byte(rootBytes(e.Root)), er.effD)
			} else {
				roots[i] = SigningRoot([32]byte(rootBytes(e.Root)), er.domain)
			}
		}
	}
	attData := func(er entReq) *pb.AttestationData {
		e := er.ent
		return &pb.AttestationData{Slot: uint64(100 + e.T), CommitteeIndex: 7, BeaconBlockRoot: rootBytes(e.Root),
			Source: &pb.Checkpoint{Epoch: r.cv(e.S), Root: rootBytes("s" + e.Root)},
			Target: &pb.Checkpoint{Epoch: r.cv(e.T), Root: rootBytes(tRootName(e))}}
	}
	switch op.Kind {
	case "att":
		er := ers[0]
		req := &pb.SignBeaconAttestationRequest{Domain: er.domain, Data: attData(er)}
		if er.pub != nil {
			req.Id = &pb.SignBeaconAttestationRequest_PublicKey{PublicKey: er.pub}
		}
		if er.name != "" {
			req.Id = &pb.SignBeaconAttestationRequest_Account{Account: er.name}
		}
		req = roundTrip(req, &pb.SignBeaconAttestationRequest{})
		res, err := st.Sig.SignBeaconAttestation(ctx, req)
		if err != nil {
			states = append(states, "ERROR")
			sigs = append(sigs, nil)
		} else {
			states = append(states, stateName(res.GetState()))
			sigs = append(sigs, res.GetSignature())
		}
	case "atts":
		req := &pb.SignBeaconAttestationsRequest{}
		for _, er := range ers {
			req.Requests = append(req.Requests, &pb.SignBeaconAttestationRequest{Domain: er.domain, Data: attData(er)})
			q := req.Requests[len(req.Requests)-1]
			if er.pub != nil {
				q.Id = &pb.SignBeaconAttestationRequest_PublicKey{PublicKey: er.pub}
			}
			if er.name != "" {
				q.Id = &pb.SignBeaconAttestationRequest_Account{Account: er.name}
			}
		}
		req = roundTrip(req, &pb.SignBeaconAttestationsRequest{})
		res, err := st.Sig.SignBeaconAttestations(ctx, req)
		if err != nil {
			states = append(states, "ERROR")
			sigs = append(sigs, nil)
		} else {
			for _, rr := range res.GetResponses() {
				states = append(states, stateName(rr.GetState()))
				sigs = append(sigs, rr.GetSignature())
			}
		}
	case "prop":
		er := ers[0]
		e := er.ent
		req := &pb.SignBeaconProposalRequest{Domain: er.domain, Data: &pb.BeaconBlockHeader{Slot: r.cv(e.Slot), ProposerIndex: 11,
			ParentRoot: rootBytes("p" + e.Root), StateRoot: rootBytes("q" + e.Root), BodyRoot: rootBytes(e.Root)}}
		if er.pub != nil {
			req.Id = &pb.SignBeaconProposalRequest_PublicKey{PublicKey: er.pub}
		}
		if er.name != "" {
			req.Id = &pb.SignBeaconProposalRequest_Account{Account: er.name}
		}
		req = roundTrip(req, &pb.SignBeaconProposalRequest{})
		res, err := st.Sig.SignBeaconProposal(ctx, req)
		if err != nil {
			states = append(states, "ERROR")
			sigs = append(sigs, nil)
		} else {
			states = append(states, stateName(res.GetState()))
			sigs = append(sigs, res.GetSignature())
		}
	case "gen":
		er := ers[0]
		req := &pb.SignRequest{Domain: er.domain, Data: rootBytes(er.ent.Root)}
		if er.data != nil {
			req.Data = er.data
		}
		if er.pub != nil {
			req.Id = &pb.SignRequest_PublicKey{PublicKey: er.pub}
		}
		if er.name != "" {
			req.Id = &pb.SignRequest_Account{Account: er.name}
		}
		req = roundTrip(req, &pb.SignRequest{})
		res, err := st.Sig.Sign(ctx, req)
		if err != nil {
			states = append(states, "ERROR")
			sigs = append(sigs, nil)
		} else {
			states = append(states, stateName(res.GetState()))
			sigs = append(sigs, res.GetSignature())
		}
	case "multi":
		req := &pb.MultisignRequest{}
		for _, er := range ers {
			q := &pb.SignRequest{Domain: er.domain, Data: rootBytes(er.ent.Root)}
			if er.data != nil {
				q.Data = er.data
			}
			if er.pub != nil {
				q.Id = &pb.SignRequest_PublicKey{PublicKey: er.pub}
			}
			if er.name != "" {
				q.Id = &pb.SignRequest_Account{Account: er.name}
			}
			req.Requests = append(req.Requests, q)
		}
		req = roundTrip(req, &pb.MultisignRequest{})
		res, err := st.Sig.Multisign(ctx, req)
		if err != nil {
			states = append(states, "ERROR")
			sigs = append(sigs, nil)
		} else {
			for _, rr := range res.GetResponses() {
				states = append(states, stateName(rr.GetState()))
				sigs = append(sigs, rr.GetSignature())
			}
		}
	}
	// Project the response: which duties did signatures leave the process for?
	hasSig := make([]bool, len(sigs))
	sigOK := make([]bool, len(sigs))
	var rel []Ev
	for j, sg := range sigs {
		if len(sg) == 0 {
			continue
		}
		hasSig[j] = true
		match := -1
		if j < len(ers) && VerifySig(b.PubKeys[fmt.Sprintf("k%d", ers[j].ent.K)], roots[j], sg) {
			match = j
			sigOK[j] = true
		} else {
			for i := range ers {
				if VerifySig(b.PubKeys[fmt.Sprintf("k%d", ers[i].ent.K)], roots[i], sg) {
					match = i
					break
				}
			}
		}
		if match >= 0 {
			e := ers[match].ent
			rel = append(rel, Ev{"ev": "Release", "r": op.ID, "i": match, "pos": j, "k": fmt.Sprintf("k%d", e.K), "kind": relKind(op.Kind),
				"s": e.S, "t": e.T, "slot": e.Slot, "root": e.Root, "dom": relDom(ers[match])})
		} else {
			rel = append(rel, Ev{"ev": "BadSig", "r": op.ID, "pos": j})
		}
	}
	for _, e := range rel {
		r.Log.Emit(e)
	}
	r.Log.Emit(Ev{"ev": "Respond", "r": op.ID, "kind": op.Kind, "n": len(ers), "res": states, "sig": hasSig, "sigok": sigOK})
}

func tRootName(e Ent) string {
	if e.TRoot != "" {
		return e.TRoot
	}
	return "t" + e.Root
}

func relKind(k string) string {
	switch k {
	case "att", "atts":
		return "att"
	case "prop":
		return "prop"
	}
	return "gen"
}

// Run executes one scenario.
func (r *Runner) Run(ctx context.Context, sc *Scenario) error {
	if sc.GoMaxProcs > 0 {
		old := runtime.GOMAXPROCS(sc.GoMaxProcs)
		defer runtime.GOMAXPROCS(old)
	}
	if err := r.setConc(sc.Conc); err != nil {
		return err
	}
	b, err := r.base(ctx, sc.World)
	if err != nil {
		return err
	}
	InstallHook(b, r.decodeRec)
	dir := sc.Dir
	if dir == "" {
		if dir, err = os.MkdirTemp("", "verifdb"); err != nil {
			return err
		}
		if !sc.KeepDir {
			defer os.RemoveAll(dir)
		}
	}
	r.Ctl.SetFaults(nil)
	r.Ctl.SetKill(0)
	if len(sc.Prior) > 0 {
		verifhook.Hook = nil
		if err := r.writePriors(ctx, dir, b, sc.Prior); err != nil {
			return err
		}
		InstallHook(b, r.decodeRec)
	}
	if sc.RawDump {
		r.RawDump(dir, b, "raw-before")
	}
	st, err := NewStack(ctx, b, dir, nil)
	if err != nil {
		return err
	}
	r.Log.Emit(Ev{"ev": "Begin", "sc": sc.ID, "nkeys": len(b.PubKeys), "nconc": len(sc.Conc)})
	if len(sc.Prior) > 0 && !sc.NoExport {
		if ev, err := r.Export(ctx, st, b); err == nil {
			ev["r"] = "prior"
			r.Log.Emit(ev)
		} else {
			r.Log.Emit(Ev{"ev": "ExportFail", "r": "prior", "err": err.Error()})
		}
	}
	r.Ctl.SetFaults(sc.Faults)
	r.Ctl.SetKill(sc.KillAt)
	for _, op := range sc.Ops {
		switch op.Kind {
		case "restart":
			_ = st.Close(ctx)
			st.cancel()
			if st, err = NewStack(ctx, b, dir, nil); err != nil {
				return fmt.Errorf("restart: %w", err)
			}
			r.Log.Emit(Ev{"ev": "Restart"})
		case "create":
			// op.N accounts created at RUN TIME through the process service (they live in the fetcher's run-time tables, not in the
			// tables filled at start-up); registered as keys k<n>, k<n+1>, ... after the world's own
			if err := r.createAccounts(ctx, b, op.N, sc.ID+"-"+op.ID); err != nil {
				return fmt.Errorf("create: %w", err)
			}
		case "sleep":
			time.Sleep(time.Duration(op.N) * time.Millisecond)
		case "close":
			_ = st.Close(ctx)
			r.Log.Emit(Ev{"ev": "CloseStore"})
		case "export":
			if ev, err := r.Export(ctx, st, b); err == nil {
				ev["r"] = op.ID
				r.Log.Emit(ev)
			} else {
				r.Log.Emit(Ev{"ev": "ExportFail", "r": op.ID, "err": err.Error()})
			}
		case "scatter":
			r.runScatter(op)
		case "par":
			r.runPar(ctx, st, b, op)
		default:
			r.runSign(ctx, st, b, op)
		}
	}
	passages := r.Ctl.Passages()
	hits := append([]string{}, r.Ctl.FaultsHit...)
	r.Ctl.SetFaults(nil)
	r.Ctl.SetKill(0)
	if !sc.NoExport {
		if ev, err := r.Export(ctx, st, b); err == nil {
			ev["r"] = "final"
			r.Log.Emit(ev)
		} else {
			r.Log.Emit(Ev{"ev": "ExportFail", "r": "final", "err": err.Error()})
		}
	}
	sort.Strings(hits)
	r.Log.Emit(Ev{"ev": "End", "sc": sc.ID, "faults_hit": hits, "passages": passages})
	_ = st.Close(ctx)
	st.cancel()
	if sc.RawDump {
		r.RawDump(dir, b, "raw-after")
	}
	return nil
}

func (r *Runner) runPar(ctx context.Context, st *Stack, b *Base, op Op) {
	ids := make([]string, len(op.Ops))
	byID := map[string]Op{}
	lazy := map[string]bool{}
	for i, o := range op.Ops {
		ids[i] = o.ID
		byID[o.ID] = o
	}
	for _, t := range op.Sched {
		if t.Site == "start" {
			lazy[t.Rid] = true
		}
	}
	var wg sync.WaitGroup
	// every request has a caller of its own, who may go away (schedule token "cancel": the request's context is cancelled)
	cancels := map[string]context.CancelFunc{}
	ctxs := map[string]context.Context{}
	for _, o := range op.Ops {
		ctxs[o.ID], cancels[o.ID] = context.WithCancel(ctx)
	}
	defer func() {
		for _, c := range cancels {
			c()
		}
	}()
	r.Ctl.CancelFn = func(rid string) {
		if c := cancels[rid]; c != nil {
			r.Log.Emit(Ev{"ev": "CallerGone", "r": rid})
			c()
		}
	}
	run := func(o Op) {
		defer wg.Done()
		r.runSign(ctxs[o.ID], st, b, o)
		r.Ctl.Done(o.ID)
	}
	if op.Gate {
		r.Ctl.OnDoneWhileParked = func(rid, site string) {
			r.Log.Emit(Ev{"ev": "AnsweredWhileParked", "r": rid, "site": site})
			if ev, err := r.Export(ctx, st, b); err == nil {
				ev["r"] = "while-parked:" + rid
				r.Log.Emit(ev)
			}
		}
		r.Ctl.CloseFn = func() {
			_ = st.Close(ctx)
			r.Log.Emit(Ev{"ev": "CloseStore"})
		}
		r.Ctl.StartFn = func(rid string) { run(byID[rid]) }
		r.Ctl.StartGating(ids, lazy)
	}
	lanes := map[int][]Op{}
	for _, o := range op.Ops {
		if !op.Gate && o.Lane > 0 {
			lanes[o.Lane] = append(lanes[o.Lane], o)
			continue
		}
		wg.Add(1)
		if op.Gate && lazy[o.ID] {
			continue
		}
		go run(o)
	}
	stopArrivals := make(chan struct{})
	arrivalsDone := make(chan struct{})
	if op.Arrivals && !op.Gate {
		go func() {
			defer close(arrivalsDone)
			n := 0
			var lastW e2wtypes.Wallet
			var lastA e2wtypes.Account
			for {
				select {
				case <-stopArrivals:
					r.Log.Emit(Ev{"ev": "Arrivals", "n": n})
					return
				default:
				}
				// every 400th arrival is a new account created through the process service (key generation, keystore encryption,
				// store, fetcher registration: some 50 ms); in between the account that has just been created is registered with
				// the fetcher again and again, exactly as the process service registers it - the registration is what the requests
				// running beside it meet, and key generation alone offers it twenty times a second
				if n%400 == 0 {
					tag := fmt.Sprintf("arr-%s-%d-%d", op.ID, time.Now().UnixNano()%1000000, n)
					if err := r.createAccounts(ctx, b, 1, tag, false); err != nil {
						r.Log.Emit(Ev{"ev": "Arrivals", "n": n, "err": err.Error()})
						return
					}
					lastW, lastA, _ = b.RawFetch.FetchAccount(ctx, fmt.Sprintf("W1/rt-%s-0", tag))
				} else if lastW != nil && lastA != nil {
					_ = b.Fetcher.AddAccount(ctx, lastW, lastA)
					if n%64 == 0 {
						runtime.Gosched()
					}
				}
				n++
			}
		}()
	} else {
		close(arrivalsDone)
	}
	defer func() {
		close(stopArrivals)
		select {
		case <-arrivalsDone:
		case <-time.After(30 * time.Second):
		}
	}()
	for _, seq := range lanes {
		wg.Add(1)
		go func(seq []Op) {
			defer wg.Done()
			for _, o := range seq {
				r.runSign(ctx, st, b, o)
			}
		}(seq)
	}
	if op.Gate {
		res := r.Ctl.RunSchedule(op.Sched)
		r.Log.Emit(Ev{"ev": "Sched", "r": op.ID, "deadlock": res.Deadlock, "stuck": res.Stuck, "deviations": res.Deviations, "blocked": res.Blocked})
		if res.Deadlock || res.Stuck {
			if res.Stuck {
				// no deadlock could be established from logged lock ownership (the requests wait for something the wrappers do not see):
				// give the requests ten more seconds, then look at what their goroutines are doing, as for free-running groups
				done := make(chan struct{})
				go func() { wg.Wait(); close(done) }()
				select {
				case <-done:
					r.Log.Emit(Ev{"ev": "Sched", "r": op.ID, "deadlock": false, "stuck": false, "deviations": append(res.Deviations, "all requests finished after the watchdog period"), "blocked": res.Blocked})
					r.Ctl.StopGating()
					return
				case <-time.After(10 * time.Second):
				}
				inLock, waiting := stuckEvidence()
				r.Log.Emit(Ev{"ev": "Watchdog", "r": op.ID, "goroutines_in_mutex_lock": inLock, "waiting_in_dirk": waiting})
			}
			// The parked goroutines can never finish; report and abandon the process.
			r.Log.Emit(Ev{"ev": "Abandon", "r": op.ID, "deadlock": res.Deadlock})
			os.Exit(3)
		}
		r.Ctl.StopGating()
		wg.Wait()
		return
	}
	// Free-running: watchdog for deadlock evidence.
	done := make(chan struct{})
	go func() { wg.Wait(); close(done) }()
	select {
	case <-done:
	case <-time.After(30 * time.Second):
		inLock, waiting := stuckEvidence()
		r.Log.Emit(Ev{"ev": "Watchdog", "r": op.ID, "goroutines_in_mutex_lock": inLock, "waiting_in_dirk": waiting})
		os.Exit(3)
	}
}

// stuckEvidence looks at what the goroutines of the process are doing once a group of requests has not finished within the watchdog
// period.  inLock counts goroutines inside a mutex acquisition.  waiting lists the goroutines that are BLOCKED (channel operation,
// select, semaphore, mutex, condition, wait group) at a wait issued by the repository's own code - the innermost frame that is not the
// Go runtime or package sync belongs to github.com/attestantio/dirk - on behalf of a request, and that are in exactly the same place
// 2.5 and 5 seconds later while no request of the process gets an answer: requests that wait for something nobody is going to do.
func stuckEvidence() (int, []string) {
	snap := func() (int, map[string]string, bool) {
		buf := make([]byte, 1<<23)
		n := runtime.Stack(buf, true)
		txt := string(buf[:n])
		inLock := strings.Count(txt, "sync.(*Mutex).Lock") + strings.Count(txt, "sync.(*RWMutex).Lock") + strings.Count(txt, "sync.(*RWMutex).RLock")
		blocked := map[string]string{}
		active := false
		for _, g := range strings.Split(txt, "\n\n") {
			lines := strings.Split(strings.TrimSpace(g), "\n")
			if len(lines) < 2 || !strings.HasPrefix(lines[0], "goroutine ") {
				continue
			}
			hdr := lines[0]
			o, c := strings.Index(hdr, "["), strings.LastIndex(hdr, "]")
			if o < 0 || c < o {
				continue
			}
			state, _, _ := strings.Cut(hdr[o+1:c], ",")
			gid := strings.Fields(hdr)[1]
			first := ""
			hasDirk := false
			for i := 1; i < len(lines); i += 2 {
				fn := strings.TrimSpace(lines[i])
				if strings.HasPrefix(fn, "created by ") {
					break
				}
				if strings.Contains(fn, "github.com/attestantio/dirk/") {
					hasDirk = true
				}
				if first == "" && !strings.HasPrefix(fn, "runtime.") && !strings.HasPrefix(fn, "sync.") && !strings.HasPrefix(fn, "internal/") && !strings.HasPrefix(fn, "sync/") {
					first = fn
				}
			}
			// (a request's goroutine: called from the harness' runner, or a worker the repository's Scatter started for it; the
			// repository's background loops - storage garbage collection, expiry tickers - wait in its code for ever by design)
			isRequest := strings.Contains(g, "verifharness/world.") || strings.Contains(g, "created by github.com/attestantio/dirk/util.Scatter")
			switch state {
			case "chan receive", "chan send", "select", "semacquire", "sync.Mutex.Lock", "sync.RWMutex.RLock", "sync.RWMutex.Lock", "sync.Cond.Wait", "sync.WaitGroup.Wait", "chan receive (nil chan)", "select (no cases)":
				if isRequest && strings.HasPrefix(first, "github.com/attestantio/dirk/") && !strings.Contains(first, "/dirk/testing/") {
					if k := strings.LastIndex(first, "("); k > 0 {
						first = first[:k]
					}
					blocked[gid] = state + " in " + strings.TrimPrefix(first, "github.com/attestantio/dirk/")
				}
			case "running", "runnable", "syscall":
				if hasDirk && !strings.Contains(g, "world.stuckEvidence") {
					active = true
				}
			}
		}
		return inLock, blocked, active
	}
	// (three looks over five seconds, after the watchdog period; no request of the process was answered in between)
	r0 := responded.Load()
	inLock, b1, _ := snap()
	time.Sleep(2500 * time.Millisecond)
	_, b2, _ := snap()
	time.Sleep(2500 * time.Millisecond)
	_, b3, _ := snap()
	waiting := []string{}
	if responded.Load() == r0 {
		for gid, where := range b1 {
			if b2[gid] == where && b3[gid] == where {
				waiting = append(waiting, where)
			}
		}
	}
	sort.Strings(waiting)
	if len(waiting) > 12 {
		waiting = waiting[:12]
	}
	return inLock, waiting
}

// runScatter runs the real util.Scatter for a batch of op.N items under GOMAXPROCS op.P and logs the extents.
func (r *Runner) runScatter(op Op) {
	old := runtime.GOMAXPROCS(op.P)
	defer runtime.GOMAXPROCS(old)
	var mu sync.Mutex
	ext := [][2]int{}
	_, err := util.Scatter(op.N, func(offset int, entries int, _ *sync.RWMutex) (any, error) {
		mu.Lock()
		ext = append(ext, [2]int{offset, entries})
		mu.Unlock()
		return nil, nil
	})
	sort.Slice(ext, func(i, j int) bool { return ext[i][0] < ext[j][0] })
	ev := Ev{"ev": "Scatter", "n": op.N, "p": op.P, "extents": ext}
	if err != nil {
		ev["err"] = err.Error()
	}
	r.Log.Emit(ev)
}

// createAccounts creates n single-key accounts in wallet W1 through the real process service (which stores them and registers them
// with the fetcher, as a key generation does) and registers them as the next key names.
func (r *Runner) createAccounts(ctx context.Context, b *Base, n int, tag string, register ...bool) error {
	b.createMu.Lock()
	defer b.createMu.Unlock()
	if b.solo == nil {
		p, err := NewSoloProcess(ctx, b)
		if err != nil {
			return err
		}
		b.solo = p
	}
	for i := 0; i < n; i++ {
		name := fmt.Sprintf("W1/rt-%s-%d", tag, i)
		pub, _, err := b.solo.OnGenerate(ctx, &checker.Credentials{Client: "c1"}, name, []byte(b.Spec.Passphrase), 1, 1)
		if err != nil {
			return err
		}
		if len(register) > 0 && !register[0] {
			continue // (accounts that arrive while requests run are addressed by nobody: the maps are left alone, no lock needed)
		}
		kn := fmt.Sprintf("k%d", len(b.PubKeys))
		b.PubKeys[kn] = pub
		b.Paths[kn] = name
		b.Names.KeyName[hex.EncodeToString(pub)] = kn
	}
	return nil
}

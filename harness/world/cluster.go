package world

import (
	"context"
	"encoding/hex"
	"errors"
	"fmt"
	"math/rand"
	"os"
	"sort"
	"strings"
	"sync"
	"time"

	"github.com/attestantio/dirk/core"
	receiverhandler "github.com/attestantio/dirk/services/api/grpc/handlers/receiver"
	"github.com/attestantio/dirk/services/api/grpc/interceptors"
	staticpeers "github.com/attestantio/dirk/services/peers/static"
	standardprocess "github.com/attestantio/dirk/services/process/standard"
	"github.com/attestantio/dirk/util"
	"github.com/herumi/bls-eth-go-binary/bls"
	pb "github.com/wealdtech/eth2-signer-api/pb/v1"
	e2types "github.com/wealdtech/go-eth2-types/v2"
	distributed "github.com/wealdtech/go-eth2-wallet-distributed"
	e2wtypes "github.com/wealdtech/go-eth2-wallet-types/v2"
)

// Instance is one Dirk of a cluster.
type Instance struct {
	ID      uint64
	Name    string
	B       *Base
	Proc    *standardprocess.Service
	RecvH   *receiverhandler.Handler
	St      *Stack
	Dir     string
	Crashed string // panic text if the instance "died" while handling a message
}

// NetFault is a planned fault on one message of the DKG exchange.
type NetFault struct {
	Site string `json:"site"` // prepare execute commit abort contribute.req contribute.rep
	From uint64 `json:"from"` // 0 = any
	To   uint64 `json:"to"`   // 0 = any
	Nth  int    `json:"nth"`  // n-th matching message (1-based; 0 = first)
	Kind string `json:"kind"`
	seen int
	Hit  bool `json:"hit"`
}

// Cluster is a set of instances connected by an intercepting in-process network that goes through the
// real receiver handlers (with the caller's authenticated name in the context, as the interceptor sets it).
type Cluster struct {
	shares map[uint64]map[uint64]bls.SecretKey
	Log    *Log
	Inst   map[uint64]*Instance
	Order  []uint64 // instance ids, ascending
	mu     sync.Mutex
	Faults []*NetFault
	// CommitOrder, when set, is the order in which the parallel Commit calls are allowed to return.
	CommitOrder []uint64
	commitDone  map[uint64]bool
	commitCond  *sync.Cond
	Timeout     time.Duration
	// Byz holds, per faulty participant, the key it signs with instead of its share (fault kind "byzsig").
	Byz map[uint64]bls.SecretKey
	// JitterUs > 0: every message is held back for a random time below that many microseconds before it is delivered
	JitterUs int
	jmu      sync.Mutex
	jrnd     *rand.Rand
}

func (c *Cluster) jitter() {
	if c.JitterUs <= 0 {
		return
	}
	c.jmu.Lock()
	if c.jrnd == nil {
		c.jrnd = rand.New(rand.NewSource(int64(c.JitterUs)*7919 + int64(len(c.Order))))
	}
	d := c.jrnd.Intn(c.JitterUs)
	c.jmu.Unlock()
	time.Sleep(time.Duration(d) * time.Microsecond)
}

type netSender struct {
	c    *Cluster
	from *Instance
}

func peerName(id uint64) string { return fmt.Sprintf("signer-%d", id) }
func peerPort(id uint64) uint32 { return uint32(10000 + id%50000) }

// route finds the instance a message for the given endpoint reaches.  The network delivers to a NAME AND PORT, not to an identifier:
// an endpoint whose name / port is not the one configured for its identifier reaches whoever listens there (another instance, or
// nobody) - and is logged as a misdelivery, because every endpoint a process service talks to must come from its configured peers.
func (c *Cluster) route(from *Instance, ep *core.Endpoint) *Instance {
	if in := c.Inst[ep.ID]; in != nil && ep.Name == in.Name && ep.Port == peerPort(in.ID) {
		return in
	}
	var reached *Instance
	for _, in := range c.Inst {
		if ep.Name == in.Name && ep.Port == peerPort(in.ID) {
			reached = in
		}
	}
	rid := uint64(0)
	if reached != nil {
		rid = reached.ID
	}
	c.Log.Emit(Ev{"ev": "Misdelivery", "from": from.ID, "id": ep.ID, "name": ep.Name, "port": ep.Port, "reached": rid})
	return reached
}

// NewCluster builds instances with the given ids; every instance has a distributed wallet "DW" and an
// nd wallet "W1" with one account, and lets client "c1" do everything.
func NewCluster(ctx context.Context, ids []uint64, log *Log, timeout time.Duration) (*Cluster, error) {
	c := &Cluster{Log: log, Inst: map[uint64]*Instance{}, commitDone: map[uint64]bool{}, Timeout: timeout}
	c.commitCond = sync.NewCond(&c.mu)
	peers := map[uint64]string{}
	for _, id := range ids {
		peers[id] = fmt.Sprintf("%s:%d", peerName(id), peerPort(id))
	}
	sorted := append([]uint64{}, ids...)
	sort.Slice(sorted, func(i, j int) bool { return sorted[i] < sorted[j] })
	c.Order = sorted
	for n, id := range sorted {
		ctl := NewControl(log)
		spec := Spec{Wallets: []WalletSpec{{Name: "DW", Type: "distributed"}, {Name: "W1", Type: "nd", Accounts: []AccountSpec{{Name: "a0", KeyIdx: 100 + n}}}}}
		b, err := NewBase(ctx, spec, log, ctl)
		if err != nil {
			return nil, err
		}
		in := &Instance{ID: id, Name: peerName(id), B: b}
		ps, err := staticpeers.New(ctx, staticpeers.WithPeers(peers))
		if err != nil {
			return nil, err
		}
		proc, err := standardprocess.New(ctx, standardprocess.WithChecker(b.Checker), standardprocess.WithFetcher(b.Fetcher),
			standardprocess.WithUnlocker(b.Unlocker), standardprocess.WithSender(&netSender{c: c, from: in}), standardprocess.WithPeers(ps),
			standardprocess.WithID(id), standardprocess.WithStores([]e2wtypes.Store{b.Store}), standardprocess.WithEncryptor(b.Encryptor),
			standardprocess.WithGenerationPassphrase([]byte("pass")), standardprocess.WithGenerationTimeout(timeout))
		if err != nil {
			return nil, err
		}
		in.Proc = proc
		if in.RecvH, err = receiverhandler.New(ctx, receiverhandler.WithPeers(ps), receiverhandler.WithProcess(proc)); err != nil {
			return nil, err
		}
		dir, err := os.MkdirTemp("", "clusterdb")
		if err != nil {
			return nil, err
		}
		in.Dir = dir
		if in.St, err = NewStack(ctx, b, dir, proc); err != nil {
			return nil, err
		}
		c.Inst[id] = in
	}
	return c, nil
}

// Close removes the instances' directories.
func (c *Cluster) Close(ctx context.Context) {
	for _, in := range c.Inst {
		_ = in.St.Close(ctx)
		in.St.cancel()
		os.RemoveAll(in.Dir)
	}
}

func (c *Cluster) fault(site string, from, to uint64) string {
	c.mu.Lock()
	defer c.mu.Unlock()
	for _, f := range c.Faults {
		if f.Site != site || (f.From != 0 && f.From != from) || (f.To != 0 && f.To != to) {
			continue
		}
		f.seen++
		n := f.Nth
		if n == 0 {
			n = 1
		}
		if f.seen == n {
			f.Hit = true
			return f.Kind
		}
	}
	return ""
}

// unhit takes back the "applied" mark of a planned fault that could not be applied after all.
func (c *Cluster) unhit(site string, from, to uint64) {
	c.mu.Lock()
	defer c.mu.Unlock()
	for _, f := range c.Faults {
		if f.Site == site && (f.From == 0 || f.From == from) && (f.To == 0 || f.To == to) {
			f.Hit = false
		}
	}
}

func callerCtx(ctx context.Context, name string) context.Context {
	if name == "" {
		return ctx
	}
	return context.WithValue(ctx, &interceptors.ClientName{}, name)
}

// deliver runs a handler call on the target instance, turning a panic into "instance crashed".
func (c *Cluster) deliver(to *Instance, what string, fn func() error) (err error) {
	if to.Crashed != "" {
		return fmt.Errorf("connection to %d lost", to.ID)
	}
	defer func() {
		if p := recover(); p != nil {
			to.Crashed = fmt.Sprintf("%s: %v", what, p)
			c.Log.Emit(Ev{"ev": "Crash", "inst": to.ID, "what": to.Crashed})
			err = fmt.Errorf("connection to %d lost", to.ID)
		}
	}()
	return fn()
}

func (s *netSender) Prepare(ctx context.Context, recipient *core.Endpoint, account string, passphrase []byte, threshold uint32, participants []*core.Endpoint) error {
	to := s.c.route(s.from, recipient)
	if to == nil {
		return errors.New("no such peer")
	}
	kind := s.c.fault("prepare", s.from.ID, to.ID)
	s.c.jitter()
	s.c.Log.Emit(Ev{"ev": "Msg", "type": "prepare", "from": s.from.ID, "to": to.ID, "fault": kind, "account": account})
	if kind == "lost" {
		return errors.New("verif: message lost")
	}
	pbp := make([]*pb.Endpoint, len(participants))
	for i, p := range participants {
		pbp[i] = &pb.Endpoint{Id: p.ID, Name: p.Name, Port: p.Port}
	}
	req := roundTrip(&pb.PrepareRequest{Account: account, Passphrase: passphrase, Threshold: threshold, Participants: pbp}, &pb.PrepareRequest{})
	call := func() error {
		return s.c.deliver(to, "Prepare", func() error { _, err := to.RecvH.Prepare(callerCtx(ctx, s.from.Name), req); return err })
	}
	err := call()
	s.c.Log.Emit(Ev{"ev": "MsgDone", "type": "prepare", "from": s.from.ID, "to": to.ID, "account": account, "ok": err == nil})
	if kind == "dup" {
		_ = call()
	}
	if kind == "errreply" {
		return errors.New("verif: error reply")
	}
	return err
}

func (s *netSender) Execute(ctx context.Context, recipient *core.Endpoint, account string) error {
	to := s.c.route(s.from, recipient)
	if to == nil {
		return errors.New("no such peer")
	}
	kind := s.c.fault("execute", s.from.ID, to.ID)
	s.c.jitter()
	s.c.Log.Emit(Ev{"ev": "Msg", "type": "execute", "from": s.from.ID, "to": to.ID, "fault": kind, "account": account})
	if kind == "lost" {
		return errors.New("verif: message lost")
	}
	req := roundTrip(&pb.ExecuteRequest{Account: account}, &pb.ExecuteRequest{})
	call := func() error {
		return s.c.deliver(to, "Execute", func() error { _, err := to.RecvH.Execute(callerCtx(ctx, s.from.Name), req); return err })
	}
	err := call()
	s.c.Log.Emit(Ev{"ev": "MsgDone", "type": "execute", "from": s.from.ID, "to": to.ID, "account": account, "ok": err == nil})
	if kind == "dup" {
		_ = call()
	}
	if kind == "errreply" {
		return errors.New("verif: error reply")
	}
	return err
}

func (s *netSender) Abort(ctx context.Context, recipient *core.Endpoint, account string) error {
	to := s.c.route(s.from, recipient)
	if to == nil {
		return errors.New("no such peer")
	}
	req := roundTrip(&pb.AbortRequest{Account: account}, &pb.AbortRequest{})
	return s.c.deliver(to, "Abort", func() error { _, err := to.RecvH.Abort(callerCtx(ctx, s.from.Name), req); return err })
}

func (s *netSender) Commit(ctx context.Context, recipient *core.Endpoint, account string, confirmationData []byte) ([]byte, []byte, error) {
	to := s.c.route(s.from, recipient)
	if to == nil {
		return nil, nil, errors.New("no such peer")
	}
	kind := s.c.fault("commit", s.from.ID, to.ID)
	s.c.jitter()
	s.c.Log.Emit(Ev{"ev": "Msg", "type": "commit", "from": s.from.ID, "to": to.ID, "fault": kind, "account": account})
	defer s.commitReturned(to.ID)
	if kind == "lost" {
		s.waitCommitTurn(to.ID)
		return nil, nil, errors.New("verif: message lost")
	}
	req := roundTrip(&pb.CommitRequest{Account: account, ConfirmationData: confirmationData}, &pb.CommitRequest{})
	var res *pb.CommitResponse
	err := s.c.deliver(to, "Commit", func() error {
		var e error
		res, e = to.RecvH.Commit(callerCtx(ctx, s.from.Name), req)
		return e
	})
	s.c.Log.Emit(Ev{"ev": "MsgDone", "type": "commit", "from": s.from.ID, "to": to.ID, "account": account, "ok": err == nil})
	s.waitCommitTurn(to.ID)
	if err != nil {
		return nil, nil, err
	}
	pk, sig := res.GetPublicKey(), res.GetConfirmationSignature()
	switch kind {
	case "errreply":
		return nil, nil, errors.New("verif: error reply")
	case "pubkey-alter":
		var sk bls.SecretKey
		sk.SetByCSPRNG()
		pk = sk.GetPublicKey().Serialize()
	case "sig-alter":
		var sk bls.SecretKey
		sk.SetByCSPRNG()
		sig = sk.SignByte(confirmationData).Serialize()
	case "byzsig":
		// a faulty participant: signs the confirmation - and everything later (see probe) - with a key that is not its share
		var sk bls.SecretKey
		sk.SetByCSPRNG()
		sig = sk.SignByte(confirmationData).Serialize()
		s.c.mu.Lock()
		if s.c.Byz == nil {
			s.c.Byz = map[uint64]bls.SecretKey{}
		}
		s.c.Byz[to.ID] = sk
		s.c.mu.Unlock()
	case "pubkey-empty":
		pk = nil
	case "sig-empty":
		sig = nil
	}
	return pk, sig, nil
}

func (s *netSender) waitCommitTurn(id uint64) {
	c := s.c
	c.mu.Lock()
	defer c.mu.Unlock()
	if len(c.CommitOrder) == 0 {
		return
	}
	deadline := time.Now().Add(10 * time.Second)
	for {
		turn := true
		for _, o := range c.CommitOrder {
			if o == id {
				break
			}
			if !c.commitDone[o] {
				turn = false
				break
			}
		}
		if turn || time.Now().After(deadline) {
			return
		}
		go func() { time.Sleep(5 * time.Millisecond); c.commitCond.Broadcast() }()
		c.commitCond.Wait()
	}
}

func (s *netSender) commitReturned(id uint64) {
	s.c.mu.Lock()
	s.c.commitDone[id] = true
	s.c.commitCond.Broadcast()
	s.c.mu.Unlock()
}

// tamper applies a fault kind to a contribution (share + verification vector).
func tamper(kind string, id uint64, secret bls.SecretKey, vVec []bls.PublicKey) (bls.SecretKey, []bls.PublicKey) {
	switch kind {
	case "share-replaced":
		var sk bls.SecretKey
		sk.SetByCSPRNG()
		return sk, vVec
	case "share-otherid":
		// a valid share of the same polynomial family but for another identifier cannot be derived from the
		// message alone; the share of a fresh polynomial evaluated for ANOTHER id stands in for it
		var sk bls.SecretKey
		sk.SetByCSPRNG()
		one := []bls.SecretKey{sk}
		var out bls.SecretKey
		_ = out.Set(one, util.BLSID(id+1))
		return out, vVec
	case "vvec-alter":
		var sk bls.SecretKey
		sk.SetByCSPRNG()
		v := append([]bls.PublicKey{}, vVec...)
		v[0] = *sk.GetPublicKey()
		return secret, v
	case "vvec-short":
		return secret, vVec[:len(vVec)-1]
	case "vvec-empty":
		return secret, []bls.PublicKey{}
	case "vvec-double":
		return secret, append(append([]bls.PublicKey{}, vVec...), vVec...)
	case "vvec-long-key":
		var sk bls.SecretKey
		sk.SetByCSPRNG()
		return secret, append(append([]bls.PublicKey{}, vVec...), *sk.GetPublicKey())
	case "vvec-long-identity":
		return secret, append(append([]bls.PublicKey{}, vVec...), bls.PublicKey{})
	case "vvec-short-poly":
		// share and vector of a polynomial with one coefficient LESS: self-consistent but too short
		if len(vVec) < 2 {
			return secret, vVec
		}
		cs := make([]bls.SecretKey, len(vVec)-1)
		v := make([]bls.PublicKey, len(vVec)-1)
		for i := range cs {
			cs[i].SetByCSPRNG()
			v[i] = *cs[i].GetPublicKey()
		}
		var out bls.SecretKey
		_ = out.Set(cs, util.BLSID(id))
		return out, v
	case "vvec-long-poly":
		// share and vector of a polynomial with one more coefficient: still self-consistent
		var c bls.SecretKey
		c.SetByCSPRNG()
		coeffs := make([]bls.SecretKey, len(vVec)+1)
		// f'(x) = f(x) + c*x^t : share' = share + c*id^t ; computed by evaluating the polynomial 0,...,0,c at id
		coeffs[len(vVec)] = c
		var extra bls.SecretKey
		_ = extra.Set(coeffs, util.BLSID(id))
		out := secret
		out.Add(&extra)
		return out, append(append([]bls.PublicKey{}, vVec...), *c.GetPublicKey())
	}
	return secret, vVec
}

func (s *netSender) SendContribution(ctx context.Context, recipient *core.Endpoint, account string, distributionSecret bls.SecretKey, verificationVector []bls.PublicKey) (bls.SecretKey, []bls.PublicKey, error) {
	to := s.c.route(s.from, recipient)
	if to == nil {
		return bls.SecretKey{}, nil, errors.New("no such peer")
	}
	kind := s.c.fault("contribute.req", s.from.ID, to.ID)
	rkind := s.c.fault("contribute.rep", to.ID, s.from.ID)
	s.c.jitter()
	s.c.Log.Emit(Ev{"ev": "Msg", "type": "contribute", "from": s.from.ID, "to": to.ID, "fault": kind, "rfault": rkind, "account": account})
	if kind == "lost" {
		return bls.SecretKey{}, nil, errors.New("verif: message lost")
	}
	// (every genuine share that passes is remembered: "the share computed for ANOTHER participant" is then a real one)
	s.c.rememberShare(s.from.ID, to.ID, distributionSecret)
	sec, vv := tamper(kind, to.ID, distributionSecret, verificationVector)
	if kind == "share-swapped" {
		if other, ok := s.c.otherShare(s.from.ID, to.ID); ok {
			sec = other
		} else {
			s.c.unhit("contribute.req", s.from.ID, to.ID) // (no other share of this producer is known yet: nothing was tampered with)
			s.c.Log.Emit(Ev{"ev": "FaultSkipped", "site": "contribute.req", "from": s.from.ID, "to": to.ID, "kind": kind})
		}
	}
	vb := make([][]byte, len(vv))
	for i := range vv {
		vb[i] = vv[i].Serialize()
	}
	req := roundTrip(&pb.ContributeRequest{Account: account, Secret: sec.Serialize(), VerificationVector: vb}, &pb.ContributeRequest{})
	var res *pb.ContributeResponse
	call := func() error {
		return s.c.deliver(to, "Contribute", func() error {
			var e error
			res, e = to.RecvH.Contribute(callerCtx(ctx, s.from.Name), req)
			return e
		})
	}
	err := call()
	s.c.Log.Emit(Ev{"ev": "MsgDone", "type": "contribute", "from": s.from.ID, "to": to.ID, "account": account, "ok": err == nil})
	if kind == "dup" && err == nil {
		_ = call()
	}
	if err != nil {
		return bls.SecretKey{}, nil, err
	}
	if kind == "errreply" || rkind == "errreply" || rkind == "lost" {
		return bls.SecretKey{}, nil, errors.New("verif: error reply")
	}
	res = roundTrip(res, &pb.ContributeResponse{})
	var rs bls.SecretKey
	if err := rs.Deserialize(res.GetSecret()); err != nil {
		return bls.SecretKey{}, nil, err
	}
	rv := make([]bls.PublicKey, len(res.GetVerificationVector()))
	for i, k := range res.GetVerificationVector() {
		if err := rv[i].Deserialize(k); err != nil {
			return bls.SecretKey{}, nil, err
		}
	}
	// record whose share the reply carries (C16): it must verify for the CALLER's id against the replier's vector
	ownerOK := verifyShare(s.from.ID, rs, rv)
	others := []uint64{}
	for _, id := range s.c.Order {
		if id != s.from.ID && verifyShare(id, rs, rv) {
			others = append(others, id)
		}
	}
	s.c.Log.Emit(Ev{"ev": "ContribReply", "from": to.ID, "to": s.from.ID, "for_caller": ownerOK, "for_others": others})
	s.c.rememberShare(to.ID, s.from.ID, rs)
	genuine := rs
	rs, rv = tamper(rkind, s.from.ID, rs, rv)
	if rkind == "share-swapped" {
		rs = genuine
		if other, ok := s.c.otherShare(to.ID, s.from.ID); ok {
			rs = other
		} else {
			s.c.unhit("contribute.rep", to.ID, s.from.ID)
			s.c.Log.Emit(Ev{"ev": "FaultSkipped", "site": "contribute.rep", "from": to.ID, "to": s.from.ID, "kind": rkind})
		}
	}
	return rs, rv, nil
}

// rememberShare / otherShare: the genuine shares seen on the network so far, by producer and by the participant they were computed
// for.  otherShare(from, notFor) hands back a share the same producer computed for somebody else - preferring an identifier that
// agrees with notFor in its low bits (identifiers that a careless conversion could confuse).
func (c *Cluster) rememberShare(from, forID uint64, sk bls.SecretKey) {
	c.mu.Lock()
	defer c.mu.Unlock()
	if c.shares == nil {
		c.shares = map[uint64]map[uint64]bls.SecretKey{}
	}
	if c.shares[from] == nil {
		c.shares[from] = map[uint64]bls.SecretKey{}
	}
	c.shares[from][forID] = sk
}

func (c *Cluster) otherShare(from, notFor uint64) (bls.SecretKey, bool) {
	c.mu.Lock()
	defer c.mu.Unlock()
	best, found := uint64(0), false
	score := func(id uint64) int {
		n := 0
		for bit := 0; bit < 64 && (id^notFor)&(1<<bit) == 0; bit++ {
			n++
		}
		return n
	}
	for id := range c.shares[from] {
		if id == notFor {
			continue
		}
		if !found || score(id) > score(best) || (score(id) == score(best) && id < best) {
			best, found = id, true
		}
	}
	if !found {
		return bls.SecretKey{}, false
	}
	return c.shares[from][best], true
}

func verifyShare(id uint64, share bls.SecretKey, vVec []bls.PublicKey) bool {
	var pk bls.PublicKey
	if err := pk.Set(vVec, util.BLSID(id)); err != nil {
		return false
	}
	return share.GetPublicKey().IsEqual(&pk)
}

// AccountInfo describes what an instance holds for an account path.
type AccountInfo struct {
	Present      bool              `json:"present"`
	InFetcher    bool              `json:"in_fetcher"`
	Composite    string            `json:"composite"`
	Share        string            `json:"share"`
	Threshold    uint32            `json:"threshold"`
	VVec         []string          `json:"vvec"`
	Participants map[string]string `json:"participants"`
	ShareOK      bool              `json:"share_ok"` // share public key = verification vector evaluated at the instance's id
}

// Inspect reports what instance in holds for path, reading the wallet store directly (as a restart would).
func (c *Cluster) Inspect(ctx context.Context, in *Instance, path string) AccountInfo {
	info := AccountInfo{}
	wn, an, _ := strings.Cut(path, "/")
	// through the running instance
	if _, _, err := in.B.RawFetch.FetchAccount(ctx, path); err == nil {
		info.InFetcher = true
	}
	// from the store, as a restart would see it
	if w, err := distributed.OpenWallet(ctx, wn, in.B.Store, in.B.Encryptor); err == nil {
		if p, ok := w.(e2wtypes.WalletAccountByNameProvider); ok {
			if _, err := p.AccountByName(ctx, an); err == nil {
				info.Present = true
			}
		}
	}
	if w, a, err := in.B.RawFetch.FetchAccount(ctx, path); err == nil {
		_ = w
		if da, ok := a.(e2wtypes.DistributedAccount); ok {
			info.Composite = hex.EncodeToString(da.CompositePublicKey().Marshal())
			info.Share = hex.EncodeToString(a.PublicKey().Marshal())
			info.Threshold = da.SigningThreshold()
			info.Participants = map[string]string{}
			for k, v := range da.Participants() {
				info.Participants[fmt.Sprint(k)] = v
			}
			var vv []e2types.PublicKey
			if vp, ok := a.(e2wtypes.AccountVerificationVectorProvider); ok {
				vv = vp.VerificationVector()
			}
			pks := make([]bls.PublicKey, len(vv))
			for i, v := range vv {
				info.VVec = append(info.VVec, hex.EncodeToString(v.Marshal()))
				_ = pks[i].Deserialize(v.Marshal())
			}
			var at bls.PublicKey
			if err := at.Set(pks, util.BLSID(in.ID)); err == nil {
				info.ShareOK = hex.EncodeToString(at.Serialize()) == info.Share
			}
		} else {
			info.Share = hex.EncodeToString(a.PublicKey().Marshal())
		}
	}
	return info
}

package world

import (
	"bytes"
	"context"
	"crypto/sha256"
	"crypto/sha512"
	"crypto/tls"
	"crypto/x509"
	"encoding/pem"
	"fmt"
	"sync"
	"time"
)

// A caller WITHOUT a certificate of the configured authority who offers a TLS session ticket it minted itself.
// A resumed TLS 1.3 session is admitted on the strength of the ticket alone (the certificate chain recorded in it is not verified
// again), so the ticket-encryption key of the server must not be obtainable by anybody else.  The caller here knows only PUBLIC
// material - the certificates the server sends to whoever connects, the authority's certificate, the server's name - and tries
// every ticket key derivable from it by a plain digest.  For each candidate it runs a TLS server of its own with that key, obtains a
// ticket there for its other-authority certificate, and offers it to the daemon.

var (
	ticketMu   sync.Mutex
	ticketKeys = map[string][][32]byte{}
)

// publicTicketKeys: the candidate keys.
func (a *APIServer) publicTicketKeys(ctx context.Context) ([][32]byte, error) {
	d := &tls.Dialer{Config: &tls.Config{InsecureSkipVerify: true, MinVersion: tls.VersionTLS13}} //nolint:gosec
	hctx, cancel := context.WithTimeout(ctx, 10*time.Second)
	defer cancel()
	c, err := d.DialContext(hctx, "tcp", a.Addr)
	if err != nil {
		return nil, fmt.Errorf("ticket: cannot read the server's certificate: %w", err)
	}
	certs := c.(*tls.Conn).ConnectionState().PeerCertificates
	_ = c.Close()
	if len(certs) == 0 {
		return nil, fmt.Errorf("ticket: the server sent no certificate")
	}
	var material [][]byte
	var chain []byte
	for _, crt := range certs {
		p := pem.EncodeToMemory(&pem.Block{Type: "CERTIFICATE", Bytes: crt.Raw})
		material = append(material, p, bytes.TrimRight(p, "\n"), crt.Raw, crt.RawSubjectPublicKeyInfo, []byte(crt.Subject.CommonName))
		chain = append(chain, p...)
	}
	material = append(material, chain, bytes.TrimRight(chain, "\n"), a.PKI.CAPEM, bytes.TrimRight(a.PKI.CAPEM, "\n"), a.PKI.CACert.Raw, []byte("localhost"), []byte("dirk"), []byte{})
	var keys [][32]byte
	seen := map[[32]byte]bool{}
	for _, m := range material {
		s5 := sha512.Sum512(m)
		var k5 [32]byte
		copy(k5[:], s5[:32])
		for _, k := range [][32]byte{sha256.Sum256(m), k5} {
			if !seen[k] {
				seen[k] = true
				keys = append(keys, k)
			}
		}
	}
	return keys, nil
}

// mintTicket fills cfg's session cache with a ticket issued by a TLS server of the caller's own that uses the given ticket key.
func mintTicket(key [32]byte, identity tls.Certificate, pool *x509.CertPool, cfg *tls.Config) error {
	l, err := tls.Listen("tcp", "127.0.0.1:0", &tls.Config{Certificates: []tls.Certificate{identity}, ClientAuth: tls.RequireAndVerifyClientCert, ClientCAs: pool,
		MinVersion: tls.VersionTLS13, NextProtos: []string{"h2"}, SessionTicketKey: key})
	if err != nil {
		return err
	}
	defer l.Close()
	go func() {
		conn, err := l.Accept()
		if err != nil {
			return
		}
		defer conn.Close()
		_ = conn.SetDeadline(time.Now().Add(10 * time.Second))
		_, _ = conn.Write([]byte{0}) // completes the handshake, which issues the ticket
		buf := make([]byte, 1)
		_, _ = conn.Read(buf)
	}()
	conn, err := tls.DialWithDialer(&netDialer10s, "tcp", l.Addr().String(), cfg)
	if err != nil {
		return err
	}
	defer conn.Close()
	_ = conn.SetDeadline(time.Now().Add(10 * time.Second))
	buf := make([]byte, 1)
	_, err = conn.Read(buf) // reading makes the client take the ticket in
	return err
}

// forgedTicketConfig returns the TLS client configuration of such a caller: its session cache holds a self-minted ticket under the
// first candidate key that the daemon resumed a session for (under the last candidate if it resumed none - the normal case).
func (a *APIServer) forgedTicketConfig(ctx context.Context, identity tls.Certificate) (*tls.Config, error) {
	ticketMu.Lock()
	defer ticketMu.Unlock()
	keys := ticketKeys[a.Addr] // (searched once per server: the first key it accepted, or the last candidate)
	if keys == nil {
		var err error
		if keys, err = a.publicTicketKeys(ctx); err != nil {
			return nil, err
		}
	}
	pool := x509.NewCertPool()
	pool.AddCert(a.Other.CACert)
	mk := func(k [32]byte) (*tls.Config, error) {
		cfg := &tls.Config{Certificates: []tls.Certificate{identity}, InsecureSkipVerify: true, ServerName: "localhost", MinVersion: tls.VersionTLS13, //nolint:gosec
			NextProtos: []string{"h2"}, ClientSessionCache: tls.NewLRUClientSessionCache(4)}
		return cfg, mintTicket(k, identity, pool, cfg)
	}
	var last *tls.Config
	for _, k := range keys {
		cfg, err := mk(k)
		if err != nil {
			return nil, fmt.Errorf("ticket: minting failed: %w", err)
		}
		last = cfg
		conn, err := tls.DialWithDialer(&netDialer10s, "tcp", a.Addr, cfg)
		if err != nil {
			continue
		}
		resumed := conn.ConnectionState().DidResume
		_ = conn.Close()
		if resumed {
			ticketKeys[a.Addr] = [][32]byte{k}
			return mk(k) // (the ticket just offered is spent)
		}
	}
	ticketKeys[a.Addr] = keys[len(keys)-1:]
	return last, nil
}

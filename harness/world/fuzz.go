package world

import (
	"context"
)

// FuzzMsg is one shape-model message for C20 (filled in by fuzzimpl.go).
type FuzzMsg struct {
	ID     string         `json:"id"`
	Method string         `json:"method"`
	Cred   string         `json:"cred"`
	Shape  map[string]any `json:"shape"`
	Seed   int64          `json:"seed"`
}

// RunFuzz is implemented in fuzzimpl.go.
func (a *APIServer) RunFuzz(ctx context.Context, msgs []FuzzMsg, log *Log) error {
	return a.runFuzz(ctx, msgs, log)
}

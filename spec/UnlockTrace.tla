------------------------------ MODULE UnlockTrace ------------------------------
(***************************************************************************)
(* Layer-D trace validation for Unlock: requests released at the same      *)
(* moment on a FRESH instance (every account still locked) - what the      *)
(* harness' wrapper around the real services/unlocker/local saw, in log    *)
(* order:                                                                  *)
(*   UnlockEnter r a     a pre-check worker of request r found account a   *)
(*                       locked and called UnlockAccount                   *)
(*   UnlockExit  r a ok  that call returned                                *)
(*   Respond     r       the request was answered                          *)
(* must be explainable as a behaviour of Unlock.tla in the shipped design  *)
(* (ShareMode "each"): each logged line is an assertion on the model       *)
(* state, the workers' own steps (IsUnlocked, the key derivation, the      *)
(* join) are placed by TLC as silent steps.  The first line gives the      *)
(* accounts and what each request names.  A worker that comes back with    *)
(* "still locked", or a request that is answered before its workers are    *)
(* back, is not a behaviour of the shipped design.                         *)
(***************************************************************************)
EXTENDS Integers, Sequences, FiniteSets, TLC, Json
CONSTANT TraceFile
Trace == ndJsonDeserialize(TraceFile)
Cfg == Trace[1]
TAccts == {Cfg.accts[i] : i \in 1 .. Len(Cfg.accts)}
ReqRecs == {Cfg.reqs[i] : i \in 1 .. Len(Cfg.reqs)}
TReqs == {q.r : q \in ReqRecs}
ReqRec(r) == CHOOSE q \in ReqRecs : q.r = r

VARIABLES open, rpc, wpc, busy, gen, chan, waits, relocks, relocked, l, ent, exi
uvars == <<open, rpc, wpc, busy, gen, chan, waits, relocks, relocked>>
U == INSTANCE Unlock WITH Accts <- TAccts, Reqs <- TReqs, Wants <- [r \in TReqs |-> ReqRec(r).wants], ShareMode <- "each", MaxRelock <- 0

Ev == Trace[l]
Is(name) == l <= Len(Trace) /\ Ev.ev = name /\ l' = l + 1 /\ UNCHANGED uvars
Init == U!Init /\ l = 2 /\ ent = {} /\ exi = {} /\ TLCSet(1, 2)
Enter == /\ Is("UnlockEnter")
         /\ \E i \in U!W(Ev.r) : /\ U!A(Ev.r, i) = Ev.a /\ <<Ev.r, i>> \notin ent
                                 /\ wpc[Ev.r][i] \in {"decrypt", "wait"}
                                 /\ ent' = ent \cup {<<Ev.r, i>>}
         /\ UNCHANGED exi
Exit == /\ Is("UnlockExit")
        /\ \E i \in U!W(Ev.r) : /\ U!A(Ev.r, i) = Ev.a /\ <<Ev.r, i>> \in ent \ exi
                                /\ wpc[Ev.r][i] = (IF Ev.ok THEN "ok" ELSE "denied")
                                /\ exi' = exi \cup {<<Ev.r, i>>}
        /\ UNCHANGED ent
Respond == /\ Is("Respond") /\ rpc[Ev.r] = "done"
           /\ \A i \in U!W(Ev.r) : <<Ev.r, i>> \in ent => <<Ev.r, i>> \in exi
           /\ UNCHANGED <<ent, exi>>
Silent == (\E r \in TReqs : U!ReqStep(r)) /\ UNCHANGED <<l, ent, exi>>
Next == Enter \/ Exit \/ Respond \/ Silent
Spec == Init /\ [][Next]_<<uvars, l, ent, exi>>
HighWater == TLCSet(1, IF l > TLCGet(1) THEN l ELSE TLCGet(1))
Accepted == IF TLCGet(1) = Len(Trace) + 1 THEN TRUE ELSE PrintT(<<"HIGHWATER", TLCGet(1)>>) /\ FALSE
=============================================================================

------------------------------- MODULE LockOrder -------------------------------
(***************************************************************************)
(* C15, attack generation independent of the order in which an             *)
(* implementation acquires the key locks of a batch.                       *)
(*                                                                         *)
(* Two batch requests q1, q2 (sequences of distinct keys).  An             *)
(* implementation acquires the locks of a batch in SOME order (request     *)
(* order, sorted order, ...).  Without a mechanism that serialises the     *)
(* acquisition phases, the count schedule "q1 acquires i locks, then q2    *)
(* acquires j locks, then both continue" deadlocks for some pair of        *)
(* acquisition orders exactly when CanDeadlock below holds.  TLC           *)
(* enumerates all such (q1, q2, i, j) over the key set; the harness        *)
(* imposes every one of them on the real ruler/locker by counting passages *)
(* of the lock gate, whatever order the code uses.                         *)
(***************************************************************************)
EXTENDS Integers, Sequences, FiniteSets, TLC, Json

CONSTANTS Keys, OutFile

Range(s) == {s[i] : i \in 1 .. Len(s)}
SeqsOf(S) == {s \in [1 .. Cardinality(S) -> S] : Range(s) = S}      \* permutations of S as sequences
Batches == UNION {SeqsOf(S) : S \in {T \in SUBSET Keys : Cardinality(T) >= 2}}

CanDeadlock(q1, q2, i, j) ==
    \E o1 \in SeqsOf(Range(q1)), o2 \in SeqsOf(Range(q2)) :
        LET h1 == {o1[x] : x \in 1 .. i}
            h2 == {o2[x] : x \in 1 .. j}
        IN /\ i < Len(o1) /\ j < Len(o2)
           /\ h1 \cap h2 = {}
           /\ o1[i + 1] \in h2
           /\ o2[j + 1] \in h1

Attacks == {[q1 |-> q1, q2 |-> q2, i |-> i, j |-> j] :
              q1 \in Batches, q2 \in Batches, i \in 1 .. 2, j \in 1 .. 2}
Real == {a \in Attacks : CanDeadlock(a.q1, a.q2, a.i, a.j)}

ASSUME JsonSerialize(OutFile, [attacks |-> Real, count |-> Cardinality(Real)])
VARIABLE x
Init == x = 0
Next == UNCHANGED x
Spec == Init /\ [][Next]_x
=============================================================================

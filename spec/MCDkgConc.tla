------------------------------ MODULE MCDkgConc ------------------------------
(* Configurations for exhaustive checking of DkgConc: two generations on overlapping instances. *)
EXTENDS DkgConc
G2 == {"g1", "g2"}
\* different names, the same three instances addressed in different orders
NamesDiff == [g1 |-> "A", g2 |-> "B"]
NamesSame == [g1 |-> "A", g2 |-> "A"]
InitsA == [g1 |-> 1, g2 |-> 3]
PartsRot == [g1 |-> <<1, 2, 3>>, g2 |-> <<3, 1, 2>>]
\* partial overlap: both use instance 2
PartsOverlap == [g1 |-> <<1, 2>>, g2 |-> <<3, 2>>]
\* four instances, overlap on 2 and 3
InitsB == [g1 |-> 1, g2 |-> 4]
PartsFour == [g1 |-> <<1, 2, 3>>, g2 |-> <<4, 2, 3>>]
\* opposite orders on two instances
InitsC == [g1 |-> 1, g2 |-> 2]
PartsOpp == [g1 |-> <<1, 2>>, g2 |-> <<2, 1>>]
=============================================================================

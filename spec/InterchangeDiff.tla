---------------------------- MODULE InterchangeDiff ----------------------------
(***************************************************************************)
(* Differential case generator for C10: for every design mutant of the     *)
(* import (merge mode x handling of repeated keys), ALL inputs (record on  *)
(* file before the import x interchange file of up to MaxEntries entries)  *)
(* on which the mutant design leaves something at or below the file's or   *)
(* the earlier history's data signable (CoversOf fails) or lowers a        *)
(* record.  The shipped design has no such input (Interchange.ImportCovers,*)
(* NeverLowers, checked exhaustively); an implementation that has drifted  *)
(* towards one of the mutants fails on exactly these inputs, so they are   *)
(* the ones replayed through the real binary.                              *)
(***************************************************************************)
EXTENDS Interchange, Json
CONSTANTS OutFile,
          Only      \* one design per TLC run (run in parallel): "shipped" or "<merge mode>/<dup keys>"
Mutants == {<<"allOrNothing", "merge">>, <<"overwrite", "merge">>, <<"max", "lastWins">>, <<"max", "lastWinsIfExisting">>}
Befores == {d \in [s : {-1} \cup V, t : {-1} \cup V, ps : {-1} \cup V] : (d.s = -1) = (d.t = -1)}
Files == UNION {[1 .. n -> Entries] : n \in 1 .. MaxEntries}
After(m, d, f) == WrittenOf(d, MergedOf(m[1], m[2], d, f))
Exposed(m, d, f) == LET a == After(m, d, f) IN ~CoversOf(a, d, f) \/ a.s < d.s \/ a.t < d.t \/ a.ps < d.ps
Cases(m) == {[before |-> d, file |-> f, mutant |-> m[1] \o "/" \o m[2]] : <<d, f>> \in {x \in Befores \X Files : Exposed(m, x[1], x[2])}}
\* the shipped design on the same space (must be empty)
ShippedExposed == {x \in Befores \X Files : Exposed(<<"max", "merge">>, x[1], x[2])}
ASSUME Only = "shipped" => ShippedExposed = {}
ASSUME JsonSerialize(OutFile, [cases |-> UNION {Cases(m) : m \in {mm \in Mutants : mm[1] \o "/" \o mm[2] = Only}}])
VARIABLE x
DInit == x = 0 /\ db = NoRec /\ file = <<>> /\ meta = "ok" /\ phase = "build" /\ before = NoRec
DNext == UNCHANGED <<x, vars>>
DSpec == DInit /\ [][DNext]_<<x, vars>>
=============================================================================

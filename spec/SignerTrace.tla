------------------------------ MODULE SignerTrace ------------------------------
(***************************************************************************)
(* Layer D trace validation: the DETAILED events recorded from the real    *)
(* signing stack (locker wrapper: PreLock, LockAcq, PostLock, Unlock;      *)
(* storage hooks: Fetch, Store with the decoded record; ruler and signer:  *)
(* RulerEnter, RulesExit, Respond) are read as steps of Signer.tla.  Each  *)
(* event is  IsEvent(name) /\ <logged fields bound> /\ SignerAction(r) ;   *)
(* the pure rule evaluation (Check), the end of the store loop, the no-op  *)
(* store of a refused single request and signing are silent steps that TLC *)
(* places itself.  A trace that Signer.tla cannot explain is DRIFT (the    *)
(* model no longer describes the code); it is reported in the evidence and *)
(* never turns into a property verdict by itself.                          *)
(***************************************************************************)
EXTENDS Signer, Json

CONSTANTS TraceFile
Trace == ndJsonDeserialize(TraceFile)

NoCatalog(r) == {}      \* request contents come from the recorded Invoke events
VARIABLE l
tvars == <<vars, l>>
Ev == Trace[l]
Is(name) == l <= Len(Trace) /\ Ev.ev = name /\ l' = l + 1

TraceInit == Init /\ l = 1 /\ TLCSet(1, 1)

\* a new recorded run starts: back to the initial state
Begin == /\ Is("Begin")
         /\ def' = [r \in Reqs |-> Unchosen]
         /\ disk' = [k \in Keys |-> NoRec] /\ cache' = [k \in Keys |-> NoCache]
         /\ mapLock' = None /\ holder' = [k \in Keys |-> None]
         /\ pc' = [r \in Reqs |-> "idle"] /\ idx' = [r \in Reqs |-> 1]
         /\ loc' = [r \in Reqs |-> <<>>] /\ res' = [r \in Reqs |-> <<>>] /\ nxt' = [r \in Reqs |-> <<>>]
         /\ sigs' = [r \in Reqs |-> {}] /\ released' = {} /\ order' = <<>> /\ faulted' = {}
         /\ crashes' = 0 /\ faults' = 0 /\ closed' = FALSE

EntOf(e) == [k |-> e.k, s |-> e.s, t |-> e.t, slot |-> e.slot, root |-> e.root]
\* Invoke carries the request's content (Signer.Choose + Signer.Invoke in one recorded step)
TInvoke == /\ Is("Invoke")
           /\ LET r == Ev.r
                  d == [kind |-> Ev.kind, ents |-> [i \in 1 .. Len(Ev.ents) |-> EntOf(Ev.ents[i])]]
                  n == Len(Ev.ents)
              IN /\ pc[r] = "idle"
                 /\ def' = [def EXCEPT ![r] = d]
                 /\ pc' = [pc EXCEPT ![r] = "validate"]
                 /\ loc' = [loc EXCEPT ![r] = [i \in 1 .. n |-> NoRec]]
                 /\ res' = [res EXCEPT ![r] = [i \in 1 .. n |-> "UNKNOWN"]]
                 /\ nxt' = [nxt EXCEPT ![r] = [i \in 1 .. n |-> NoRec]]
           /\ UNCHANGED <<disk, cache, mapLock, holder, idx, sigs, released, order, faulted, crashes, faults, closed>>

TRulerEnter == Is("RulerEnter") /\ Validate(Ev.r)
TPreLock == Is("PreLock") /\ PreLock(Ev.r)
TLockAcq == /\ Is("LockAcq")
            /\ pc[Ev.r] = "lock" /\ idx[Ev.r] <= Len(LockSeq(Ev.r)) /\ LockSeq(Ev.r)[idx[Ev.r]] = Ev.k    \* in request order
            /\ LockNext(Ev.r)
TPostLock == Is("PostLock") /\ PostLock(Ev.r)
TFetch == /\ Is("Fetch")
          /\ pc[Ev.r] = "fetch" /\ idx[Ev.r] <= N(Ev.r) /\ Ent(Ev.r, idx[Ev.r]).k = Ev.k
          /\ IF Ev.kind = "prop" THEN disk[Ev.k].ps = Ev.slot ELSE disk[Ev.k].s = Ev.s /\ disk[Ev.k].t = Ev.t   \* the record read is the model's
          /\ Fetch(Ev.r)
TStore == /\ Is("Store")
          /\ pc[Ev.r] = "store" /\ idx[Ev.r] <= N(Ev.r) /\ Ent(Ev.r, idx[Ev.r]).k = Ev.k
          /\ NeedsStore(Ev.r, idx[Ev.r])
          /\ Store(Ev.r)
          /\ IF Ev.kind = "prop" THEN disk'[Ev.k].ps = Ev.slot ELSE disk'[Ev.k].s = Ev.s /\ disk'[Ev.k].t = Ev.t  \* the record written is the model's
\* the first recorded Unlock of a request is the model's (atomic) Unlock; the others are stuttering
TUnlock == /\ Is("Unlock")
           /\ \/ Unlock(Ev.r)
              \/ /\ pc[Ev.r] \notin {"unlock", "unlockE"} /\ holder[Ev.k] # Ev.r
                 /\ UNCHANGED vars
\* the rules' verdicts as recorded equal the model's (assertion, no step)
TRulesExit == /\ Is("RulesExit")
              /\ pc[Ev.r] \in {"store", "unlock", "sign", "reply"}
              /\ Len(Ev.res) = N(Ev.r) => \A i \in 1 .. N(Ev.r) : Ev.res[i] = res[Ev.r][i]
              /\ UNCHANGED vars
TRespond == /\ Is("Respond")
            /\ Reply(Ev.r)
            /\ \A i \in 1 .. N(Ev.r) : (Ev.res[i] = "SUCCEEDED") = (i \in sigs[Ev.r])
            /\ Len(Ev.res) = N(Ev.r)
TExport == /\ Is("Export")
           /\ \A k \in Keys : IF k \in DOMAIN Ev.db THEN disk[k] = Ev.db[k] ELSE disk[k] = NoRec
           /\ UNCHANGED vars
Events == {"Begin", "Invoke", "RulerEnter", "PreLock", "LockAcq", "PostLock", "Fetch", "Store", "Unlock", "RulesExit", "Respond", "Export"}
TOther == l <= Len(Trace) /\ Ev.ev \notin Events /\ l' = l + 1 /\ UNCHANGED vars

\* silent steps of the model (not observable as events)
Silent(r) == /\ l <= Len(Trace)
             /\ \/ Check(r)
                \/ pc[r] = "store" /\ idx[r] <= N(r) /\ ~NeedsStore(r, idx[r]) /\ Store(r)
                \/ StoreDone(r)
                \/ Sign(r)
             /\ UNCHANGED l

TraceNext == \/ Begin \/ TInvoke \/ TRulerEnter \/ TPreLock \/ TLockAcq \/ TPostLock \/ TFetch \/ TStore \/ TUnlock
             \/ TRulesExit \/ TRespond \/ TExport \/ TOther
             \/ \E r \in Reqs : Silent(r)
TraceSpec == TraceInit /\ [][TraceNext]_tvars

HighWater == TLCSet(1, IF l > TLCGet(1) THEN l ELSE TLCGet(1))
Accepted == TLCGet(1) = Len(Trace) + 1
=============================================================================

---------------------------------- MODULE Api ----------------------------------
(***************************************************************************)
(* C19: admission at the gRPC boundary (services/api/grpc/service.go:      *)
(* RequireAndVerifyClientCert against the configured CA, TLS 1.3;          *)
(* interceptors/clientinfo.go: identity = subject common name of the       *)
(* VERIFIED leaf certificate).                                             *)
(*                                                                         *)
(* A thin model: a decision table over every RPC method of every           *)
(* registered service x every kind of caller credential.  TLC enumerates   *)
(* the matrix (written as JSON for the replay over real TLS) and ApiTrace  *)
(* judges the recorded calls.                                              *)
(***************************************************************************)
EXTENDS Integers, Sequences, FiniteSets, TLC

ClientMethods == {"Lister.ListAccounts", "Signer.Sign", "Signer.Multisign", "Signer.SignBeaconAttestation", "Signer.SignBeaconAttestations",
                  "Signer.SignBeaconProposal", "AccountManager.Generate", "AccountManager.Lock", "AccountManager.Unlock",
                  "WalletManager.Lock", "WalletManager.Unlock"}
PeerMethods == {"DKG.Prepare", "DKG.Execute", "DKG.Commit", "DKG.Abort", "DKG.Contribute"}
Methods == ClientMethods \cup PeerMethods

\* credential kinds: [issued (by the configured CA and valid now), cn (subject of the verified leaf)]
Creds == [
  plaintext                |-> [issued |-> FALSE, cn |-> ""],
  tlsnocert                |-> [issued |-> FALSE, cn |-> ""],
  selfsignedc1             |-> [issued |-> FALSE, cn |-> ""],
  othercac1                |-> [issued |-> FALSE, cn |-> ""],
  othercasigner2           |-> [issued |-> FALSE, cn |-> ""],
  \* issued by an authority of the HOST'S trust store (what the operating system trusts for the web), not by the configured one
  publiccac1               |-> [issued |-> FALSE, cn |-> ""],
  publiccasigner2          |-> [issued |-> FALSE, cn |-> ""],
  expiredc1                |-> [issued |-> FALSE, cn |-> ""],
  \* an other-authority certificate offered together with a TLS session ticket the caller minted itself, under a ticket key derived
  \* from public material (the server's certificates, the authority's certificate, names); a resumed session is admitted on the
  \* ticket alone, so this caller must find no key that the server accepts
  ticketothercac1          |-> [issued |-> FALSE, cn |-> ""],
  ticketothercasigner2     |-> [issued |-> FALSE, cn |-> ""],
  validc1                  |-> [issued |-> TRUE,  cn |-> "c1"],
  validc2                  |-> [issued |-> TRUE,  cn |-> "c2"],
  validnobody              |-> [issued |-> TRUE,  cn |-> "nobody"],
  validsigner2             |-> [issued |-> TRUE,  cn |-> "signer-2"],
  \* the identity is the subject's COMMON NAME as written: alternative names, organisation and unit name nobody, and "C1" is not "c1"
  validc2sanc1             |-> [issued |-> TRUE,  cn |-> "c2"],
  validnobodysansigner2    |-> [issued |-> TRUE,  cn |-> "nobody"],
  validupperc1             |-> [issued |-> TRUE,  cn |-> "C1"],
  \* ... and the WHOLE common name: a name that merely begins with a permitted client's (or a peer's) name, up to a dot, is another name
  validc1dotted            |-> [issued |-> TRUE,  cn |-> "c1.partner.example"],
  validc1trailingdot       |-> [issued |-> TRUE,  cn |-> "c1."],
  validsigner2dotted       |-> [issued |-> TRUE,  cn |-> "signer-2.partner.example"],
  validc2plusselfsignedc1  |-> [issued |-> TRUE,  cn |-> "c2"],
  validc2plusothercac1     |-> [issued |-> TRUE,  cn |-> "c2"],
  validc1plusselfsignedsigner2 |-> [issued |-> TRUE, cn |-> "c1"],
  \* the identity is that of THIS connection's certificate: a caller connecting from the very address (ip:port) that another
  \* caller's connection used a moment ago (port reuse on one host or behind a NAT) is nobody but itself
  validc2afterc1           |-> [issued |-> TRUE,  cn |-> "c2"],
  validc1afterc2           |-> [issued |-> TRUE,  cn |-> "c1"],
  validnobodyaftersigner2  |-> [issued |-> TRUE,  cn |-> "nobody"]
]
CredIds == DOMAIN Creds
Peers == {"signer-1", "signer-2"}
Owner == [c1 |-> "c1", c2 |-> "c2"]       \* target -> the only client that may act on the targeted wallet

\* how the server's own certificate file is set up: a bare leaf issued by the client CA; that leaf with the CA certificate appended;
\* a leaf of ANOTHER hierarchy with its issuer appended (e.g. a public server certificate, private client CA).  Admission of a
\* caller depends on the configured client CA only - never on what happens to be bundled with the server certificate.
ServerModes == {"bare", "samechain", "foreignchain"}
Admitted(c) == Creds[c].issued
\* may a caller with verified name cn obtain data / a state change from method m aimed at target tg?
MayObtain(cn, m, tg) == IF m \in PeerMethods THEN cn \in Peers ELSE cn = Owner[tg]
=============================================================================

------------------------------- MODULE ListTrace -------------------------------
(***************************************************************************)
(* Layer P for C18: listing shows all and only the accounts the client may *)
(* access.  The trace gives the permission configuration (Config), the     *)
(* wallet / account population as it is at that moment (Population; a new  *)
(* line after every dynamic account creation) and list requests with the   *)
(* returned account names (List).                                          *)
(*                                                                         *)
(* The property is two inclusions, not an exact set:                       *)
(*   NoForbidden : every returned account lies in a requested wallet and   *)
(*                 the client may access it (Perms!Decide)                 *)
(*   Complete    : every accessible account of a requested, existing       *)
(*                 wallet whose name matches a requested path as a whole   *)
(*                 is returned                                             *)
(*   OwnKey      : every returned entry carries its own name and key       *)
(* Path patterns come from a catalogue with their intended whole-name      *)
(* matches (case-sensitive, as account names are).                         *)
(***************************************************************************)
EXTENDS Perms, Json

CONSTANTS TraceFile
Trace == ndJsonDeserialize(TraceFile)

\* requested paths: id -> [path (text sent), wallet, m (account names of the catalogue matched as a whole), ok (well formed)]
AllAcc == {"acc", "Acc1", "W", "Wallet1"}
PathCat == [
  w1      |-> [path |-> "Wallet1",          wallet |-> "Wallet1",  m |-> AllAcc,          ok |-> TRUE],
  w2      |-> [path |-> "Wallet2",          wallet |-> "Wallet2",  m |-> AllAcc,          ok |-> TRUE],
  w10     |-> [path |-> "Wallet10/",        wallet |-> "Wallet10", m |-> AllAcc,          ok |-> TRUE],
  w1acc   |-> [path |-> "Wallet1/acc",      wallet |-> "Wallet1",  m |-> {"acc"},         ok |-> TRUE],
  w1accs  |-> [path |-> "Wallet1/[aA]cc.*", wallet |-> "Wallet1",  m |-> {"acc", "Acc1"}, ok |-> TRUE],
  w2alt   |-> [path |-> "Wallet2/Acc1|W",   wallet |-> "Wallet2",  m |-> {"Acc1", "W"},   ok |-> TRUE],
  w2anch  |-> [path |-> "Wallet2/^acc$",    wallet |-> "Wallet2",  m |-> {"acc"},         ok |-> TRUE],
  nowhere |-> [path |-> "Nowhere",          wallet |-> "Nowhere",  m |-> AllAcc,          ok |-> TRUE],
  lower   |-> [path |-> "wallet1",          wallet |-> "wallet1",  m |-> AllAcc,          ok |-> TRUE],
  empty   |-> [path |-> "",                 wallet |-> "",         m |-> {},              ok |-> FALSE],
  badre   |-> [path |-> "Wallet1/[",        wallet |-> "Wallet1",  m |-> {},              ok |-> FALSE],
  slash   |-> [path |-> "/acc",             wallet |-> "",         m |-> {},              ok |-> FALSE]
]

VARIABLES l, cfg, pop, bad,
          free      \* the configuration reached the program through its configuration file: entry order chosen by TLC (Perms!Orders)
vars == <<l, cfg, pop, bad, free>>
Ev == Trace[l]
Is(name) == l <= Len(Trace) /\ Ev.ev = name /\ l' = l + 1

Init == l = 1 /\ cfg = <<>> /\ pop = <<>> /\ bad = {} /\ free = FALSE /\ TLCSet(1, 1)
Unordered(e) == "unordered" \in DOMAIN e /\ e.unordered
Config == /\ Is("Config")
          /\ IF Unordered(Ev) THEN cfg' \in Orders(Ev.cfg) /\ free' = TRUE ELSE cfg' = Ev.cfg /\ free' = FALSE
          /\ UNCHANGED <<pop, bad>>
\* pop : wallet name -> set of account names
Population == Is("Population") /\ pop' = [w \in DOMAIN Ev.pop |-> {Ev.pop[w][i] : i \in 1 .. Len(Ev.pop[w])}] /\ UNCHANGED <<cfg, bad, free>>

Accessible(client, w, a) == Decide(cfg, client, w, a, "Access account")
Requested == {Ev.paths[i] : i \in 1 .. Len(Ev.paths)}
Upper(client) == {<<w, a>> \in UNION {{<<ww, aa>> : aa \in pop[ww]} : ww \in DOMAIN pop} :
                    /\ \E p \in Requested : PathCat[p].wallet = w
                    /\ Accessible(client, w, a)}
Lower(client) == {<<w, a>> \in UNION {{<<ww, aa>> : aa \in pop[ww]} : ww \in DOMAIN pop} :
                    /\ \E p \in Requested : PathCat[p].ok /\ PathCat[p].wallet = w /\ a \in PathCat[p].m
                    /\ Accessible(client, w, a)}
Returned == {<<Ev.result[i].w, Ev.result[i].a>> : i \in 1 .. Len(Ev.result)}

\* (for a run against the real binary the two inclusions are guards: the run is explained if ONE entry order explains all of it)
List == /\ Is("List")
        /\ free => (Returned \subseteq Upper(Ev.client) /\ Lower(Ev.client) \subseteq Returned)
        /\ bad' = bad \cup (IF free THEN {} ELSE {<<"forbidden", l, x>> : x \in Returned \ Upper(Ev.client)})
                      \cup (IF free THEN {} ELSE {<<"missing", l, x>> : x \in Lower(Ev.client) \ Returned})
                      \cup (IF Ev.keysok THEN {} ELSE {<<"key", l>>})
        /\ UNCHANGED <<cfg, pop, free>>
Other == l <= Len(Trace) /\ Ev.ev \notin {"Config", "Population", "List"} /\ l' = l + 1 /\ UNCHANGED <<cfg, pop, bad, free>>
Next == Config \/ Population \/ List \/ Other
Spec == Init /\ [][Next]_vars
HighWater == TLCSet(1, IF l > TLCGet(1) THEN l ELSE TLCGet(1))
Accepted == IF TLCGet(1) = Len(Trace) + 1 THEN TRUE ELSE PrintT(<<"HIGHWATER", TLCGet(1)>>) /\ FALSE
NoForbidden == \A b \in bad : b[1] # "forbidden"
Complete == \A b \in bad : b[1] # "missing"
OwnKey == \A b \in bad : b[1] # "key"
=============================================================================

------------------------------ MODULE SlashRules ------------------------------
(***************************************************************************)
(* The sequential slashing rules of Dirk as pure operators over an         *)
(* abstract epoch / slot domain (see DESIGN.md 3.1, 3.2).                  *)
(*                                                                         *)
(* Abstract values E = 0 .. 2*MaxI+1.  MaxI stands for 2^63-1: the lower   *)
(* half 0..MaxI stands for [0, 2^63-1], the upper half for [2^63, 2^64-1]  *)
(* (so 2*MaxI+1 stands for 2^64-1).  The code stores watermarks as int64   *)
(* with -1 (any negative value) meaning "nothing signed"; ToI64 is the     *)
(* code's uint64 -> int64 conversion.                                      *)
(*                                                                         *)
(* Transcribed from rules/standard/signbeaconattestations.go               *)
(* (runSignBeaconAttestationChecks), signbeaconattestation.go,             *)
(* signbeaconproposal.go, sign.go.  Boolean constants switch on plausible  *)
(* design defects ("design mutants", DESIGN.md 2.3); the shipped           *)
(* configuration has every defence on.                                     *)
(***************************************************************************)
EXTENDS Integers, Sequences, FiniteSets, Slashable

CONSTANTS
    MaxI,           \* abstract value standing for 2^63-1
    EpochGuard,     \* TRUE: epochs/slots above MaxI are denied (the fix); FALSE: pre-fix wrap
    ZeroIsNone,     \* mutant TRUE: "> 0" instead of ">= 0" decides that something was signed
    TargetGE,       \* mutant TRUE: target check is "<" instead of "<="
    SourceChecked,  \* mutant FALSE: the source watermark is not checked
    SourceStrict,   \* mutant TRUE: source must be strictly greater than the watermark
    PropGE,         \* mutant TRUE: slot check is "<" instead of "<="
    GenesisRule,    \* mutant FALSE: (0,0) is not accepted
    DeniedKeepsState, \* mutant FALSE: a request refused by the SOURCE check leaves its (already raised) target in the record
    GenericDeniesSlashable, \* mutant FALSE: generic endpoint signs attester/proposer domains
    AttestChecksDomain,     \* mutant FALSE: attestation/proposal endpoints accept any domain
    ExitIPCheck             \* "exact" (shipped: the source address must EQUAL an entry of the administrator list) | "none" (mutant: voluntary
                            \* exits signed for any source address) | "prefix" (mutant: an entry that is a textual prefix of the address suffices)

E == 0 .. (2 * MaxI + 1)
Stored == (0 - MaxI - 1) .. MaxI          \* int64 values that can be on disk
ToI64(e) == IF e <= MaxI THEN e ELSE e - 2 * (MaxI + 1)
Some(v) == IF ZeroIsNone THEN v > 0 ELSE v >= 0

NoneAtt == [s |-> -1, t |-> -1]
NonePs == -1

(* ---- attestations -------------------------------------------------------- *)
AttShapeOK(s, t) == IF GenesisRule THEN ~((s # 0 \/ t # 0) /\ t <= s) ELSE t > s

AttApproved(st, s, t, dom) ==
    /\ (AttestChecksDomain => dom = "att")
    /\ AttShapeOK(s, t)
    /\ (EpochGuard => (s <= MaxI /\ t <= MaxI))
    /\ (Some(st.t) => (IF TargetGE THEN t >= st.t ELSE t > st.t))
    /\ ((SourceChecked /\ Some(st.s)) => (IF SourceStrict THEN s > st.s ELSE s >= st.s))

AttVerdict(st, s, t, dom) == IF AttApproved(st, s, t, dom) THEN "APPROVED" ELSE "DENIED"
TargetPassed(st, s, t, dom) ==
    /\ (AttestChecksDomain => dom = "att") /\ AttShapeOK(s, t) /\ (EpochGuard => (s <= MaxI /\ t <= MaxI))
    /\ (Some(st.t) => (IF TargetGE THEN t >= st.t ELSE t > st.t))
AttNext(st, s, t, dom) == IF AttApproved(st, s, t, dom) THEN [s |-> ToI64(s), t |-> ToI64(t)]
                          ELSE IF ~DeniedKeepsState /\ TargetPassed(st, s, t, dom) THEN [st EXCEPT !.t = ToI64(t)]
                          ELSE st

(* ---- proposals ----------------------------------------------------------- *)
PropApproved(ps, slot, dom) ==
    /\ (AttestChecksDomain => dom = "prop")
    /\ (EpochGuard => slot <= MaxI)
    /\ (Some(ps) => (IF PropGE THEN slot >= ps ELSE slot > ps))

PropVerdict(ps, slot, dom) == IF PropApproved(ps, slot, dom) THEN "APPROVED" ELSE "DENIED"
PropNext(ps, slot, dom) == IF PropApproved(ps, slot, dom) THEN ToI64(slot) ELSE ps

(* ---- generic signing ----------------------------------------------------- *)
\* ip in IPClasses relative to the configured administrator list: "near" = an address that is NOT listed but whose text begins with
\* a listed entry (10.0.0.10 next to 10.0.0.1) or differs from one in a single character
IPClasses == {"none", "listed", "unlisted", "near"}
GenericApproved(dom, ip) ==
    /\ (GenericDeniesSlashable => dom \notin {"att", "prop"})
    /\ ((ExitIPCheck # "none" /\ dom = "exit") => (ip = "listed" \/ (ExitIPCheck = "prefix" /\ ip = "near")))

\* Message SHAPE: data root and domain are 32 bytes each.  "shiftK:cls" stands for a request whose data is K bytes short and whose
\* domain is K bytes long, the last 32 bytes of data||domain being a domain of class cls (the boundary between the two fields moved):
\* it is not a well-formed signing request and nothing is signed for it - in particular not the message (data||domain)[0..31] under
\* the slashable domain cls.
ShiftedDoms == {"shift4:att", "shift4:prop", "shift1:att", "shift31:prop", "shift16:att", "shift4:exit", "shift4:randao"}
GenericVerdict(dom, ip) == IF dom \in ShiftedDoms THEN "FAILED" ELSE IF GenericApproved(dom, ip) THEN "APPROVED" ELSE "DENIED"

=============================================================================

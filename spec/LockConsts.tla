------------------------------ MODULE LockConsts ------------------------------
(* Constant values for the exhaustive check (MCLock) and the simulation (MCLockSim) of LockState. *)
MCInitial == {"a0", "a1"}
MCCreatable == {"n1"}
MCPassOf0 == [a \in MCInitial |-> IF a = "a0" THEN "pass" ELSE "other"]
MCKnown == {"pass"}
MCPasses == {"pass", "other", "wrong"}
MCClients == {"c1", "zz"}
MCAllowed == {"c1"}
=============================================================================

------------------------------ MODULE DkgSession ------------------------------
(* Writes the complete transition relation of DkgSessionRules as JSON and checks that the statement of C17 holds of it. *)
EXTENDS DkgSessionRules, Json
CONSTANTS OutFile
Enc(st) == [a \in Accts |-> [active |-> st[a].active, got |-> st[a].got, exists |-> st[a].exists]]
Table == {[from |-> Enc(st), msg |-> msg, class |-> Step(st, msg).class, to |-> Enc(Step(st, msg).next)] : st \in States, msg \in Msgs}

\* the statement of C17 holds of the table itself
OnePerAccount == \A st \in States, a \in Accts : st[a].active => Step(st, [m |-> "prepare", a |-> a, from |-> 0]).class = "refused"
                                                               /\ Step(st, [m |-> "prepare", a |-> a, from |-> 0]).next = st
NeedsSession == \A st \in States, a \in Accts, m \in {"execute", "commit", "abort"} :
                    ~st[a].active => Step(st, [m |-> m, a |-> a, from |-> 0]).class = "refused"
CommitNeedsAll == \A st \in States, a \in Accts :
                    Step(st, [m |-> "commit", a |-> a, from |-> 0]).class = "ok" => (st[a].active /\ st[a].got = Lower)
GoneAfterEnd == \A st \in States, a \in Accts, m \in {"commit", "abort"} :
                    LET r == Step(st, [m |-> m, a |-> a, from |-> 0]) IN r.class = "ok" => ~r.next[a].active
ASSUME OnePerAccount /\ NeedsSession /\ CommitNeedsAll /\ GoneAfterEnd
ASSUME JsonSerialize(OutFile, [table |-> Table, count |-> Cardinality(Table)])
VARIABLE x
Init == x = 0
Next == UNCHANGED x
Spec == Init /\ [][Next]_x
=============================================================================

------------------------------- MODULE SlashSeq -------------------------------
(***************************************************************************)
(* One key, requests processed one at a time (the sequential meaning of    *)
(* the signing endpoints).  Every history of attestation / proposal /      *)
(* generic requests over the whole abstract epoch domain, with restarts in *)
(* between.  Decides, on the model: C01, C02 (NoSlashable..), C09 first    *)
(* half (AdvancingSigned), C05 (routing by domain).                        *)
(*                                                                         *)
(* Ghost state: two "witness" slots that may remember any released         *)
(* message (so every pair of released messages is compared by some         *)
(* behaviour without keeping unbounded history), the maxima of what was    *)
(* released, and the request-time floor used for "strictly increasing".    *)
(***************************************************************************)
EXTENDS SlashRules, TLC

CONSTANTS Roots,        \* e.g. {"A","B"}
          AttDoms,      \* domain classes offered to the attestation endpoint, e.g. {"att","other"}
          PropDoms,     \* ... to the proposal endpoint
          GenDoms,      \* ... to the generic endpoint, e.g. {"att","prop","exit","randao"}
          Kinds         \* subset of {"att","prop","gen"}: which endpoints this configuration exercises

VARIABLES db,           \* [s, t, ps]  the key's record on disk
          wa1, wa2,     \* witness slots for released attestations ([s,t,root] or NoA)
          wp1, wp2,     \* witness slots for released proposals    ([slot,root] or NoP)
          mrs, mrt, mrp \* maxima of released source / target / slot (-1 = none)

vars == <<db, wa1, wa2, wp1, wp2, mrs, mrt, mrp>>

Max(a, b) == IF a >= b THEN a ELSE b
NoA == [s |-> -9, t |-> -9, root |-> "none"]      \* empty attestation witness slot
NoP == [slot |-> -9, root |-> "none"]             \* empty proposal witness slot

Init == /\ db = [s |-> -1, t |-> -1, ps |-> -1]
        /\ wa1 = NoA /\ wa2 = NoA /\ wp1 = NoP /\ wp2 = NoP
        /\ mrs = -1 /\ mrt = -1 /\ mrp = -1

\* remember (or not) a released message in a witness slot
RememberAtt(m) == \/ wa1' = m /\ wa2' = wa2
                  \/ wa2' = m /\ wa1' = wa1
                  \/ UNCHANGED <<wa1, wa2>>
RememberProp(m) == \/ wp1' = m /\ wp2' = wp2
                   \/ wp2' = m /\ wp1' = wp1
                   \/ UNCHANGED <<wp1, wp2>>

Att(s, t, root, dom) ==
    LET st == [s |-> db.s, t |-> db.t]
        v  == AttVerdict(st, s, t, dom)
        nx == AttNext(st, s, t, dom)
    IN /\ "att" \in Kinds
       /\ db' = [db EXCEPT !.s = nx.s, !.t = nx.t]
       /\ IF v = "APPROVED"
            THEN /\ RememberAtt([s |-> s, t |-> t, root |-> root])
                 /\ mrs' = Max(mrs, s) /\ mrt' = Max(mrt, t)
            ELSE UNCHANGED <<wa1, wa2, mrs, mrt>>
       /\ UNCHANGED <<wp1, wp2, mrp>>

Prop(slot, root, dom) ==
    LET v == PropVerdict(db.ps, slot, dom)
    IN /\ "prop" \in Kinds
       /\ db' = [db EXCEPT !.ps = PropNext(db.ps, slot, dom)]
       /\ IF v = "APPROVED"
            THEN /\ RememberProp([slot |-> slot, root |-> root])
                 /\ mrp' = Max(mrp, slot)
            ELSE UNCHANGED <<wp1, wp2, mrp>>
       /\ UNCHANGED <<wa1, wa2, mrs, mrt>>

Next == \/ \E s, t \in E, root \in Roots, dom \in AttDoms : Att(s, t, root, dom)
        \/ \E slot \in E, root \in Roots, dom \in PropDoms : Prop(slot, root, dom)

Spec == Init /\ [][Next]_vars

(* ---- properties ----------------------------------------------------------- *)
\* C01
NoSlashableAtt == (wa1 # NoA /\ wa2 # NoA) => ~SlashableAtt(wa1, wa2)
\* C02
NoDoubleProposal == (wp1 # NoP /\ wp2 # NoP) => ~SlashableProp(wp1, wp2)
\* C02, stronger half: whatever proposal is approvable now is above everything released so far
ProposalSlotsIncrease == \A slot \in E, dom \in PropDoms : PropVerdict(db.ps, slot, dom) = "APPROVED" => slot > mrp
\* C09, first half: a well-formed advancing duty (epochs below 2^63) is approved in every reachable state
AdvancingSigned ==
    /\ \A s, t \in 0 .. MaxI :
          ((t > s \/ (s = 0 /\ t = 0)) /\ t > mrt /\ s >= mrs) => AttVerdict([s |-> db.s, t |-> db.t], s, t, "att") = "APPROVED"
    /\ \A slot \in 0 .. MaxI : slot > mrp => PropVerdict(db.ps, slot, "prop") = "APPROVED"
\* C05 at rule level, in every reachable state and for every request
RoutedByDomain ==
    /\ \A dom \in GenDoms, ip \in IPClasses :
          /\ dom \in {"att", "prop"} => GenericVerdict(dom, ip) = "DENIED"
          /\ (dom = "exit" /\ ip # "listed") => GenericVerdict(dom, ip) = "DENIED"
          /\ (dom \notin {"att", "prop", "exit"} \/ (dom = "exit" /\ ip = "listed")) => GenericVerdict(dom, ip) = "APPROVED"
    /\ \A s, t \in E, dom \in AttDoms \ {"att"} :
          LET st == [s |-> db.s, t |-> db.t] IN AttVerdict(st, s, t, dom) = "DENIED" /\ AttNext(st, s, t, dom) = st
    /\ \A slot \in E, dom \in PropDoms \ {"prop"} :
          PropVerdict(db.ps, slot, dom) = "DENIED" /\ PropNext(db.ps, slot, dom) = db.ps
\* auxiliary: the record on disk covers everything released
Covered == /\ mrs <= Max(db.s, -1) /\ mrt <= Max(db.t, -1) /\ mrp <= Max(db.ps, -1)
\* watermarks never move backwards (C10/C11 ingredient), as an action property
Monotone == [][db'.t >= db.t /\ db'.s >= db.s /\ db'.ps >= db.ps]_vars
=============================================================================

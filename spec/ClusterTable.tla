------------------------------ MODULE ClusterTable ------------------------------
(* Writes every routing (instance -> request order) for the replay of C14 on real clusters. *)
EXTENDS Cluster
ASSUME JsonSerialize(OutFile, [routings |-> {[i \in I |-> r[i]] : r \in Routings}, n |-> N, t |-> T])
=============================================================================

------------------------------ MODULE Interchange ------------------------------
(***************************************************************************)
(* C10 / C11: slashing-protection interchange (import / export) for one    *)
(* key.  Transcribed from slashingprotection.go (storeSlashingProtection,  *)
(* fetchSlashingProtection) and rules/standard/slashingprotection.go       *)
(* (Import/ExportSlashingProtection).                                      *)
(*                                                                         *)
(* A file is a sequence of entries for the key (repeated entries allowed), *)
(* each with at most one attestation and one block (several attestations   *)
(* in one entry behave like several entries; the harness renders a model   *)
(* file both ways), plus metadata (version, genesis root) and a            *)
(* "malformed number" flag.  Design mutants: MergeMode, DupKeys.           *)
(***************************************************************************)
EXTENDS SlashRules, TLC

CONSTANTS V,            \* values that may appear in files and records, e.g. 0..2
          MaxEntries,
          MergeMode,    \* "max" (shipped) | "allOrNothing" (pre-fix) | "overwrite"
          DupKeys,      \* "merge" (shipped) | "lastWins" (pre-fix) | "lastWinsIfExisting"
          WriteErrorReported \* FALSE (mutant): a record write that fails during the import is swallowed and the import reports success

NoAtt == [s |-> -1, t |-> -1]
Entries == [att : {NoAtt} \cup [s : V, t : V], slot : {-1} \cup V]
Max(a, b) == IF a >= b THEN a ELSE b

VARIABLES db,       \* [s, t, ps]
          file,     \* Seq(Entries)
          meta,     \* "ok" | "badversion" | "badroot" | "badnumber" | "unstorable" (the file also names a key the store refuses to
                    \* write - e.g. one whose bytes begin with the storage engine's reserved prefix: the write loop stops there,
                    \* with this key's record written or not, depending on where the loop was)
          phase,    \* "build" | "imported" | "rejected" | "failed"
          before    \* db before the import
vars == <<db, file, meta, phase, before>>

Init == /\ db \in [s : {-1} \cup V, t : {-1} \cup V, ps : {-1} \cup V]
        /\ (db.s = -1) = (db.t = -1)
        /\ file = <<>> /\ meta \in {"ok", "badversion", "badroot", "badnumber", "unstorable"} /\ phase = "build" /\ before = db

AddEntry == /\ phase = "build" /\ Len(file) < MaxEntries
            /\ \E e \in Entries : file' = Append(file, e)
            /\ UNCHANGED <<db, meta, phase, before>>

\* what storeSlashingProtection computes for the key
EntryRec(e) == [s |-> e.att.s, t |-> e.att.t, ps |-> e.slot]
MaxRec(a, b) == [s |-> Max(a.s, b.s), t |-> Max(a.t, b.t), ps |-> Max(a.ps, b.ps)]
RECURSIVE Fold(_, _)
Fold(acc, es) == IF es = <<>> THEN acc ELSE Fold(MaxRec(acc, EntryRec(Head(es))), Tail(es))
\* (parametrised by the design switches so that InterchangeDiff can compare designs on the same input)
NoRec == [s |-> -1, t |-> -1, ps |-> -1]
FileRecOf(dk, f, d) ==
    IF dk = "merge" THEN Fold(NoRec, f)
    ELSE IF dk = "lastWins" THEN EntryRec(f[Len(f)])
    ELSE IF d = NoRec THEN Fold(NoRec, f) ELSE EntryRec(f[Len(f)])   \* "lastWinsIfExisting": earlier entries are consulted only when nothing is on record
MergedOf(mm, dk, d, f) ==
    LET r == FileRecOf(dk, f, d) IN
    IF mm = "max" THEN MaxRec(d, r)
    ELSE IF mm = "overwrite" THEN r
    ELSE IF d.s <= r.s /\ d.t <= r.t /\ d.ps <= r.ps THEN r ELSE d     \* all or nothing
\* rules.ImportSlashingProtection: the slot is written if present, the pair if its source is present
WrittenOf(d, m) == [s |-> IF m.s # -1 THEN m.s ELSE d.s, t |-> IF m.s # -1 THEN m.t ELSE d.t, ps |-> IF m.ps # -1 THEN m.ps ELSE d.ps]
FileRec == FileRecOf(DupKeys, file, db)
Merged == MergedOf(MergeMode, DupKeys, db, file)
Written(m) == WrittenOf(db, m)

Import == /\ phase = "build" /\ file # <<>>
          /\ IF meta = "ok"
               THEN db' = Written(Merged) /\ phase' = "imported"
               ELSE IF meta = "unstorable"
               THEN /\ db' \in {db, Written(Merged)}       \* the loop stopped before or after this key
                    /\ phase' = IF WriteErrorReported THEN "failed" ELSE "imported"
               ELSE db' = db /\ phase' = "rejected"
          /\ UNCHANGED <<file, meta, before>>

Next == AddEntry \/ Import
Spec == Init /\ [][Next]_vars

(* ---- C10 ---- *)
FileSlots == {file[i].slot : i \in 1 .. Len(file)} \ {-1}
FileAtts == {file[i].att : i \in 1 .. Len(file)} \ {NoAtt}
\* after a successful import every proposal / attestation at or below anything in the file or the earlier
\* history is refused by the rules
CoversOf(after, bef, f) ==
    LET slots == {f[i].slot : i \in 1 .. Len(f)} \ {-1}
        atts == {f[i].att : i \in 1 .. Len(f)} \ {NoAtt}
    IN /\ \A slot \in V : (\E x \in slots \cup {bef.ps} : slot <= x) => PropVerdict(after.ps, slot, "prop") = "DENIED"
       /\ \A s, t \in V : ((\E a \in atts \cup {[s |-> bef.s, t |-> bef.t]} : t <= a.t \/ s < a.s))
                             => AttVerdict([s |-> after.s, t |-> after.t], s, t, "att") = "DENIED"
ImportCovers == phase = "imported" => CoversOf(db, before, file)
NeverLowers == phase \in {"imported", "failed"} => (db.s >= before.s /\ db.t >= before.t /\ db.ps >= before.ps)
RejectedChangesNothing == phase = "rejected" => db = before

(* ---- C11 ---- *)
\* what an export states for the key, and what importing it into an empty database gives
ExportOf(d) == [att |-> IF d.s # -1 THEN [s |-> d.s, t |-> d.t] ELSE NoAtt, slot |-> d.ps]
ImportIntoEmpty(e) == [s |-> e.att.s, t |-> e.att.t, ps |-> e.slot]
DecidesSame(a, b) ==
    /\ \A slot \in E : PropVerdict(a.ps, slot, "prop") = PropVerdict(b.ps, slot, "prop")
    /\ \A s, t \in E : AttVerdict([s |-> a.s, t |-> a.t], s, t, "att") = AttVerdict([s |-> b.s, t |-> b.t], s, t, "att")
ExportRoundTrip == DecidesSame(ImportIntoEmpty(ExportOf(db)), db)
=============================================================================

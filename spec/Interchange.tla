------------------------------ MODULE Interchange ------------------------------
(***************************************************************************)
(* C10 / C11: slashing-protection interchange (import / export) for one    *)
(* key.  Transcribed from slashingprotection.go (storeSlashingProtection,  *)
(* fetchSlashingProtection) and rules/standard/slashingprotection.go       *)
(* (Import/ExportSlashingProtection).                                      *)
(*                                                                         *)
(* A file is a sequence of entries for the key (repeated entries allowed), *)
(* each with at most one attestation and one block (several attestations   *)
(* in one entry behave like several entries; the harness renders a model   *)
(* file both ways), plus metadata (version, genesis root) and a            *)
(* "malformed number" flag.  Design mutants: MergeMode, DupKeys.           *)
(***************************************************************************)
EXTENDS SlashRules, TLC

CONSTANTS V,            \* values that may appear in files and records, e.g. 0..2
          MaxEntries,
          MergeMode,    \* "max" (shipped) | "allOrNothing" (pre-fix) | "overwrite"
          DupKeys       \* "merge" (shipped) | "lastWins" (pre-fix)

NoAtt == [s |-> -1, t |-> -1]
Entries == [att : {NoAtt} \cup [s : V, t : V], slot : {-1} \cup V]
Max(a, b) == IF a >= b THEN a ELSE b

VARIABLES db,       \* [s, t, ps]
          file,     \* Seq(Entries)
          meta,     \* "ok" | "badversion" | "badroot" | "badnumber"
          phase,    \* "build" | "imported" | "rejected"
          before    \* db before the import
vars == <<db, file, meta, phase, before>>

Init == /\ db \in [s : {-1} \cup V, t : {-1} \cup V, ps : {-1} \cup V]
        /\ (db.s = -1) = (db.t = -1)
        /\ file = <<>> /\ meta \in {"ok", "badversion", "badroot", "badnumber"} /\ phase = "build" /\ before = db

AddEntry == /\ phase = "build" /\ Len(file) < MaxEntries
            /\ \E e \in Entries : file' = Append(file, e)
            /\ UNCHANGED <<db, meta, phase, before>>

\* what storeSlashingProtection computes for the key
EntryRec(e) == [s |-> e.att.s, t |-> e.att.t, ps |-> e.slot]
MaxRec(a, b) == [s |-> Max(a.s, b.s), t |-> Max(a.t, b.t), ps |-> Max(a.ps, b.ps)]
RECURSIVE Fold(_, _)
Fold(acc, es) == IF es = <<>> THEN acc ELSE Fold(MaxRec(acc, EntryRec(Head(es))), Tail(es))
FileRec == IF DupKeys = "merge" THEN Fold([s |-> -1, t |-> -1, ps |-> -1], file)
           ELSE EntryRec(file[Len(file)])
Merged ==
    LET f == FileRec IN
    IF MergeMode = "max" THEN MaxRec(db, f)
    ELSE IF MergeMode = "overwrite" THEN f
    ELSE IF db.s <= f.s /\ db.t <= f.t /\ db.ps <= f.ps THEN f ELSE db     \* all or nothing
\* rules.ImportSlashingProtection: the slot is written if present, the pair if its source is present
Written(m) == [s |-> IF m.s # -1 THEN m.s ELSE db.s, t |-> IF m.s # -1 THEN m.t ELSE db.t, ps |-> IF m.ps # -1 THEN m.ps ELSE db.ps]

Import == /\ phase = "build" /\ file # <<>>
          /\ IF meta = "ok"
               THEN db' = Written(Merged) /\ phase' = "imported"
               ELSE db' = db /\ phase' = "rejected"
          /\ UNCHANGED <<file, meta, before>>

Next == AddEntry \/ Import
Spec == Init /\ [][Next]_vars

(* ---- C10 ---- *)
FileSlots == {file[i].slot : i \in 1 .. Len(file)} \ {-1}
FileAtts == {file[i].att : i \in 1 .. Len(file)} \ {NoAtt}
\* after a successful import every proposal / attestation at or below anything in the file or the earlier
\* history is refused by the rules
ImportCovers ==
    phase = "imported" =>
        /\ \A slot \in V : (\E x \in FileSlots \cup {before.ps} : slot <= x) => PropVerdict(db.ps, slot, "prop") = "DENIED"
        /\ \A s, t \in V : ((\E a \in FileAtts \cup {[s |-> before.s, t |-> before.t]} : t <= a.t \/ s < a.s))
                              => AttVerdict([s |-> db.s, t |-> db.t], s, t, "att") = "DENIED"
NeverLowers == phase = "imported" => (db.s >= before.s /\ db.t >= before.t /\ db.ps >= before.ps)
RejectedChangesNothing == phase = "rejected" => db = before

(* ---- C11 ---- *)
\* what an export states for the key, and what importing it into an empty database gives
ExportOf(d) == [att |-> IF d.s # -1 THEN [s |-> d.s, t |-> d.t] ELSE NoAtt, slot |-> d.ps]
ImportIntoEmpty(e) == [s |-> e.att.s, t |-> e.att.t, ps |-> e.slot]
DecidesSame(a, b) ==
    /\ \A slot \in E : PropVerdict(a.ps, slot, "prop") = PropVerdict(b.ps, slot, "prop")
    /\ \A s, t \in E : AttVerdict([s |-> a.s, t |-> a.t], s, t, "att") = AttVerdict([s |-> b.s, t |-> b.t], s, t, "att")
ExportRoundTrip == DecidesSame(ImportIntoEmpty(ExportOf(db)), db)
=============================================================================

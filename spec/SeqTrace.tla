------------------------------- MODULE SeqTrace -------------------------------
(***************************************************************************)
(* Layer P (property level) trace specification for the signing endpoints. *)
(* It reads a recorded run of the real code (events Begin, Floor, Invoke,  *)
(* Release, Respond with abstract epochs) and constrains it by nothing but *)
(* the property statements:                                                *)
(*  C01 NoSlashableAtt   no two released attestations of a key are a       *)
(*                       double vote or a surround                         *)
(*  C02 NoDoubleProposal no two different released proposals share a slot  *)
(*      SlotsIncrease    a released proposal is above every slot released  *)
(*                       by requests already answered when it was invoked  *)
(*  C05 Routed           a signature under an attester / proposer domain   *)
(*                       type comes from the matching protected endpoint   *)
(*                       only; those endpoints sign nothing else; exits    *)
(*                       are signed only for listed source addresses       *)
(*  C06 SigIffSucceeded  a response entry carries a signature iff its      *)
(*                       state is SUCCEEDED                                *)
(*      FailClosed       no signature for a request / position at which a  *)
(*                       dependency failed (Fault events)                  *)
(*  C03 DurableCovered   every export (also after kill + restart) covers   *)
(*                       every duty for which a signature was produced     *)
(*  C10 AboveFloor       nothing at or below a floor (prior history, imported *)
(*                       file) is signed; DbPairsHold: an import never     *)
(*                       lowers a record / a rejected import changes none  *)
(*  C11 ExportFaithful   exported values = highest signed values;          *)
(*      SamePairsHold    original and re-imported instance decide alike    *)
(*  C08 SigForRequest    every returned signature verifies for the entry  *)
(*                       at its own position (key of the addressed account,*)
(*                       signing root of exactly the submitted data); one  *)
(*                       response entry per request                        *)
(*  C09 AdvancingSigned  a well-formed, authorised duty above everything   *)
(*                       signed before is signed (sequential, fault-free   *)
(*                       runs only: the Invoke event says so)              *)
(* A released signature is one that VERIFIED (independent oracle) for the  *)
(* stated key and message.  Many runs are concatenated; Begin resets.      *)
(***************************************************************************)
EXTENDS Integers, Sequences, FiniteSets, TLC, Json, Slashable

CONSTANTS TraceFile, MaxI
Trace == ndJsonDeserialize(TraceFile)

VARIABLES l,       \* next line of the trace
          relA,    \* released attestations: [k, s, t, root]
          relP,    \* released proposals:    [k, slot, root, r]
          doneP,   \* proposals released by requests already answered: set of [k, slot]
          floor,   \* r -> doneP as it was when r was invoked
          hiS, hiT, hiP, \* key -> highest source / target / slot signed (or present in the database at start)
          snap,    \* r -> [s, t, p] : the three functions above as they were when r was invoked
          req,     \* r -> the Invoke event
          produced,\* duties for which a signature has been produced (signRoot returned), released or not
          fpos,    \* faulted positions <<r, i>> (i = 0: the whole request) as reported by Fault events
          bad      \* set of violation descriptions found at Respond / Release
vars == <<l, relA, relP, doneP, floor, hiS, hiT, hiP, snap, req, produced, fpos, bad>>

Ev == Trace[l]
Is(name) == l <= Len(Trace) /\ Ev.ev = name /\ l' = l + 1
Max(a, b) == IF a >= b THEN a ELSE b
Get(f, k) == IF k \in DOMAIN f THEN f[k] ELSE -1
Put(f, k, v) == [x \in (DOMAIN f) \cup {k} |-> IF x = k THEN v ELSE f[x]]

Init == /\ l = 1 /\ relA = {} /\ relP = {} /\ doneP = {} /\ floor = <<>>
        /\ hiS = <<>> /\ hiT = <<>> /\ hiP = <<>> /\ snap = <<>> /\ req = <<>> /\ produced = {} /\ fpos = {} /\ bad = {}
        /\ TLCSet(1, 1)

Begin == /\ Is("Begin")
         /\ relA' = {} /\ relP' = {} /\ doneP' = {} /\ floor' = <<>>
         /\ hiS' = <<>> /\ hiT' = <<>> /\ hiP' = <<>> /\ snap' = <<>> /\ req' = <<>> /\ fpos' = {} /\ produced' = {}
         /\ UNCHANGED bad

\* Floor: what the database already held for a key when the run started (prior records).
FloorEv == /\ Is("Floor")
           /\ hiS' = Put(hiS, Ev.k, Max(Get(hiS, Ev.k), Ev.s))
           /\ hiT' = Put(hiT, Ev.k, Max(Get(hiT, Ev.k), Ev.t))
           /\ hiP' = Put(hiP, Ev.k, Max(Get(hiP, Ev.k), Ev.slot))
           /\ UNCHANGED <<relA, relP, doneP, floor, snap, req, produced, fpos, bad>>

Invoke == /\ Is("Invoke")
          /\ floor' = Put(floor, Ev.r, doneP)
          /\ snap' = Put(snap, Ev.r, [s |-> hiS, t |-> hiT, p |-> hiP])
          /\ req' = Put(req, Ev.r, Ev)
          /\ UNCHANGED <<relA, relP, doneP, hiS, hiT, hiP, produced, fpos, bad>>

RouteOK(e) ==
    /\ (e.kind = "att") => e.dom = "att"
    /\ (e.kind = "prop") => e.dom = "prop"
    /\ (e.kind = "gen") => e.dom \notin {"att", "prop"}
    /\ (e.kind = "gen" /\ e.dom = "exit") => e.ip = "listed"

Release == /\ Is("Release")
           /\ \/ /\ Ev.kind = "att"
                 /\ relA' = relA \cup {[k |-> Ev.k, s |-> Ev.s, t |-> Ev.t, root |-> Ev.root]}
                 /\ hiS' = Put(hiS, Ev.k, Max(Get(hiS, Ev.k), Ev.s))
                 /\ hiT' = Put(hiT, Ev.k, Max(Get(hiT, Ev.k), Ev.t))
                 /\ UNCHANGED <<relP, hiP>>
              \/ /\ Ev.kind = "prop"
                 /\ relP' = relP \cup {[k |-> Ev.k, slot |-> Ev.slot, root |-> Ev.root, r |-> Ev.r]}
                 /\ hiP' = Put(hiP, Ev.k, Max(Get(hiP, Ev.k), Ev.slot))
                 /\ UNCHANGED <<relA, hiS, hiT>>
              \/ /\ Ev.kind \notin {"att", "prop"}
                 /\ UNCHANGED <<relA, relP, hiS, hiT, hiP>>
           /\ bad' = bad \cup (IF RouteOK(Ev) THEN {} ELSE {<<"route", l>>})
                         \cup (IF Ev.pos # Ev.i THEN {<<"misaligned", l>>} ELSE {})
                         \cup (IF Ev.kind = "att" /\ (Ev.t <= Get(hiT, Ev.k) \/ Ev.s < Get(hiS, Ev.k)) THEN {<<"floor", l>>} ELSE {})
                         \cup (IF Ev.kind = "prop" /\ Ev.slot <= Get(hiP, Ev.k) THEN {<<"floor", l>>} ELSE {})
                         \cup (IF <<Ev.r, 0>> \in fpos \/ <<Ev.r, Ev.i + 1>> \in fpos THEN {<<"failclosed", l>>} ELSE {})
           /\ UNCHANGED <<doneP, floor, snap, req, produced, fpos>>

\* C09: entry i of request q (invoked with snapshot sn) had to be signed
AttAdvancing(e, sn) == /\ e.dom = "att" /\ e.s <= MaxI /\ e.t <= MaxI
                       /\ (e.t > e.s \/ (e.s = 0 /\ e.t = 0))
                       /\ e.t > Get(sn.t, e.k) /\ e.s >= Get(sn.s, e.k)
PropAdvancing(e, sn) == e.dom = "prop" /\ e.slot <= MaxI /\ e.slot > Get(sn.p, e.k)
MustSign(q, e, sn) == /\ q.wf
                      /\ \/ q.kind \in {"att", "atts"} /\ AttAdvancing(e, sn)
                         \/ q.kind = "prop" /\ PropAdvancing(e, sn)

RefusedForWhatItIs(q, e) ==
    \/ q.kind \in {"att", "atts"} /\ (e.dom # "att" \/ ~(e.t > e.s \/ (e.s = 0 /\ e.t = 0)))
    \/ q.kind = "prop" /\ e.dom # "prop"
    \/ q.kind \in {"gen", "multi"} /\ e.dom \in {"att", "prop"}
Respond ==
    /\ Is("Respond")
    /\ doneP' = doneP \cup {[k |-> p.k, slot |-> p.slot] : p \in {q \in relP : q.r = Ev.r}}
    /\ LET q == req[Ev.r]
           sn == snap[Ev.r]
           n == Len(Ev.res)
           c09 == IF Ev.r \in DOMAIN req /\ Len(q.ents) = n
                    THEN {<<"advancing", l, i>> : i \in {j \in 1 .. n : MustSign(q, q.ents[j], sn) /\ Ev.res[j] # "SUCCEEDED"}}
                    ELSE {}
           c08 == IF Ev.r \in DOMAIN req /\ Len(q.ents) # n THEN {<<"resplen", l>>} ELSE {}
           \* C08 "entry i is the verdict ... for request i": a request that must be refused for what it is - whatever the history - (a
           \* target not above its source unless both are zero, a domain of another type, a generic request under a slashable type)
           \* is not answered SUCCEEDED; if it is, position i carries the verdict of some other request
           c08v == IF Ev.r \in DOMAIN req /\ Len(q.ents) = n
                     THEN {<<"misaligned", l, i>> : i \in {j \in 1 .. n : RefusedForWhatItIs(q, q.ents[j]) /\ Ev.res[j] = "SUCCEEDED"}}
                     ELSE {}
           c06 == {<<"sigstate", l, i>> : i \in {j \in 1 .. n : (Ev.res[j] = "SUCCEEDED") # Ev.sig[j]}}
           \* any signature bytes at all (verifying or not) in a faulted request / at a faulted position
           c06f == {<<"failclosed", l, i>> : i \in {j \in 1 .. n : Ev.sig[j] /\ (<<Ev.r, 0>> \in fpos \/ <<Ev.r, j>> \in fpos)}}
       IN bad' = bad \cup c09 \cup c06 \cup c06f \cup c08 \cup c08v
    /\ UNCHANGED <<relA, relP, floor, hiS, hiT, hiP, snap, req, produced, fpos>>

\* C06: a dependency failed (or gave no definite answer) while request r / its entry i was processed
FaultEv == /\ Is("Fault")
           /\ fpos' = fpos \cup {<<Ev.r, Ev.i>>}
           /\ UNCHANGED <<relA, relP, doneP, floor, hiS, hiT, hiP, snap, req, produced, bad>>

\* C03: a signature has been produced for a duty (the signing call returned), whether or not it was
\* sent; from then on every export of the database - in particular the one taken after a kill and
\* restart - must cover the duty.
Produce == /\ Is("Produce")
           /\ produced' = produced \cup {[k |-> Ev.k, kind |-> Ev.kind, s |-> Ev.s, t |-> Ev.t, slot |-> Ev.slot]}
           /\ UNCHANGED <<relA, relP, doneP, floor, hiS, hiT, hiP, snap, req, fpos, bad>>
CoveredBy(db, d) ==
    /\ d.k \in DOMAIN db
    /\ IF d.kind = "att" THEN db[d.k].t >= d.t /\ db[d.k].s >= d.s
       ELSE IF d.kind = "prop" THEN db[d.k].ps >= d.slot ELSE TRUE
ExportEv == /\ Is("Export")
            /\ bad' = bad \cup {<<"durable", l, d.k>> : d \in {x \in produced : x.kind \in {"att", "prop"} /\ ~CoveredBy(Ev.db, x)}}
            /\ UNCHANGED <<relA, relP, doneP, floor, hiS, hiT, hiP, snap, req, produced, fpos>>

\* C08: a signature that verifies for no entry of its request (wrong data, wrong key, wrong domain)
BadSig == /\ Is("BadSig")
          /\ bad' = bad \cup {<<"badsig", l>>}
          /\ UNCHANGED <<relA, relP, doneP, floor, hiS, hiT, hiP, snap, req, produced, fpos>>
\* C10 / C11: two projections of the database (or two vectors of decisions) that must be related
GeRec(a, b) == a.s >= b.s /\ a.t >= b.t /\ a.ps >= b.ps
DbPair == /\ Is("DbPair")
          /\ LET ks == (DOMAIN Ev.before) \cup (DOMAIN Ev.after)
                 NoRec == [s |-> -1, t |-> -1, ps |-> -1]
                 B(k) == IF k \in DOMAIN Ev.before THEN Ev.before[k] ELSE NoRec
                 A(k) == IF k \in DOMAIN Ev.after THEN Ev.after[k] ELSE NoRec
                 wrong == {k \in ks : IF Ev.must = "eq" THEN A(k) # B(k) ELSE ~GeRec(A(k), B(k))}
             IN bad' = bad \cup {<<"dbpair", l, k>> : k \in wrong}
          /\ UNCHANGED <<relA, relP, doneP, floor, hiS, hiT, hiP, snap, req, produced, fpos>>
SamePair == /\ Is("SamePair")
            /\ bad' = IF Ev.a = Ev.b THEN bad ELSE bad \cup {<<"samepair", l>>}
            /\ UNCHANGED <<relA, relP, doneP, floor, hiS, hiT, hiP, snap, req, produced, fpos>>
\* C10: a file with a different genesis validators root or interchange version must be refused
RcEv == /\ Is("Rc")
        /\ bad' = IF Ev.must_reject /\ Ev.rc = 0 THEN bad \cup {<<"notrejected", l>>} ELSE bad
        /\ UNCHANGED <<relA, relP, doneP, floor, hiS, hiT, hiP, snap, req, produced, fpos>>
\* C11: an export states exactly the highest signed values of a key (histories of well-formed requests)
Exported == /\ Is("Exported")
            /\ bad' = IF Ev.s = Get(hiS, Ev.k) /\ Ev.t = Get(hiT, Ev.k) /\ Ev.slot = Get(hiP, Ev.k) THEN bad ELSE bad \cup {<<"exported", l>>}
            /\ UNCHANGED <<relA, relP, doneP, floor, hiS, hiT, hiP, snap, req, produced, fpos>>

Other == /\ l <= Len(Trace) /\ Ev.ev \notin {"Begin", "Floor", "Invoke", "Release", "Respond", "Fault", "Produce", "Export", "DbPair", "SamePair", "Exported", "Rc", "BadSig"}
         /\ l' = l + 1 /\ UNCHANGED <<relA, relP, doneP, floor, hiS, hiT, hiP, snap, req, produced, fpos, bad>>

Next == Begin \/ FloorEv \/ Invoke \/ Release \/ Respond \/ FaultEv \/ Produce \/ ExportEv \/ DbPair \/ SamePair \/ Exported \/ RcEv \/ BadSig \/ Other
Spec == Init /\ [][Next]_vars

HighWater == TLCSet(1, IF l > TLCGet(1) THEN l ELSE TLCGet(1))
Accepted == TLCGet(1) = Len(Trace) + 1

NoSlashableAtt == \A a, b \in relA : a.k = b.k => ~SlashableAtt(a, b)
NoDoubleProposal == \A a, b \in relP : a.k = b.k => ~SlashableProp(a, b)
SlotsIncrease == \A p \in relP : p.r \in DOMAIN floor =>
                    \A d \in floor[p.r] : d.k = p.k => p.slot > d.slot
Routed == \A b \in bad : b[1] # "route"
SigIffSucceeded == \A b \in bad : b[1] # "sigstate"
FailClosed == \A b \in bad : b[1] # "failclosed"
DurableCovered == \A b \in bad : b[1] # "durable"
AboveFloor == \A b \in bad : b[1] # "floor"
DbPairsHold == \A b \in bad : b[1] # "dbpair"
SamePairsHold == \A b \in bad : b[1] # "samepair"
ExportFaithful == \A b \in bad : b[1] # "exported"
RejectOK == \A b \in bad : b[1] # "notrejected"
SigForRequest == \A b \in bad : b[1] \notin {"badsig", "misaligned", "resplen"}
AdvancingSigned == \A b \in bad : b[1] # "advancing"
=============================================================================

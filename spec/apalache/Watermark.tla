------------------------------- MODULE Watermark -------------------------------
(***************************************************************************)
(* Unbounded counterpart of SlashSeq for the arithmetic core of C01 / C02: *)
(* one key, the REAL constants (epochs range over 0 .. 2^64-1, the record  *)
(* is an int64 with -1 for "nothing signed"), requests processed one at a  *)
(* time.  Checked with Apalache as an INDUCTIVE invariant:                 *)
(*     IndInit => IndInv              (--init=IndInit --inv=IndInv --length=0)   *)
(*     IndInv /\ Next => IndInv'      (--init=IndInit --inv=IndInv --length=1)   *)
(* IndInv quantifies over pairs of released messages and a step adds one,  *)
(* so generating sets of up to 3 elements in IndInit is sufficient.        *)
(* Guard = FALSE is the pre-fix design (uint64 -> int64 wrap): Apalache     *)
(* returns a counterexample with real values, replayed on the real code.   *)
(***************************************************************************)
EXTENDS Integers, Apalache

CONSTANT
    \* @type: Bool;
    Guard

MaxI64 == 9223372036854775807
MaxU64 == 18446744073709551615

VARIABLES
    \* @type: Int;
    ws,
    \* @type: Int;
    wt,
    \* @type: Int;
    wp,
    \* @type: Set({s: Int, t: Int, root: Int});
    relA,
    \* @type: Set({slot: Int, root: Int});
    relP

\* the code's uint64 -> int64 conversion
\* @type: (Int) => Int;
ToI64(e) == IF e <= MaxI64 THEN e ELSE e - (MaxU64 + 1)

\* @type: (Int, Int) => Bool;
AttApproved(s, t) ==
    /\ ~((s /= 0 \/ t /= 0) /\ t <= s)
    /\ (Guard => (s <= MaxI64 /\ t <= MaxI64))
    /\ (wt >= 0 => t > wt)
    /\ (ws >= 0 => s >= ws)

\* @type: (Int) => Bool;
PropApproved(slot) ==
    /\ (Guard => slot <= MaxI64)
    /\ (wp >= 0 => slot > wp)

Att ==
    \E s \in 0 .. MaxU64, t \in 0 .. MaxU64, root \in 0 .. 1 :
        IF AttApproved(s, t)
          THEN /\ ws' = ToI64(s) /\ wt' = ToI64(t)
               /\ relA' = relA \union {[s |-> s, t |-> t, root |-> root]}
               /\ UNCHANGED <<wp, relP>>
          ELSE UNCHANGED <<ws, wt, wp, relA, relP>>

Prop ==
    \E slot \in 0 .. MaxU64, root \in 0 .. 1 :
        IF PropApproved(slot)
          THEN /\ wp' = ToI64(slot)
               /\ relP' = relP \union {[slot |-> slot, root |-> root]}
               /\ UNCHANGED <<ws, wt, relA>>
          ELSE UNCHANGED <<ws, wt, wp, relA, relP>>

Next == Att \/ Prop
Init == ws = -1 /\ wt = -1 /\ wp = -1 /\ relA = {} /\ relP = {}

\* @type: ({s: Int, t: Int, root: Int}, {s: Int, t: Int, root: Int}) => Bool;
Slashable(a, b) == \/ (a.t = b.t /\ (a.s /= b.s \/ a.root /= b.root))
                   \/ (a.s < b.s /\ b.t < a.t)
                   \/ (b.s < a.s /\ a.t < b.t)

NoSlashable == /\ \A a \in relA : \A b \in relA : ~Slashable(a, b)
               /\ \A a \in relP : \A b \in relP : (a.slot = b.slot => a.root = b.root)

IndInv ==
    /\ ws >= -1 /\ wt >= -1 /\ wp >= -1
    /\ ws <= MaxI64 /\ wt <= MaxI64 /\ wp <= MaxI64
    /\ (ws = -1) <=> (wt = -1)
    /\ (relA /= {}) <=> (wt >= 0)
    /\ (relP /= {}) <=> (wp >= 0)
    /\ \A a \in relA : a.s >= 0 /\ a.t >= 0 /\ a.s <= ws /\ a.t <= wt /\ (a.t > a.s \/ (a.s = 0 /\ a.t = 0))
    /\ \A a \in relA : \A b \in relA : (a.t = b.t => a = b)
    /\ \A a \in relA : \A b \in relA : (a.t < b.t => a.s <= b.s)
    /\ \E a \in relA \union {[s |-> -1, t |-> -1, root |-> 0]} : a.t = wt /\ a.s = ws
    /\ \A a \in relP : a.slot >= 0 /\ a.slot <= wp
    /\ \A a \in relP : \A b \in relP : (a.slot = b.slot => a = b)
    /\ NoSlashable

IndInit ==
    /\ ws = Gen(1) /\ wt = Gen(1) /\ wp = Gen(1)
    /\ relA = Gen(3) /\ relP = Gen(3)
    /\ IndInv
=============================================================================

------------------------------- MODULE DkgPlans -------------------------------
(***************************************************************************)
(* C13: every single-fault plan of the prepare / execute / contribute      *)
(* message sequence of one generation, enumerated by TLC from the fault    *)
(* kinds of Dkg.tla: position (message type, sender, receiver) x kind.     *)
(* Execute on instance i makes i exchange contributions with every higher  *)
(* id j: request i -> j and reply j -> i.                                  *)
(***************************************************************************)
EXTENDS Dkg, Json
CONSTANTS OutFile
Pairs == {pr \in P \X P : pr[1] < pr[2]}        \* <<i, j>>: i exchanges with the higher id j
Plans ==
    {[site |-> "prepare", from |-> Initiator, to |-> p, kind |-> f] : p \in P, f \in MsgFaults}
    \cup {[site |-> "execute", from |-> Initiator, to |-> p, kind |-> f] : p \in P, f \in MsgFaults}
    \cup {[site |-> "contribute.req", from |-> pr[1], to |-> pr[2], kind |-> c.name] : pr \in Pairs, c \in ContribFaults}
    \cup {[site |-> "contribute.req", from |-> pr[1], to |-> pr[2], kind |-> f] : pr \in Pairs, f \in MsgFaults}
    \cup {[site |-> "contribute.rep", from |-> pr[2], to |-> pr[1], kind |-> c.name] : pr \in Pairs, c \in ContribFaults}
    \cup {[site |-> "contribute.rep", from |-> pr[2], to |-> pr[1], kind |-> "errreply"] : pr \in Pairs}
    \* duplicate delivery of a message (the second copy arrives right after the first)
    \cup {[site |-> "prepare", from |-> Initiator, to |-> p, kind |-> "dup"] : p \in P}
    \cup {[site |-> "execute", from |-> Initiator, to |-> p, kind |-> "dup"] : p \in P}
    \cup {[site |-> "contribute.req", from |-> pr[1], to |-> pr[2], kind |-> "dup"] : pr \in Pairs}
ASSUME JsonSerialize(OutFile, [plans |-> Plans, count |-> Cardinality(Plans)])
=============================================================================

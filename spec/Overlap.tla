-------------------------------- MODULE Overlap --------------------------------
(***************************************************************************)
(* Layer D: TWO PROCESSES of the program and one slashing database.  The   *)
(* watermark rule of SlashRules is sound for a key only if whoever checks  *)
(* a request sees every record written before: one process at a time.      *)
(* badger enforces that with an exclusive lock on the database directory   *)
(* (a second process dies at start: "Cannot acquire directory lock"), and  *)
(* a process that is started reads the database as it is at that moment;   *)
(* afterwards it sees its own writes only.                                 *)
(*                                                                         *)
(* A process is started (possibly while another still runs: a restart that *)
(* does not wait, a second unit started by mistake), signs proposals for   *)
(* one key under the rule "slot above the highest I know", may be killed.  *)
(* Checked: no two different blocks are signed for one slot, slots signed  *)
(* increase (C02 over the whole lifetime, restarts in between).            *)
(* Design mutant DirLock = FALSE (the guard is bypassed "so that the       *)
(* export can read the store while the daemon runs"): the old and the new  *)
(* process each keep their own highest slot - both sign slot N.            *)
(***************************************************************************)
EXTENDS Integers, FiniteSets, TLC

CONSTANTS Procs,      \* process incarnations, e.g. {"p1", "p2"}
          MaxSlot,
          Roots,      \* block roots, e.g. {"A", "B"}
          DirLock     \* TRUE (shipped): at most one running process per database directory

VARIABLES running,    \* set of processes that run
          started,    \* set of processes that have been started at some time (each incarnation once)
          view,       \* [Procs -> highest slot the process knows, -1: none]
          disk,       \* highest slot on disk
          signed      \* set of [slot, root, by] released
vars == <<running, started, view, disk, signed>>

Init == running = {} /\ started = {} /\ view = [p \in Procs |-> -1] /\ disk = -1 /\ signed = {}

Start(p) == /\ p \notin started
            /\ (DirLock => running = {})                       \* the directory lock: refused while another process holds it
            /\ running' = running \cup {p} /\ started' = started \cup {p}
            /\ view' = [view EXCEPT ![p] = disk]               \* the database as it is now
            /\ UNCHANGED <<disk, signed>>
Kill(p) == /\ p \in running /\ running' = running \ {p} /\ UNCHANGED <<started, view, disk, signed>>
\* a proposal request handled by process p: refused unless above everything p knows; the record is written before the signature
Sign(p, s, r) == /\ p \in running /\ s > view[p]
                 /\ view' = [view EXCEPT ![p] = s]
                 /\ disk' = s                                   \* (last writer wins - the processes do not see each other's writes)
                 /\ signed' = signed \cup {[slot |-> s, root |-> r, by |-> p]}
                 /\ UNCHANGED <<running, started>>
Next == \E p \in Procs : Start(p) \/ Kill(p) \/ \E s \in 0 .. MaxSlot : \E r \in Roots : Sign(p, s, r)
Spec == Init /\ [][Next]_vars

NoDoubleProposal == \A a, b \in signed : a.slot = b.slot => a.root = b.root /\ a.by = b.by
OneAtATime == DirLock => Cardinality(running) <= 1
\* what a newly started process knows covers everything signed before it started
ViewCovers == DirLock => \A p \in running : \A a \in signed : a.slot <= view[p]
=============================================================================

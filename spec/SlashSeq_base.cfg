SPECIFICATION Spec
CHECK_DEADLOCK FALSE
CONSTANTS
  MaxI = 2
  EpochGuard = TRUE
  ZeroIsNone = FALSE
  TargetGE = FALSE
  SourceChecked = TRUE
  SourceStrict = FALSE
  PropGE = FALSE
  GenesisRule = TRUE
  GenericDeniesSlashable = TRUE
  AttestChecksDomain = TRUE
  ExitIPCheck = TRUE
  Roots = {"A", "B"}
  AttDoms = {"att", "other"}
  PropDoms = {"prop", "other"}
  GenDoms = {"att", "prop", "exit", "randao"}
  Kinds = {"att", "prop", "gen"}
INVARIANTS NoSlashableAtt NoDoubleProposal ProposalSlotsIncrease AdvancingSigned RoutedByDomain Covered
PROPERTIES Monotone

-------------------------------- MODULE Scatter --------------------------------
(***************************************************************************)
(* util/scatter.go transcribed: how a batch of n items is cut into extents *)
(* handed to worker goroutines under GOMAXPROCS = p.                       *)
(*   extentSize = n / p; if 0 then 1; else if n % extentSize > 0 then +1   *)
(*   workers    = ceil(n / extentSize)                                     *)
(*   worker w   : offset w*extentSize, entries min(extentSize, n - offset) *)
(* Theorem (checked by TLC for the whole grid): the extents are non-empty, *)
(* consecutive, disjoint and cover 0..n-1 - every item of a batch is       *)
(* handled exactly once (C08 / C09: one verdict per request, position i    *)
(* for request i, for every batch size and degree of parallelism).         *)
(* The table is also written as JSON; the harness runs the real            *)
(* util.Scatter for every (n, p) and compares the extents it observes.     *)
(***************************************************************************)
EXTENDS Integers, Sequences, FiniteSets, TLC, Json

CONSTANTS MaxN, Ps, OutFile

ExtentSize(n, p) == LET e == n \div p IN IF e = 0 THEN 1 ELSE IF n % e > 0 THEN e + 1 ELSE e
Workers(n, p) == LET e == ExtentSize(n, p) IN (n \div e) + (IF n % e # 0 THEN 1 ELSE 0)
Extent(n, p, w) == LET e == ExtentSize(n, p) off == w * e IN [offset |-> off, entries |-> IF off + e > n THEN n - off ELSE e]
Extents(n, p) == [w \in 0 .. Workers(n, p) - 1 |-> Extent(n, p, w)]

Partition(n, p) ==
    LET ex == Extents(n, p) W == Workers(n, p) IN
    /\ W >= 1
    /\ \A w \in 0 .. W - 1 : ex[w].entries >= 1
    /\ ex[0].offset = 0
    /\ \A w \in 0 .. W - 2 : ex[w].offset + ex[w].entries = ex[w + 1].offset
    /\ ex[W - 1].offset + ex[W - 1].entries = n

ASSUME \A n \in 1 .. MaxN, p \in Ps : Partition(n, p)
ASSUME JsonSerialize(OutFile, [rows |-> {[n |-> n, p |-> p, size |-> ExtentSize(n, p), workers |-> Workers(n, p)] : n \in 1 .. MaxN, p \in Ps}])
VARIABLE x
Init == x = 0
Next == UNCHANGED x
Spec == Init /\ [][Next]_x
=============================================================================

------------------------------ MODULE ClusterTrace ------------------------------
(***************************************************************************)
(* Layer P for C14: from the recorded run of a real cluster, collect the   *)
(* valid partial signatures (verified under each instance's share key for  *)
(* the duty's signing root) that each duty obtained.  For every pair of    *)
(* duties declared conflicting (double vote, surround, double proposal),   *)
(* at most one may reach the threshold t.                                  *)
(***************************************************************************)
EXTENDS Integers, Sequences, FiniteSets, TLC, Json
CONSTANTS TraceFile
Trace == ndJsonDeserialize(TraceFile)
VARIABLES l, t, part, conf, comp, bad
vars == <<l, t, part, conf, comp, bad>>
Ev == Trace[l]
Is(name) == l <= Len(Trace) /\ Ev.ev = name /\ l' = l + 1
Init == l = 1 /\ t = 0 /\ part = {} /\ conf = {} /\ comp = {} /\ bad = {} /\ TLCSet(1, 1)
Begin == Is("Begin") /\ t' = Ev.t /\ part' = {} /\ conf' = {} /\ comp' = {} /\ UNCHANGED bad
Conflict == Is("Conflict") /\ conf' = conf \cup {<<Ev.a, Ev.b>>} /\ UNCHANGED <<t, part, comp, bad>>
Partial == /\ Is("Partial")
           /\ part' = IF Ev.valid THEN part \cup {<<Ev.duty, Ev.inst>>} ELSE part
           /\ UNCHANGED <<t, conf, comp, bad>>
DutyTotal == /\ Is("DutyTotal")
             /\ comp' = IF Ev.composite_valid THEN comp \cup {Ev.duty} ELSE comp
             /\ UNCHANGED <<t, part, conf, bad>>
Count(d) == Cardinality({p \in part : p[1] = d})
End == /\ Is("End")
       /\ bad' = bad \cup {<<"both", l, c[1], c[2]>> : c \in {x \in conf : (Count(x[1]) >= t /\ Count(x[2]) >= t) \/ (x[1] \in comp /\ x[2] \in comp)}}
       /\ UNCHANGED <<t, part, conf, comp>>
Other == l <= Len(Trace) /\ Ev.ev \notin {"Begin", "Conflict", "Partial", "DutyTotal", "End"} /\ l' = l + 1 /\ UNCHANGED <<t, part, conf, comp, bad>>
Next == Begin \/ Conflict \/ Partial \/ DutyTotal \/ End \/ Other
Spec == Init /\ [][Next]_vars
HighWater == TLCSet(1, IF l > TLCGet(1) THEN l ELSE TLCGet(1))
Accepted == TLCGet(1) = Len(Trace) + 1
NotBothThreshold == bad = {}
=============================================================================

------------------------------ MODULE SessionTrace ------------------------------
(***************************************************************************)
(* Layer P for C17: a recorded sequence of protocol messages delivered to  *)
(* the real process service (through the real receiver handler) must have  *)
(* the result classes the lifecycle rules give, step by step; the state is *)
(* tracked by the rules, not taken from the trace.  Account existence at   *)
(* the end is compared as well.                                            *)
(***************************************************************************)
EXTENDS DkgSessionRules, Json
CONSTANTS TraceFile
Trace == ndJsonDeserialize(TraceFile)
VARIABLES l, st, bad
vars == <<l, st, bad>>
Ev == Trace[l]
Is(name) == l <= Len(Trace) /\ Ev.ev = name /\ l' = l + 1
Fresh == [a \in Accts |-> [active |-> FALSE, got |-> {}, exists |-> FALSE]]
Init == l = 1 /\ st = Fresh /\ bad = {} /\ TLCSet(1, 1)
Begin == Is("Begin") /\ st' = Fresh /\ UNCHANGED bad
\* C16: a message from a caller that is not a configured peer is refused and is not a step of the lifecycle
NonPeerCall == /\ Is("Call") /\ ~Ev.peer
               /\ bad' = bad \cup (IF Ev.result = "ok" \/ Ev.changed THEN {<<"nonpeer", l, Ev.msg, Ev.result>>} ELSE {})
                             \cup (IF Ev.crashed THEN {<<"crash", l>>} ELSE {})
               /\ UNCHANGED st
Call == /\ Is("Call") /\ Ev.peer
        /\ LET msg == [m |-> Ev.msg, a |-> Ev.account, from |-> Ev.from]
               r == IF Ev.msg = "oddprepare" THEN OddStep(st, Ev.account, Ev.result) ELSE Step(st, msg)
           IN /\ st' = r.next
              /\ bad' = bad \cup (IF Ev.result # r.class THEN {<<"class", l, Ev.msg, r.class, Ev.result>>} ELSE {})
                            \cup (IF Ev.crashed THEN {<<"crash", l>>} ELSE {})
\* C16 under concurrent arrival: many callers at once, peers and others.  No order is known between these calls and none is needed:
\* whatever the interleaving, a caller that is not a peer is refused and is handed no share.
ConcCall == /\ Is("ConcCall")
            /\ bad' = bad \cup (IF ~Ev.peer /\ (Ev.result = "ok" \/ Ev.got_share) THEN {<<"nonpeer", l, Ev.msg, Ev.result>>} ELSE {})
            /\ UNCHANGED st
\* C17 under concurrent arrival: several peers' prepare messages for ONE fresh name at the same moment - a generation is active from the
\* first accepted one on, so exactly one of them is accepted whatever the interleaving
ConcPrepare == /\ Is("ConcPrepare")
               /\ bad' = bad \cup (IF Ev.accepted = 1 THEN {} ELSE {<<"class", l, "prepare", "one accepted", Ev.accepted>>})
               /\ UNCHANGED st
\* C16 "shares go to their owner": a process service sent a key-generation message (a share) to a name:port that is not the one its
\* configuration gives for that identifier
Misdelivery == /\ Is("Misdelivery")
               /\ bad' = bad \cup {<<"nonpeer", l, "share sent to", Ev.name>>}
               /\ UNCHANGED st
Exists == /\ Is("Exists")
          /\ bad' = IF st[Ev.account].exists = Ev.exists THEN bad ELSE bad \cup {<<"exists", l, Ev.account>>}
          /\ UNCHANGED st
Other == l <= Len(Trace) /\ Ev.ev \notin {"Begin", "Call", "ConcCall", "ConcPrepare", "Misdelivery", "Exists"} /\ l' = l + 1 /\ UNCHANGED <<st, bad>>
Next == Begin \/ Call \/ NonPeerCall \/ ConcCall \/ ConcPrepare \/ Misdelivery \/ Exists \/ Other
Spec == Init /\ [][Next]_vars
HighWater == TLCSet(1, IF l > TLCGet(1) THEN l ELSE TLCGet(1))
Accepted == TLCGet(1) = Len(Trace) + 1
Lifecycle == \A b \in bad : b[1] \in {"nonpeer"}
PeersOnly == \A b \in bad : b[1] # "nonpeer"
=============================================================================

-------------------------------- MODULE Durable --------------------------------
(***************************************************************************)
(* Layer P for the storage half of C03: "by the time any attestation or    *)
(* proposal signature is produced, the fact that it was approved is        *)
(* already durably recorded".  The trace is the system-call trace of the   *)
(* process (strace) restricted to the files of the slashing database,      *)
(* interleaved with marker writes emitted by the verif hooks at            *)
(* store-enter, store-exit and sign-enter.                                 *)
(*                                                                         *)
(* A write is durable when it went through a descriptor opened with        *)
(* O_DSYNC / O_SYNC, or once a later fsync / fdatasync on that descriptor  *)
(* has returned.  The write-ahead log of badger v2 is its value log.       *)
(***************************************************************************)
EXTENDS Integers, Sequences, FiniteSets, TLC, Json

CONSTANTS TraceFile
Trace == ndJsonDeserialize(TraceFile)

VARIABLES l,
          syncfd,     \* descriptors opened with O_DSYNC / O_SYNC
          dirty,      \* value-log descriptors with a write not yet followed by a sync
          inStore,    \* a store call is in progress
          wrote,      \* the value log received a write since the last store-enter
          bad
vars == <<l, syncfd, dirty, inStore, wrote, bad>>

Ev == Trace[l]
Is(name) == l <= Len(Trace) /\ Ev.ev = name /\ l' = l + 1

Init == l = 1 /\ syncfd = {} /\ dirty = {} /\ inStore = FALSE /\ wrote = FALSE /\ bad = {} /\ TLCSet(1, 1)

Open == /\ Is("Open")
        /\ syncfd' = IF Ev.sync THEN syncfd \cup {Ev.fd} ELSE syncfd \ {Ev.fd}
        /\ dirty' = dirty \ {Ev.fd}
        /\ UNCHANGED <<inStore, wrote, bad>>
Write == /\ Is("Write")
         /\ dirty' = IF Ev.cls = "vlog" /\ Ev.fd \notin syncfd THEN dirty \cup {Ev.fd} ELSE dirty
         /\ wrote' = (wrote \/ Ev.cls = "vlog")
         /\ UNCHANGED <<syncfd, inStore, bad>>
Sync == /\ Is("Sync")
        /\ dirty' = dirty \ {Ev.fd}
        /\ UNCHANGED <<syncfd, inStore, wrote, bad>>
Close == /\ Is("Close")
         /\ syncfd' = syncfd \ {Ev.fd}
         /\ UNCHANGED <<dirty, inStore, wrote, bad>>   \* closing does not make a write durable
Mark == /\ Is("Mark")
        /\ \/ /\ Ev.site \in {"store.store.enter", "store.batch.enter"}
              /\ inStore' = TRUE
              /\ wrote' = IF inStore THEN wrote ELSE FALSE
              /\ UNCHANGED bad
           \/ /\ Ev.site \in {"store.store.exit", "store.batch.exit"}
              /\ inStore' = FALSE
              /\ bad' = IF wrote THEN bad ELSE bad \cup {<<"store-without-log-write", l>>}
              /\ UNCHANGED wrote
           \/ /\ Ev.site = "sign.enter"
              /\ bad' = IF dirty = {} THEN bad ELSE bad \cup {<<"unsynced-at-sign", l>>}
              /\ UNCHANGED <<inStore, wrote>>
        /\ UNCHANGED <<syncfd, dirty>>

Next == Open \/ Write \/ Sync \/ Close \/ Mark
Spec == Init /\ [][Next]_vars

HighWater == TLCSet(1, IF l > TLCGet(1) THEN l ELSE TLCGet(1))
Accepted == TLCGet(1) = Len(Trace) + 1
SyncedBeforeSign == bad = {}
=============================================================================

-------------------------------- MODULE ApiTable --------------------------------
(* Writes the complete method x credential x target matrix of Api.tla for the replay over real TLS. *)
EXTENDS Api, Json
CONSTANTS OutFile
Cells == {[cred |-> c, method |-> m, target |-> tg, server |-> sm, admitted |-> Admitted(c), may |-> Admitted(c) /\ MayObtain(Creds[c].cn, m, tg)] :
            c \in CredIds, m \in Methods, tg \in {"c1", "c2"}, sm \in ServerModes}
ASSUME JsonSerialize(OutFile, [cells |-> Cells, count |-> Cardinality(Cells)])
VARIABLE x
Init == x = 0
Next == UNCHANGED x
Spec == Init /\ [][Next]_x
=============================================================================

------------------------------ MODULE SenderPool ------------------------------
(***************************************************************************)
(* Layer D: the connection pools of services/sender/grpc.  For every peer  *)
(* address the sender keeps a pool of at most Cap connections (puddle).    *)
(* Each outgoing key-generation call (Prepare, Execute, Commit, Abort,     *)
(* Contribute) ACQUIRES a connection - waiting WITHOUT deadline when none  *)
(* is free (obtainConnection acquires with context.Background()) - makes   *)
(* the call and RELEASES the connection by a deferred call, whatever the   *)
(* peer answered.  Calls are made on behalf of client requests (Generate)  *)
(* and of peers' requests (Execute -> Contribute); a client may retry a    *)
(* failing request as often as it likes.                                   *)
(*                                                                         *)
(* Checked: connections are only ever held by calls in flight (NoLeak), so *)
(* a call that waits for a connection is waiting for a call in flight, and *)
(* every call ends (Termination under fairness): no sequence of requests - *)
(* refused or not - uses the pool up.                                      *)
(* Design mutant ReleaseOn = "success": the release is skipped when the    *)
(* peer refused the call; after Cap refused calls to one peer every        *)
(* further call to it waits for ever (C20: the instance stops answering    *)
(* distributed Generate requests of every client).                         *)
(***************************************************************************)
EXTENDS Integers, FiniteSets, TLC

CONSTANTS Peers,      \* peer addresses
          Calls,      \* call ids (each: one outgoing call to one peer, made once)
          Cap,        \* connections per pool (32 in the code)
          ReleaseOn   \* "always" (shipped) | "success"

VARIABLES pc,         \* [Calls -> "new" | "waiting" | "calling" | "done"]
          peer,       \* [Calls -> Peers]  chosen when the call starts
          held,       \* [Peers -> set of calls whose connection has not been released]
          refused     \* [Calls -> BOOLEAN]  what the peer answered
vars == <<pc, peer, held, refused>>

Init == /\ pc = [c \in Calls |-> "new"]
        /\ peer \in [Calls -> Peers]
        /\ held = [p \in Peers |-> {}]
        /\ refused = [c \in Calls |-> FALSE]

Start(c) == /\ pc[c] = "new" /\ pc' = [pc EXCEPT ![c] = "waiting"] /\ UNCHANGED <<peer, held, refused>>
Acquire(c) == /\ pc[c] = "waiting" /\ Cardinality(held[peer[c]]) < Cap
              /\ held' = [held EXCEPT ![peer[c]] = @ \cup {c}]
              /\ pc' = [pc EXCEPT ![c] = "calling"] /\ UNCHANGED <<peer, refused>>
\* the peer answers (accepts or refuses - its own business); the deferred release runs
Return(c) == /\ pc[c] = "calling"
             /\ \E r \in BOOLEAN :
                  /\ refused' = [refused EXCEPT ![c] = r]
                  /\ held' = IF ReleaseOn = "always" \/ ~r THEN [held EXCEPT ![peer[c]] = @ \ {c}] ELSE held
             /\ pc' = [pc EXCEPT ![c] = "done"] /\ UNCHANGED peer
Step(c) == Start(c) \/ Acquire(c) \/ Return(c)
AllDone == \A c \in Calls : pc[c] = "done"
Next == (\E c \in Calls : Step(c)) \/ (AllDone /\ UNCHANGED vars)
Spec == Init /\ [][Next]_vars
FairSpec == Spec /\ \A c \in Calls : WF_vars(Step(c))

NoLeak == \A p \in Peers : \A c \in held[p] : pc[c] = "calling"
Bounded == \A p \in Peers : Cardinality(held[p]) <= Cap
NoWedge == AllDone \/ \E c \in Calls : ENABLED Step(c)
Termination == <>AllDone
\* how many refused calls to one peer the broken design needs before it stops: Cap (the scenario generator uses Cap * |peers| + 1)
=============================================================================

-------------------------------- MODULE ApiTrace --------------------------------
(***************************************************************************)
(* Layer P for C19 on calls made over real TLS connections:                *)
(*  NoServiceWithoutCA : a caller without a certificate issued by the      *)
(*                       configured authority never reaches a handler and  *)
(*                       obtains nothing                                   *)
(*  IdentityIsCN       : whatever a caller obtains is what the subject     *)
(*                       name of its VERIFIED certificate is entitled to   *)
(***************************************************************************)
EXTENDS Api, Json
CONSTANTS TraceFile
Trace == ndJsonDeserialize(TraceFile)
VARIABLES l, bad
vars == <<l, bad>>
Ev == Trace[l]
Init == l = 1 /\ bad = {} /\ TLCSet(1, 1)
Call == /\ l <= Len(Trace) /\ Ev.ev = "ApiCall" /\ l' = l + 1
        /\ bad' = bad \cup (IF ~Admitted(Ev.cred) /\ (Ev.outcome # "transport" \/ Ev.data) THEN {<<"noca", l, Ev.cred, Ev.method>>} ELSE {})
                      \cup (IF Ev.data /\ ~(Admitted(Ev.cred) /\ MayObtain(Creds[Ev.cred].cn, Ev.method, Ev.target)) THEN {<<"identity", l, Ev.cred, Ev.method, Ev.target>>} ELSE {})
Other == l <= Len(Trace) /\ Ev.ev # "ApiCall" /\ l' = l + 1 /\ UNCHANGED bad
Next == Call \/ Other
Spec == Init /\ [][Next]_vars
HighWater == TLCSet(1, IF l > TLCGet(1) THEN l ELSE TLCGet(1))
Accepted == TLCGet(1) = Len(Trace) + 1
NoServiceWithoutCA == \A b \in bad : b[1] # "noca"
IdentityIsCN == \A b \in bad : b[1] # "identity"
=============================================================================

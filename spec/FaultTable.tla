------------------------------ MODULE FaultTable ------------------------------
(***************************************************************************)
(* C06: the dependency call sites of the five signing endpoints, as a      *)
(* table transcribed from services/signer/standard (helpers.go preCheck,   *)
(* sign*.go), services/ruler/golang/runner.go and rules/standard.  TLC     *)
(* enumerates EVERY single-fault plan (endpoint x batch size x site x      *)
(* position x fault kind) together with the scope the property gives it:   *)
(*   "ent": no signature at the faulted position                           *)
(*   "req": no signature anywhere in the response                          *)
(* and writes the plans as JSON; the harness injects each plan into the    *)
(* real stack.  The layer-P check (SeqTrace: FailClosed, SigIffSucceeded)  *)
(* then reads the recorded run.                                            *)
(***************************************************************************)
EXTENDS Integers, Sequences, FiniteSets, TLC, Json

CONSTANTS OutFile, Sizes   \* batch sizes, e.g. {2, 3}

Kinds == {"att", "atts", "prop", "gen", "multi"}
Batch(k) == k \in {"atts", "multi"}
N(k, n) == IF Batch(k) THEN n ELSE 1

\* per-entry sites (position matters) and the fault kinds that make sense there
EntSites(k) ==
    {<<"fetcher", "error">>, <<"checker", "error">>, <<"unlocker.account", "error">>, <<"unlocker.account", "false">>,
     <<"isunlocked", "error">>, <<"sign.enter", "error">>, <<"hash", "len31">>, <<"hash", "len33">>}
    \* hashing must also fail when BOTH fields of a generic request have the wrong size and only their sum is right (the data root 4
    \* bytes long and the domain 4 short, and the other way round)
    \cup (IF k \in {"gen", "multi"} THEN {<<"hash", "shift4">>, <<"hash", "shift-4">>} ELSE {})
    \cup (IF k = "atts" THEN {<<"rules.atts.pos", "unknown">>, <<"rules.atts.pos", "failed">>, <<"rules.atts.pos", "denied">>,
                              <<"rules.atts", "short">>} ELSE {})
    \cup (IF k = "multi" THEN {<<"rules.sign", "unknown">>, <<"rules.sign", "failed">>, <<"rules.sign", "denied">>} ELSE {})

\* the ways in which a stored slashing-protection record can be undecodable: arbitrary bytes, a zero-length value, the
\* version byte alone, a version-1 record that is too short or too long, an unknown version that is no legacy encoding
RecordShapes == {"garbage", "empty", "versiononly", "short", "long", "otherversion"}
\* request-wide sites
ReqSites(k) ==
    {<<"ruler.enter", "failed">>, <<"ruler.enter", "unknown">>, <<"ruler.enter", "empty">>}      \* (empty: the ruler hands back NO results at all)
    \cup (IF k = "att" THEN {<<"rules.att", "unknown">>, <<"rules.att", "failed">>, <<"rules.att", "denied">>} ELSE {})
    \cup (IF k = "atts" THEN {<<"rules.atts", "unknown">>, <<"rules.atts", "failed">>, <<"rules.atts", "denied">>} ELSE {})
    \cup (IF k = "prop" THEN {<<"rules.prop", "unknown">>, <<"rules.prop", "failed">>, <<"rules.prop", "denied">>} ELSE {})
    \cup (IF k = "gen" THEN {<<"rules.sign", "unknown">>, <<"rules.sign", "failed">>, <<"rules.sign", "denied">>} ELSE {})
    \cup (IF k \in {"att", "atts", "prop"}
            THEN {<<"store.fetch.enter", "error">>, <<"store", "closed">>,
                  <<IF k = "atts" THEN "store.batch.enter" ELSE "store.store.enter", "error">>}
            ELSE {})
    \* a failing batch write when the batch also holds an entry that the rules refuse by themselves (first / last position)
    \cup (IF k = "atts" THEN {<<"store.batch.enter", "error-denied-first">>, <<"store.batch.enter", "error-denied-last">>} ELSE {})
    \cup (IF k \in {"att", "atts", "prop"} THEN {<<"record", sh>> : sh \in RecordShapes} ELSE {})

Plans ==
    {[kind |-> k, n |-> N(k, n), site |-> sf[1], fault |-> sf[2], pos |-> p, scope |-> "ent"] :
        k \in Kinds, n \in Sizes, sf \in UNION {EntSites(kk) : kk \in Kinds}, p \in 1 .. 3}
Valid(pl) ==
    /\ <<pl.site, pl.fault>> \in EntSites(pl.kind)
    /\ pl.pos <= pl.n
    /\ (pl.fault = "short") => pl.pos = pl.n          \* a short result list drops the last position
EntPlans == {pl \in Plans : Valid(pl)}
\* a store / fetch / record fault hits one key but fails the whole request (position says which key)
ReqPlans ==
    {[kind |-> k, n |-> N(k, n), site |-> sf[1], fault |-> sf[2], pos |-> p, scope |-> "req"] :
        k \in Kinds, n \in Sizes, sf \in UNION {ReqSites(kk) : kk \in Kinds}, p \in 1 .. 3}
ReqValid(pl) == <<pl.site, pl.fault>> \in ReqSites(pl.kind) /\ pl.pos <= pl.n
                /\ (pl.site \in {"ruler.enter", "rules.att", "rules.atts", "rules.prop", "rules.sign", "store"} => pl.pos = 1)
AllPlans == EntPlans \cup {pl \in ReqPlans : ReqValid(pl)}

ASSUME JsonSerialize(OutFile, [plans |-> AllPlans, count |-> Cardinality(AllPlans)])

VARIABLE x
Init == x = 0
Next == UNCHANGED x
Spec == Init /\ [][Next]_x
=============================================================================

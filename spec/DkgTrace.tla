------------------------------- MODULE DkgTrace -------------------------------
(***************************************************************************)
(* Layer P for the distributed key generation properties.  The trace of a  *)
(* scenario (one generation on a fresh cluster of real instances, or a     *)
(* sequence of protocol messages delivered to one instance) is read and    *)
(* judged by nothing but the property statements:                          *)
(*                                                                         *)
(* C12 Agreement     success => every listed participant holds the account *)
(*                   (in its store AND usable without restart) with the    *)
(*                   returned composite key, the same verification vector  *)
(*                   of length t, threshold t, the same participant list   *)
(*                   and a share matching the vector; any t partial        *)
(*                   signatures recover a valid signature, t-1 do not;     *)
(*                   signing and listing work on every participant;        *)
(*     ThresholdRule success => n/2 < t <= n                               *)
(* C13 FaultNoAccount a bad contribution (share / vector mismatch, vector  *)
(*                   not of length t) or a failed prepare / execute =>     *)
(*                   error to the client, no account anywhere, no crash    *)
(* C16 PeersOnly     a protocol message from a non-peer is refused and     *)
(*                   changes nothing; a contribution reply carries the     *)
(*                   caller's share only                                   *)
(***************************************************************************)
EXTENDS Integers, Sequences, FiniteSets, TLC, Json

CONSTANTS TraceFile
Trace == ndJsonDeserialize(TraceFile)

VARIABLES l, gen, out, holds, usable, thr, faults, bad
vars == <<l, gen, out, holds, usable, thr, faults, bad>>
Ev == Trace[l]
Is(name) == l <= Len(Trace) /\ Ev.ev = name /\ l' = l + 1
None == [none |-> TRUE]
Put(f, k, v) == [x \in (DOMAIN f) \cup {k} |-> IF x = k THEN v ELSE f[x]]

Init == l = 1 /\ gen = None /\ out = None /\ holds = <<>> /\ usable = <<>> /\ thr = None /\ faults = {} /\ bad = {} /\ TLCSet(1, 1)

Begin == /\ Is("Begin")
         /\ gen' = Ev /\ out' = None /\ holds' = <<>> /\ usable' = <<>> /\ thr' = None /\ faults' = {}
         /\ UNCHANGED bad
\* a fault that was actually applied to a message (kinds that the property says must make the generation fail)
FaultEv == Is("FaultHit") /\ faults' = faults \cup {[site |-> Ev.site, kind |-> Ev.kind]} /\ UNCHANGED <<gen, out, holds, usable, thr, bad>>
Outcome == Is("Outcome") /\ out' = Ev /\ UNCHANGED <<gen, holds, usable, thr, faults, bad>>
Holds == Is("Holds") /\ holds' = Put(holds, Ev.inst, Ev) /\ UNCHANGED <<gen, out, usable, thr, faults, bad>>
Usable == Is("Usable") /\ usable' = Put(usable, Ev.inst, Ev) /\ UNCHANGED <<gen, out, holds, thr, faults, bad>>
Threshold == Is("Threshold") /\ thr' = Ev /\ UNCHANGED <<gen, out, holds, usable, faults, bad>>

\* C16
ContribReply == /\ Is("ContribReply")
                /\ bad' = IF Ev.for_caller /\ Len(Ev.for_others) = 0 THEN bad ELSE bad \cup {<<"shareowner", l>>}
                /\ UNCHANGED <<gen, out, holds, usable, thr, faults>>
Call == /\ Is("Call")
        /\ bad' = bad \cup (IF Ev.msg # "tick" /\ ~Ev.peer /\ (Ev.result = "ok" \/ Ev.changed) THEN {<<"nonpeer", l>>} ELSE {})
                      \cup (IF Ev.msg # "tick" /\ Ev.crashed THEN {<<"crash", l>>} ELSE {})
        /\ UNCHANGED <<gen, out, holds, usable, thr, faults>>

Parts == {out.participants[i] : i \in 1 .. Len(out.participants)}
HoldsOK(p) ==
    /\ p \in DOMAIN holds
    /\ holds[p].present /\ holds[p].in_fetcher
    /\ holds[p].composite = out.pubkey
    /\ holds[p].threshold = gen.t
    /\ holds[p].nvvec = gen.t
    /\ holds[p].share_ok
    /\ ~holds[p].crashed
    /\ \A q \in Parts : q \in DOMAIN holds => holds[q].vvec = holds[p].vvec /\ holds[q].participants = holds[p].participants
    /\ Cardinality(DOMAIN holds[p].participants) = Cardinality(Parts)

End == /\ Is("End")
       /\ LET judged == out # None
              ok == judged /\ out.ok
              mustfail == faults # {}
          IN bad' = bad
               \cup (IF ok /\ ~(2 * gen.t > gen.n /\ gen.t <= gen.n) THEN {<<"thresholdrule", l>>} ELSE {})
               \cup (IF ok /\ Cardinality(Parts) # gen.n THEN {<<"participants", l>>} ELSE {})
               \cup (IF ok THEN {<<"agreement", l, p>> : p \in {q \in Parts : ~HoldsOK(q)}} ELSE {})
               \cup (IF ok /\ thr # None /\ ~(thr.t_ok /\ thr.tm1_fail) THEN {<<"thresholdsig", l>>} ELSE {})
               \cup (IF ok /\ gen.probe THEN {<<"usable", l, p>> : p \in {q \in Parts : ~(q \in DOMAIN usable /\ usable[q].sign /\ usable[q].signkey /\ usable[q].list)}} ELSE {})
               \cup (IF ok /\ gen.probe /\ thr = None THEN {<<"thresholdsig", l>>} ELSE {})
               \cup (IF judged /\ mustfail /\ ok THEN {<<"faultsuccess", l>>} ELSE {})
               \cup (IF judged /\ mustfail THEN {<<"faultaccount", l, p>> : p \in {q \in DOMAIN holds : holds[q].present \/ holds[q].in_fetcher}} ELSE {})
               \cup (IF judged /\ mustfail /\ Len(Ev.crashed) > 0 THEN {<<"faultcrash", l>>} ELSE {})
               \* "the generation ends with an error to the client": a generation the client never hears of again has not ended
               \cup (IF judged /\ mustfail /\ "hung" \in DOMAIN out /\ out.hung THEN {<<"faulthang", l>>} ELSE {})
       /\ UNCHANGED <<gen, out, holds, usable, thr, faults>>

Other == /\ l <= Len(Trace) /\ Ev.ev \notin {"Begin", "FaultHit", "Outcome", "Holds", "Usable", "Threshold", "ContribReply", "Call", "End"}
         /\ l' = l + 1 /\ UNCHANGED <<gen, out, holds, usable, thr, faults, bad>>
Next == Begin \/ FaultEv \/ Outcome \/ Holds \/ Usable \/ Threshold \/ ContribReply \/ Call \/ End \/ Other
Spec == Init /\ [][Next]_vars
HighWater == TLCSet(1, IF l > TLCGet(1) THEN l ELSE TLCGet(1))
Accepted == TLCGet(1) = Len(Trace) + 1

Agreement == \A b \in bad : b[1] \notin {"agreement", "thresholdsig", "usable", "participants"}
ThresholdRule == \A b \in bad : b[1] # "thresholdrule"
FaultNoAccount == \A b \in bad : b[1] \notin {"faultsuccess", "faultaccount", "faultcrash", "faulthang"}
PeersOnly == \A b \in bad : b[1] \notin {"nonpeer", "shareowner"}
NoCrash == \A b \in bad : b[1] # "crash"
=============================================================================

------------------------------- MODULE PermTrace -------------------------------
(***************************************************************************)
(* Layer P for C07 (and the permission half of C18): reads a recorded run  *)
(* of operations attempted through the real handlers.  Config lines give   *)
(* the permission configuration in force (pattern ids of Perms.tla), Op    *)
(* lines say for which client / resolved wallet / account / operation an   *)
(* attempt was made, whether it was carried out and whether stored state   *)
(* changed.  The invariants are the property statement:                    *)
(*   ServedOnlyIfAllowed  carried out  =>  Decide allows it                *)
(*   RefusedNoChange      not carried out  =>  nothing stored changed      *)
(***************************************************************************)
EXTENDS Perms, Json

CONSTANTS TraceFile
Trace == ndJsonDeserialize(TraceFile)

VARIABLES l, cfg, bad
vars == <<l, cfg, bad>>
Ev == Trace[l]
Is(name) == l <= Len(Trace) /\ Ev.ev = name /\ l' = l + 1

Init == l = 1 /\ cfg = <<>> /\ bad = {} /\ TLCSet(1, 1)
Config == Is("Config") /\ cfg' = Ev.cfg /\ UNCHANGED bad
Op == /\ Is("Op")
      /\ bad' = bad \cup (IF Ev.served /\ ~Decide(cfg, Ev.client, Ev.wallet, Ev.account, Ev.op) THEN {<<"served", l>>} ELSE {})
                    \cup (IF ~Ev.served /\ Ev.changed THEN {<<"changed", l>>} ELSE {})
      /\ UNCHANGED cfg
Other == l <= Len(Trace) /\ Ev.ev \notin {"Config", "Op"} /\ l' = l + 1 /\ UNCHANGED <<cfg, bad>>
Next == Config \/ Op \/ Other
Spec == Init /\ [][Next]_vars
HighWater == TLCSet(1, IF l > TLCGet(1) THEN l ELSE TLCGet(1))
Accepted == TLCGet(1) = Len(Trace) + 1
ServedOnlyIfAllowed == \A b \in bad : b[1] # "served"
RefusedNoChange == \A b \in bad : b[1] # "changed"
=============================================================================

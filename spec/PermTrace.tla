------------------------------- MODULE PermTrace -------------------------------
(***************************************************************************)
(* Layer P for C07 (and the permission half of C18): reads a recorded run  *)
(* of operations attempted through the real handlers.  Config lines give   *)
(* the permission configuration in force (pattern ids of Perms.tla), Op    *)
(* lines say for which client / resolved wallet / account / operation an   *)
(* attempt was made, whether it was carried out and whether stored state   *)
(* changed.  The invariants are the property statement:                    *)
(*   ServedOnlyIfAllowed  carried out  =>  Decide allows it                *)
(*   RefusedNoChange      not carried out  =>  nothing stored changed      *)
(***************************************************************************)
EXTENDS Perms, Json

CONSTANTS TraceFile
Trace == ndJsonDeserialize(TraceFile)

VARIABLES l, cfg, bad,
          free        \* the current configuration came from a configuration file (its order is chosen by TLC)
vars == <<l, cfg, bad, free>>
Ev == Trace[l]
Is(name) == l <= Len(Trace) /\ Ev.ev = name /\ l' = l + 1

Init == l = 1 /\ cfg = <<>> /\ bad = {} /\ free = FALSE /\ TLCSet(1, 1)
\* A Config line of a run against the real binary says unordered = TRUE: the entries reached the program through its configuration
\* file, so it scans them in SOME order (Perms!Orders) that stays the same until the next Config line.  TLC picks the order; the
\* run is explained if one order explains every operation of it (the branch that reaches the end of the trace), which is why for
\* such runs "served only if allowed" is a guard of the step and not an entry of `bad`.
Unordered(e) == "unordered" \in DOMAIN e /\ e.unordered
Config == /\ Is("Config")
          /\ IF Unordered(Ev) THEN cfg' \in Orders(Ev.cfg) /\ free' = TRUE ELSE cfg' = Ev.cfg /\ free' = FALSE
          /\ UNCHANGED bad
Op == /\ Is("Op")
      /\ free => (Ev.served => Decide(cfg, Ev.client, Ev.wallet, Ev.account, Ev.op))
      /\ bad' = bad \cup (IF ~free /\ Ev.served /\ ~Decide(cfg, Ev.client, Ev.wallet, Ev.account, Ev.op) THEN {<<"served", l>>} ELSE {})
                    \cup (IF ~Ev.served /\ Ev.changed THEN {<<"changed", l>>} ELSE {})
      /\ UNCHANGED <<cfg, free>>
Other == l <= Len(Trace) /\ Ev.ev \notin {"Config", "Op"} /\ l' = l + 1 /\ UNCHANGED <<cfg, bad, free>>
Next == Config \/ Op \/ Other
Spec == Init /\ [][Next]_vars
HighWater == TLCSet(1, IF l > TLCGet(1) THEN l ELSE TLCGet(1))
Accepted == IF TLCGet(1) = Len(Trace) + 1 THEN TRUE ELSE PrintT(<<"HIGHWATER", TLCGet(1)>>) /\ FALSE
ServedOnlyIfAllowed == \A b \in bad : b[1] # "served"
RefusedNoChange == \A b \in bad : b[1] # "changed"
=============================================================================

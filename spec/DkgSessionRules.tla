------------------------------ MODULE DkgSessionRules ------------------------------
(***************************************************************************)
(* C17: the one-per-account lifecycle of key-generation sessions on one    *)
(* instance, as the property states it.  The instance is the participant   *)
(* with the highest identifier of {1,2,3} (so its Execute has nobody to    *)
(* contact); threshold 2; two account names.                               *)
(*                                                                         *)
(* State per account: no session / an active session with the set of       *)
(* lower-id participants whose contribution has arrived, and whether the   *)
(* account already exists in the wallet.  Every protocol message has a     *)
(* result class:                                                           *)
(*   ok | refused   (the handlers do not tell the client why)              *)
(* TLC writes the complete transition relation (state x message -> class,  *)
(* next state) as JSON; the harness reaches every state on the real        *)
(* process service through the real receiver handler and applies every     *)
(* message ("one implementation test per transition").                     *)
(***************************************************************************)
EXTENDS Integers, Sequences, FiniteSets, TLC

Accts == {"DW/s1", "DW/s2"}
Lower == {1, 2}
SessStates == [active : BOOLEAN, got : SUBSET Lower, exists : BOOLEAN]
Valid(s) == (~s.active => s.got = {})
States == {st \in [Accts -> SessStates] : \A a \in Accts : Valid(st[a])}
Msgs == {[m |-> m, a |-> a, from |-> 0] : m \in {"prepare", "execute", "commit", "abort"}, a \in Accts}
        \cup {[m |-> "contribute", a |-> a, from |-> j] : a \in Accts, j \in Lower}
        \cup {[m |-> "tick", a |-> "", from |-> 0]}

NoSess(s) == [s EXCEPT !.active = FALSE, !.got = {}]
Step(st, msg) ==     \* -> [class, next]
    IF msg.m = "tick" THEN [class |-> "ok", next |-> [a \in Accts |-> NoSess(st[a])]]    \* every session times out
    ELSE LET s == st[msg.a] IN
    CASE msg.m = "prepare" ->
           IF s.active THEN [class |-> "refused", next |-> st]                       \* refused, left intact
           ELSE [class |-> "ok", next |-> [st EXCEPT ![msg.a] = [s EXCEPT !.active = TRUE, !.got = {}]]]
      [] msg.m = "execute" ->
           IF s.active THEN [class |-> "ok", next |-> st] ELSE [class |-> "refused", next |-> st]
      [] msg.m = "contribute" ->
           IF s.active THEN [class |-> "ok", next |-> [st EXCEPT ![msg.a] = [s EXCEPT !.got = s.got \cup {msg.from}]]]
           ELSE [class |-> "refused", next |-> st]
      [] msg.m = "commit" ->
           IF ~s.active THEN [class |-> "refused", next |-> st]
           ELSE IF s.got # Lower THEN [class |-> "refused", next |-> st]                  \* not everybody has contributed
           ELSE IF s.exists THEN [class |-> "refused", next |-> st]                       \* the account cannot be created twice
           ELSE [class |-> "ok", next |-> [st EXCEPT ![msg.a] = [active |-> FALSE, got |-> {}, exists |-> TRUE]]]
      [] msg.m = "abort" ->
           IF s.active THEN [class |-> "ok", next |-> [st EXCEPT ![msg.a] = NoSess(s)]]
           ELSE [class |-> "refused", next |-> st]
\* "oddprepare": a prepare the instance may or may not be able to act on (threshold 0 - the value of an absent field; a participant list
\* without the instance itself; a threshold above the number of participants).  Whether it is accepted is the instance's business - but it
\* is refused while a generation is active, and the answer is the truth: accepted = a generation is active from now on, refused =
\* nothing has changed.  (result: what the instance answered.)
OddStep(s, a, result) ==
    IF s[a].active THEN [class |-> "refused", next |-> s]
    ELSE IF result = "ok" THEN [class |-> "ok", next |-> [s EXCEPT ![a] = [s[a] EXCEPT !.active = TRUE, !.got = {}]]]
    ELSE [class |-> result, next |-> s]

\* the law behind every "refused" of the property: a message that is refused changes nothing (checked over the whole relation when TLC
\* loads the module).  The unchanged code broke it for a prepare that failed after the generation had been put on record (/repo 3dccdd9).
RefusedChangesNothing ==
    /\ \A st \in States : \A msg \in Msgs : Step(st, msg).class = "refused" => Step(st, msg).next = st
    /\ \A st \in States : \A a \in Accts : \A res \in {"ok", "refused"} : OddStep(st, a, res).class = "refused" => OddStep(st, a, res).next = st
ASSUME RefusedChangesNothing

=============================================================================

------------------------------- MODULE PermTable -------------------------------
(***************************************************************************)
(* Tables enumerated by TLC for the transition-complete replay of C07:     *)
(*  match   : every (pattern, name) pair with the intended whole-name,     *)
(*            case-insensitive match                                       *)
(*  items   : every operation list of the catalogue x operation -> verdict *)
(*  compose : every sequence of up to three abstract entries               *)
(*            (matches?, verdict) -> decision, i.e. the scanning order     *)
(***************************************************************************)
EXTENDS Perms, Json

CONSTANTS OutFile

ItemLists == {<<"All">>, <<"None">>, <<"Sign">>, <<"~Sign">>, <<"Sign", "None">>, <<"None", "Sign">>, <<"~Sign", "All">>, <<"All", "~Sign">>,
              <<"Access account">>, <<"~Access account", "All">>, <<"Sign beacon attestation", "Sign beacon proposal">>,
              <<"Lock wallet", "Unlock wallet", "Create account">>, <<"sign">>, <<"ALL">>, <<"none">>, <<"~SIGN", "all">>,
              <<"Lock account", "~Unlock account">>, <<>>}

MatchTable == {[p |-> p, re |-> Pat[p].re, name |-> n, m |-> Match(p, n)] : p \in PatIds, n \in Names}
\* item comparison in the code is case-insensitive; the catalogue contains lower/upper-case variants whose
\* intended meaning is that of the canonical spelling
Canon(it) == IF it = "sign" THEN "Sign" ELSE IF it = "ALL" \/ it = "all" THEN "All" ELSE IF it = "none" THEN "None" ELSE IF it = "~SIGN" THEN "~Sign" ELSE it
CanonList(l) == [i \in 1 .. Len(l) |-> Canon(l[i])]
ItemsTable == {[items |-> l, op |-> op, v |-> ItemsVerdict(CanonList(l), op)] : l \in ItemLists, op \in Ops}

AbsEntry == [m : BOOLEAN, v : {"allow", "deny", "none"}]
AbsSeqs == {<<>>} \cup {<<a>> : a \in AbsEntry} \cup {<<a, b>> : a \in AbsEntry, b \in AbsEntry}
            \cup {<<a, b, c>> : a \in AbsEntry, b \in AbsEntry, c \in AbsEntry}
RECURSIVE AbsVerdict(_)
AbsVerdict(s) == IF s = <<>> THEN "none"
                 ELSE IF Head(s).m /\ Head(s).v # "none" THEN Head(s).v ELSE AbsVerdict(Tail(s))
ComposeTable == {[entries |-> s, allow |-> (AbsVerdict(s) = "allow")] : s \in AbsSeqs}

ASSUME JsonSerialize(OutFile, [match |-> MatchTable, items |-> ItemsTable, compose |-> ComposeTable,
                               counts |-> [match |-> Cardinality(MatchTable), items |-> Cardinality(ItemsTable), compose |-> Cardinality(ComposeTable)]])
VARIABLE x
Init == x = 0
Next == UNCHANGED x
Spec == Init /\ [][Next]_x
=============================================================================

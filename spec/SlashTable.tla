------------------------------ MODULE SlashTable ------------------------------
(***************************************************************************)
(* The complete transition table of the sequential rules (SlashRules):     *)
(* every stored record x every request.  TLC evaluates it once and writes  *)
(* it as JSON; the harness replays every transition on the real code under *)
(* several concretisations of the abstract epochs ("one implementation     *)
(* test per transition").                                                  *)
(***************************************************************************)
EXTENDS SlashRules, TLC, Json

CONSTANTS OutFile, AttDomsT, PropDomsT, GenDomsT, RootsT, WithPairs

AttTable ==
    { [ps |-> st.s, pt |-> st.t, s |-> s, t |-> t, dom |-> dom,
       v |-> AttVerdict(st, s, t, dom), ns |-> AttNext(st, s, t, dom).s, nt |-> AttNext(st, s, t, dom).t] :
        st \in [s : Stored, t : Stored], s \in E, t \in E, dom \in AttDomsT }

PropTable ==
    { [pp |-> ps, slot |-> slot, dom |-> dom, v |-> PropVerdict(ps, slot, dom), np |-> PropNext(ps, slot, dom)] :
        ps \in Stored, slot \in E, dom \in PropDomsT }

GenTable ==
    { [dom |-> dom, ip |-> ip, v |-> GenericVerdict(dom, ip)] : dom \in GenDomsT, ip \in IPClasses }

\* Every ordered pair of requests on a fresh key (all two-step histories), with expected outcome.
AttOps == [s : E, t : E, root : RootsT]
AttPairs ==
    { LET st0 == NoneAtt
          v1  == AttVerdict(st0, a.s, a.t, "att")
          st1 == AttNext(st0, a.s, a.t, "att")
          v2  == AttVerdict(st1, b.s, b.t, "att")
          st2 == AttNext(st1, b.s, b.t, "att")
      IN [s1 |-> a.s, t1 |-> a.t, r1 |-> a.root, s2 |-> b.s, t2 |-> b.t, r2 |-> b.root,
          v1 |-> v1, v2 |-> v2, ns |-> st2.s, nt |-> st2.t] : a \in AttOps, b \in AttOps }
PropOps == [slot : E, root : RootsT]
PropPairs ==
    { LET v1 == PropVerdict(NonePs, a.slot, "prop")
          p1 == PropNext(NonePs, a.slot, "prop")
          v2 == PropVerdict(p1, b.slot, "prop")
          p2 == PropNext(p1, b.slot, "prop")
      IN [slot1 |-> a.slot, r1 |-> a.root, slot2 |-> b.slot, r2 |-> b.root, v1 |-> v1, v2 |-> v2, np |-> p2] :
          a \in PropOps, b \in PropOps }

ASSUME JsonSerialize(OutFile, [att |-> AttTable, prop |-> PropTable, gen |-> GenTable,
                               attpairs |-> IF WithPairs THEN AttPairs ELSE {}, proppairs |-> IF WithPairs THEN PropPairs ELSE {},
                               counts |-> [att |-> Cardinality(AttTable), prop |-> Cardinality(PropTable), gen |-> Cardinality(GenTable)]])

VARIABLE x
Init == x = 0
Next == UNCHANGED x
Spec == Init /\ [][Next]_x
=============================================================================

----------------------------- MODULE DkgConcTrace -----------------------------
(***************************************************************************)
(* Layer-D trace validation for DkgConc: the key-generation messages that  *)
(* the instances of a real (in-process) cluster sent each other while two  *)
(* or three generations ran at the same time - every send and every return *)
(* of prepare / execute / contribute / commit, in the order the harness    *)
(* network saw them - must be explainable as a behaviour of DkgConc.tla:   *)
(* each logged send or return is an assertion on the model state, the      *)
(* handlers' work (taking an instance's mutex, acting, releasing it) is    *)
(* placed by TLC as silent DkgConc steps between them.  The first line of  *)
(* the trace gives the instances and, per generation, its name, initiator  *)
(* and participants in the order the initiator addressed them; the last    *)
(* lines say what each client was told.  A trace TLC cannot explain is     *)
(* DRIFT of the model, not a verdict.                                      *)
(***************************************************************************)
EXTENDS Integers, Sequences, FiniteSets, TLC, Json
CONSTANT TraceFile
Trace == ndJsonDeserialize(TraceFile)
Cfg == Trace[1]
TI == {Cfg.I[i] : i \in 1 .. Len(Cfg.I)}
GenRecs == {Cfg.gens[i] : i \in 1 .. Len(Cfg.gens)}
TGens == {r.g : r \in GenRecs}
GenRec(g) == CHOOSE r \in GenRecs : r.g = g

VARIABLES mu, sess, acct, pc, k, ex, committed, cerr, l
dvars == <<mu, sess, acct, pc, k, ex, committed, cerr>>
D == INSTANCE DkgConc WITH I <- TI, Gens <- TGens, NameOf <- [g \in TGens |-> GenRec(g).name], InitOf <- [g \in TGens |-> GenRec(g).init],
                           PartsOf <- [g \in TGens |-> GenRec(g).parts], ContribTo <- "higher", SessionKey <- "name", PrepareOverwrites <- FALSE

Ev == Trace[l]
Is(name, typ) == l <= Len(Trace) /\ Ev.ev = name /\ Ev.type = typ /\ l' = l + 1 /\ UNCHANGED dvars
\* the generation a message of the initiator belongs to; for a contribution, any generation of that name that is swapping at the sender
OfInit(g) == GenRec(g).init = Ev.from /\ GenRec(g).name = Ev.account
At(g, p) == k[g] <= Len(GenRec(g).parts) /\ GenRec(g).parts[k[g]] = p

Init == D!Init /\ l = 2 /\ TLCSet(1, 2)
SendPrepare == Is("Msg", "prepare") /\ \E g \in TGens : OfInit(g) /\ pc[g] = "prepare" /\ At(g, Ev.to)
DonePrepare == Is("MsgDone", "prepare") /\ \E g \in TGens :
                  /\ OfInit(g) /\ ~(pc[g] \in {"prepare", "preparing"} /\ At(g, Ev.to))
                  /\ IF Ev.ok THEN pc[g] # "failed" \/ sess[Ev.to][GenRec(g).name].gen = g ELSE pc[g] = "failed"
SendExecute == Is("Msg", "execute") /\ \E g \in TGens : OfInit(g) /\ pc[g] = "execute" /\ At(g, Ev.to)
DoneExecute == Is("MsgDone", "execute") /\ \E g \in TGens :
                  /\ OfInit(g) /\ ~(pc[g] \in {"execute", "swapping", "execfail"} /\ At(g, Ev.to))
                  /\ (~Ev.ok => pc[g] = "failed")
SendContrib == Is("Msg", "contribute") /\ \E g \in TGens : GenRec(g).name = Ev.account /\ pc[g] = "swapping" /\ At(g, Ev.from) /\ Ev.to \in ex[g]
DoneContrib == Is("MsgDone", "contribute") /\ \E g \in TGens :
                  /\ GenRec(g).name = Ev.account
                  /\ IF Ev.ok THEN ~(pc[g] = "swapping" /\ At(g, Ev.from) /\ Ev.to \in ex[g]) ELSE pc[g] = "failed"
SendCommit == Is("Msg", "commit") /\ \E g \in TGens : OfInit(g) /\ pc[g] = "commit"
DoneCommit == Is("MsgDone", "commit") /\ \E g \in TGens :
                  /\ OfInit(g) /\ Ev.to \in committed[g]
                  /\ IF Ev.ok THEN acct[Ev.to][GenRec(g).name] = g ELSE cerr[g]
Outcome == /\ l <= Len(Trace) /\ Ev.ev = "Outcome" /\ l' = l + 1 /\ UNCHANGED dvars
           /\ pc[Ev.g] = (IF Ev.ok THEN "ok" ELSE "failed")
Silent == (\E g \in TGens : D!Step(g)) /\ UNCHANGED l
Next == SendPrepare \/ DonePrepare \/ SendExecute \/ DoneExecute \/ SendContrib \/ DoneContrib \/ SendCommit \/ DoneCommit \/ Outcome \/ Silent
Spec == Init /\ [][Next]_<<dvars, l>>
HighWater == TLCSet(1, IF l > TLCGet(1) THEN l ELSE TLCGet(1))
Accepted == IF TLCGet(1) = Len(Trace) + 1 THEN TRUE ELSE PrintT(<<"HIGHWATER", TLCGet(1)>>) /\ FALSE
=============================================================================

--------------------------------- MODULE Perms ---------------------------------
(***************************************************************************)
(* C07 / C18: the permission decision, as the property states it.          *)
(*                                                                         *)
(* A configuration gives each client an ORDERED list of entries            *)
(* [w, a, ops]: a wallet pattern, an account pattern and an ordered list   *)
(* of operation items ("All", "None", an operation, or "~" operation).     *)
(* Decide scans the client's entries in order and, within each entry whose *)
(* patterns match the WHOLE wallet and account name case-insensitively,    *)
(* its items in order; the first item bearing on the operation decides;    *)
(* no bearing item, unknown or empty client: refused.                      *)
(*                                                                         *)
(* Patterns and names come from small catalogues; what a pattern matches   *)
(* (whole name, case-insensitive) is stated extensionally below - this is  *)
(* the intended meaning, independent of how the code compiles patterns.    *)
(* Render(p) is the text handed to the real checker.                       *)
(***************************************************************************)
EXTENDS Integers, Sequences, FiniteSets, TLC

\* ---- names (wallets and accounts share the catalogue; "" is the account name of a wallet-level operation)
Names == {"Wallet1", "Wallet2", "Wallet10", "xWallet2", "wallet1", "W", "acc", "Acc1", ""}

\* ---- patterns: id -> [re (text given to the checker), m (set of catalogue names matched as a whole, ignoring case)]
Pat == [
  lit1    |-> [re |-> "Wallet1",          m |-> {"Wallet1", "wallet1"}],
  lit2    |-> [re |-> "Wallet2",          m |-> {"Wallet2"}],
  alt12   |-> [re |-> "Wallet1|Wallet2",  m |-> {"Wallet1", "wallet1", "Wallet2"}],
  alt21x  |-> [re |-> "Wallet2|acc",      m |-> {"Wallet2", "acc"}],
  upper1  |-> [re |-> "WALLET1",          m |-> {"Wallet1", "wallet1"}],
  star    |-> [re |-> "Wallet.*",         m |-> {"Wallet1", "Wallet2", "Wallet10", "wallet1"}],
  class12 |-> [re |-> "Wallet[12]",       m |-> {"Wallet1", "Wallet2", "wallet1"}],
  anch1   |-> [re |-> "^Wallet1$",        m |-> {"Wallet1", "wallet1"}],
  anchalt |-> [re |-> "^Wallet1|Wallet2$",m |-> {"Wallet1", "wallet1", "Wallet2"}],
  opt0    |-> [re |-> "Wallet10?",        m |-> {"Wallet1", "wallet1", "Wallet10"}],
  any     |-> [re |-> ".*",               m |-> Names],
  empty   |-> [re |-> "",                 m |-> Names],
  acc     |-> [re |-> "acc",              m |-> {"acc"}],
  accs    |-> [re |-> "acc.*",            m |-> {"acc", "Acc1"}],
  w       |-> [re |-> "W",                m |-> {"W"}]
]
PatIds == DOMAIN Pat
\* wallet patterns may not be empty (the checker refuses a blank wallet) - "empty" is an account pattern only
WalletPats == PatIds \ {"empty"}
Match(p, name) == name \in Pat[p].m

\* ---- operations and items
Ops == {"Sign", "Sign beacon attestation", "Sign beacon proposal", "Access account", "Lock account", "Unlock account",
        "Create account", "Lock wallet", "Unlock wallet"}
Anti(op) == CHOOSE s \in {"~Sign", "~Sign beacon attestation", "~Sign beacon proposal", "~Access account", "~Lock account",
                          "~Unlock account", "~Create account", "~Lock wallet", "~Unlock wallet"} :
                \/ op = "Sign" /\ s = "~Sign"
                \/ op = "Sign beacon attestation" /\ s = "~Sign beacon attestation"
                \/ op = "Sign beacon proposal" /\ s = "~Sign beacon proposal"
                \/ op = "Access account" /\ s = "~Access account"
                \/ op = "Lock account" /\ s = "~Lock account"
                \/ op = "Unlock account" /\ s = "~Unlock account"
                \/ op = "Create account" /\ s = "~Create account"
                \/ op = "Lock wallet" /\ s = "~Lock wallet"
                \/ op = "Unlock wallet" /\ s = "~Unlock wallet"

\* verdict of one item list for an operation: "allow", "deny" or "none" (no item bears on it)
RECURSIVE ItemsVerdict(_, _)
ItemsVerdict(items, op) ==
    IF items = <<>> THEN "none"
    ELSE LET it == Head(items) IN
         IF it = "None" \/ it = Anti(op) THEN "deny"
         ELSE IF it = "All" \/ it = op THEN "allow"
         ELSE ItemsVerdict(Tail(items), op)

RECURSIVE EntriesVerdict(_, _, _, _)
EntriesVerdict(entries, wallet, account, op) ==
    IF entries = <<>> THEN "none"
    ELSE LET e == Head(entries)
             v == IF Match(e.w, wallet) /\ Match(e.a, account) THEN ItemsVerdict(e.ops, op) ELSE "none"
         IN IF v # "none" THEN v ELSE EntriesVerdict(Tail(entries), wallet, account, op)

\* The shipped configuration file gives a client's entries as a MAPPING path -> operations; the program builds the list by ranging over
\* a map, so the order in which overlapping entries are scanned is fixed per process start but not determined by the file.
\* Orders(cfg) is the set of configurations the program may be running with: every client's entries in some order.
PermSeqs(seq) == {[i \in 1 .. Len(seq) |-> seq[p[i]]] : p \in Permutations(1 .. Len(seq))}
Orders(cfg) == {f \in [DOMAIN cfg -> UNION {PermSeqs(cfg[k]) : k \in DOMAIN cfg}] : \A k \in DOMAIN cfg : f[k] \in PermSeqs(cfg[k])}

\* cfg : function from client names to sequences of entries
Decide(cfg, client, wallet, account, op) ==
    /\ client # ""
    /\ client \in DOMAIN cfg
    /\ wallet # ""
    /\ EntriesVerdict(cfg[client], wallet, account, op) = "allow"
=============================================================================

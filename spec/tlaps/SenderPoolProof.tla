--------------------------- MODULE SenderPoolProof ---------------------------
(***************************************************************************)
(* TLAPS proof, for EVERY set of peers and calls and every capacity (not   *)
(* only the two peers, five calls and capacity 2 that TLC enumerates), of  *)
(* the invariant NoLeak of SenderPool.tla in its shipped configuration     *)
(* (ReleaseOn = "always"): a pooled connection is only ever held by a call *)
(* that is in flight.  The specification below is SenderPool.tla with the  *)
(* design-mutant switch fixed to its shipped value.                        *)
(***************************************************************************)
EXTENDS Integers, FiniteSets, TLAPS

CONSTANTS Peers, Calls, Cap

VARIABLES pc, peer, held, refused
vars == <<pc, peer, held, refused>>

Init == /\ pc = [c \in Calls |-> "new"]
        /\ peer \in [Calls -> Peers]
        /\ held = [p \in Peers |-> {}]
        /\ refused = [c \in Calls |-> FALSE]

Start(c) == /\ pc[c] = "new" /\ pc' = [pc EXCEPT ![c] = "waiting"] /\ UNCHANGED <<peer, held, refused>>
Acquire(c) == /\ pc[c] = "waiting" /\ Cardinality(held[peer[c]]) < Cap
              /\ held' = [held EXCEPT ![peer[c]] = @ \cup {c}]
              /\ pc' = [pc EXCEPT ![c] = "calling"] /\ UNCHANGED <<peer, refused>>
Return(c) == /\ pc[c] = "calling"
             /\ \E r \in BOOLEAN : refused' = [refused EXCEPT ![c] = r]
             /\ held' = [held EXCEPT ![peer[c]] = @ \ {c}]
             /\ pc' = [pc EXCEPT ![c] = "done"] /\ UNCHANGED peer
Next == \E c \in Calls : Start(c) \/ Acquire(c) \/ Return(c)
Spec == Init /\ [][Next]_vars

NoLeak == \A p \in Peers : \A c \in held[p] : pc[c] = "calling"

\* inductive invariant: types, and a connection of peer p is held exactly by calls TO p that are in flight
IndInv == /\ pc \in [Calls -> {"new", "waiting", "calling", "done"}]
          /\ peer \in [Calls -> Peers]
          /\ held \in [Peers -> SUBSET Calls]
          /\ \A p \in Peers : \A c \in held[p] : pc[c] = "calling" /\ peer[c] = p

LEMMA InitInv == Init => IndInv
  BY DEF Init, IndInv

LEMMA StepInv == IndInv /\ [Next]_vars => IndInv'
<1> SUFFICES ASSUME IndInv, [Next]_vars PROVE IndInv'
  OBVIOUS
<1>1. CASE UNCHANGED vars
  BY <1>1 DEF IndInv, vars
<1>2. ASSUME NEW c \in Calls, Start(c) PROVE IndInv'
  BY <1>2 DEF IndInv, Start
<1>3. ASSUME NEW c \in Calls, Acquire(c) PROVE IndInv'
  BY <1>3 DEF IndInv, Acquire
<1>4. ASSUME NEW c \in Calls, Return(c) PROVE IndInv'
  BY <1>4 DEF IndInv, Return
<1> QED
  BY <1>1, <1>2, <1>3, <1>4 DEF Next

LEMMA InvNoLeak == IndInv => NoLeak
  BY DEF IndInv, NoLeak

THEOREM Safety == Spec => []NoLeak
<1>1. Init => IndInv
  BY InitInv
<1>2. IndInv /\ [Next]_vars => IndInv'
  BY StepInv
<1>3. IndInv => NoLeak
  BY InvNoLeak
<1> QED
  BY <1>1, <1>2, <1>3, PTL DEF Spec
=============================================================================

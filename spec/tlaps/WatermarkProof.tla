---------------------------- MODULE WatermarkProof ----------------------------
(***************************************************************************)
(* TLAPS proof of the arithmetic core of C01 / C02 over UNBOUNDED integers *)
(* with the real constants: the shipped watermark rule (requests with an   *)
(* epoch or slot above MaxInt64 refused, record = last approved values as  *)
(* int64, -1 = nothing signed) never releases a slashable pair.  Same      *)
(* specification and inductive invariant as spec/apalache/Watermark.tla    *)
(* with Guard = TRUE (Apalache checks it by SMT unrolling; this is the     *)
(* deductive counterpart, checked by tlapm inside C01 and C02).            *)
(***************************************************************************)
EXTENDS Integers, TLAPS

\* tlapm cannot read integer literals of this size, and the proof does not need them: it holds for EVERY signed maximum M and
\* unsigned maximum 2M+1 - in particular for M = 2^63-1 (the values of spec/apalache/Watermark.tla and of the code)
CONSTANT MaxI64
ASSUME MaxAssm == MaxI64 \in Nat
MaxU64 == 2 * MaxI64 + 1

VARIABLES ws, wt, wp, relA, relP
vars == <<ws, wt, wp, relA, relP>>

ToI64(e) == IF e <= MaxI64 THEN e ELSE e - (MaxU64 + 1)

AttApproved(s, t) ==
    /\ ~((s # 0 \/ t # 0) /\ t <= s)
    /\ s <= MaxI64 /\ t <= MaxI64
    /\ (wt >= 0 => t > wt)
    /\ (ws >= 0 => s >= ws)
PropApproved(slot) ==
    /\ slot <= MaxI64
    /\ (wp >= 0 => slot > wp)

AttStep(s, t, root) ==
        IF AttApproved(s, t)
          THEN /\ ws' = ToI64(s) /\ wt' = ToI64(t)
               /\ relA' = relA \cup {[s |-> s, t |-> t, root |-> root]}
               /\ UNCHANGED <<wp, relP>>
          ELSE UNCHANGED <<ws, wt, wp, relA, relP>>
Att == \E s \in 0 .. MaxU64, t \in 0 .. MaxU64, root \in 0 .. 1 : AttStep(s, t, root)

PropStep(slot, root) ==
        IF PropApproved(slot)
          THEN /\ wp' = ToI64(slot)
               /\ relP' = relP \cup {[slot |-> slot, root |-> root]}
               /\ UNCHANGED <<ws, wt, relA>>
          ELSE UNCHANGED <<ws, wt, wp, relA, relP>>
Prop == \E slot \in 0 .. MaxU64, root \in 0 .. 1 : PropStep(slot, root)

Next == Att \/ Prop
Init == ws = -1 /\ wt = -1 /\ wp = -1 /\ relA = {} /\ relP = {}
Spec == Init /\ [][Next]_vars

Slashable(a, b) == \/ (a.t = b.t /\ (a.s # b.s \/ a.root # b.root))
                   \/ (a.s < b.s /\ b.t < a.t)
                   \/ (b.s < a.s /\ a.t < b.t)

NoSlashable == /\ \A a \in relA : \A b \in relA : ~Slashable(a, b)
               /\ \A a \in relP : \A b \in relP : (a.slot = b.slot => a.root = b.root)

AttRec == [s : Int, t : Int, root : Int]
PropRec == [slot : Int, root : Int]

IndInv ==
    /\ ws \in Int /\ wt \in Int /\ wp \in Int
    /\ relA \subseteq AttRec /\ relP \subseteq PropRec
    /\ ws >= -1 /\ wt >= -1 /\ wp >= -1
    /\ (ws = -1) <=> (wt = -1)
    /\ \A a \in relA : a.s >= 0 /\ a.t >= 0 /\ a.s <= ws /\ a.t <= wt /\ (a.t > a.s \/ (a.s = 0 /\ a.t = 0))
    /\ \A a \in relA : \A b \in relA : (a.t = b.t => a = b)
    /\ \A a \in relA : \A b \in relA : (a.t < b.t => a.s <= b.s)
    /\ \A a \in relP : a.slot >= 0 /\ a.slot <= wp
    /\ \A a \in relP : \A b \in relP : (a.slot = b.slot => a = b)

LEMMA InitInv == Init => IndInv
  BY DEF Init, IndInv, AttRec, PropRec

LEMMA InvSafe == IndInv => NoSlashable
  BY DEF IndInv, NoSlashable, Slashable, AttRec, PropRec

LEMMA AttInv == ASSUME IndInv, NEW s \in 0 .. MaxU64, NEW t \in 0 .. MaxU64, NEW root \in 0 .. 1, AttStep(s, t, root) PROVE IndInv'
<1>1. CASE ~AttApproved(s, t)
  BY <1>1 DEF AttStep, IndInv
<1>2. CASE AttApproved(s, t)
  <2> DEFINE n == [s |-> s, t |-> t, root |-> root]
  <2>1. ws' = s /\ wt' = t /\ relA' = relA \cup {n} /\ wp' = wp /\ relP' = relP
    BY <1>2, MaxAssm DEF AttStep, AttApproved, ToI64, MaxU64
  <2>2. s \in Int /\ t \in Int /\ root \in Int /\ s >= 0 /\ t >= 0 /\ n \in AttRec /\ n.s = s /\ n.t = t
    BY MaxAssm DEF AttRec, MaxU64
  <2>3. (t > s \/ (s = 0 /\ t = 0)) /\ (wt >= 0 => t > wt) /\ (ws >= 0 => s >= ws)
    BY <1>2, <2>2 DEF AttApproved
  <2>4. \A a \in relA : a.t < t /\ a.s <= s /\ a.s \in Int /\ a.t \in Int
    BY <2>2, <2>3 DEF IndInv, AttRec
  <2>5. \A a \in relA' : a.s >= 0 /\ a.t >= 0 /\ a.s <= ws' /\ a.t <= wt' /\ (a.t > a.s \/ (a.s = 0 /\ a.t = 0))
    BY <2>1, <2>2, <2>3, <2>4 DEF IndInv
  <2>6. \A a \in relA' : \A b \in relA' : (a.t = b.t => a = b)
    BY <2>1, <2>2, <2>4 DEF IndInv
  <2>7. \A a \in relA' : \A b \in relA' : (a.t < b.t => a.s <= b.s)
    BY <2>1, <2>2, <2>4 DEF IndInv
  <2>8. relA' \subseteq AttRec /\ ws' \in Int /\ wt' \in Int /\ ws' >= -1 /\ wt' >= -1 /\ ((ws' = -1) <=> (wt' = -1))
    BY <2>1, <2>2 DEF IndInv
  <2> QED BY <2>1, <2>5, <2>6, <2>7, <2>8 DEF IndInv
<1> QED BY <1>1, <1>2

LEMMA PropInv == ASSUME IndInv, NEW slot \in 0 .. MaxU64, NEW root \in 0 .. 1, PropStep(slot, root) PROVE IndInv'
<1>1. CASE ~PropApproved(slot)
  BY <1>1 DEF PropStep, IndInv
<1>2. CASE PropApproved(slot)
  <2> DEFINE n == [slot |-> slot, root |-> root]
  <2>1. wp' = slot /\ relP' = relP \cup {n} /\ ws' = ws /\ wt' = wt /\ relA' = relA
    BY <1>2, MaxAssm DEF PropStep, PropApproved, ToI64, MaxU64
  <2>2. slot \in Int /\ root \in Int /\ slot >= 0 /\ n \in PropRec /\ n.slot = slot
    BY MaxAssm DEF PropRec, MaxU64
  <2>3. \A a \in relP : a.slot < slot /\ a.slot \in Int
    BY <1>2, <2>2 DEF IndInv, PropApproved, PropRec
  <2>4. \A a \in relP' : a.slot >= 0 /\ a.slot <= wp'
    BY <2>1, <2>2, <2>3 DEF IndInv
  <2>5. \A a \in relP' : \A b \in relP' : (a.slot = b.slot => a = b)
    BY <2>1, <2>2, <2>3 DEF IndInv
  <2>6. relP' \subseteq PropRec /\ wp' \in Int /\ wp' >= -1
    BY <2>1, <2>2 DEF IndInv
  <2> QED BY <2>1, <2>4, <2>5, <2>6 DEF IndInv
<1> QED BY <1>1, <1>2

LEMMA StepInv == IndInv /\ [Next]_vars => IndInv'
<1> SUFFICES ASSUME IndInv, [Next]_vars PROVE IndInv'
  OBVIOUS
<1>1. CASE UNCHANGED vars
  BY <1>1 DEF vars, IndInv
<1>2. CASE Att
  BY <1>2, AttInv DEF Att
<1>3. CASE Prop
  BY <1>3, PropInv DEF Prop
<1> QED BY <1>1, <1>2, <1>3 DEF Next

THEOREM Safety == Spec => []NoSlashable
  BY PTL, InitInv, StepInv, InvSafe DEF Spec
=============================================================================

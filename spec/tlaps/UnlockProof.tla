----------------------------- MODULE UnlockProof -----------------------------
(***************************************************************************)
(* TLAPS proof, for EVERY set of accounts and requests and every choice of *)
(* what each request names (not only MCUnlock's configurations), of two    *)
(* invariants of Unlock.tla in the shipped design (ShareMode = "each",     *)
(* no LockAccount in between): no pre-check worker ever waits for another  *)
(* one (NobodyWaits - so a request that has not come back can always take  *)
(* a step of its own) and nobody is refused for an account that can be     *)
(* unlocked (NoSpuriousDenial); a worker that reported success leaves the  *)
(* account open (OpenAfterUnlock).  The specification below is Unlock.tla  *)
(* with the design-mutant switches fixed to their shipped values.          *)
(***************************************************************************)
EXTENDS Integers, Sequences, TLAPS

CONSTANTS Accts, Reqs, Wants
ASSUME WantsType == Wants \in [Reqs -> Seq(Accts)]

W(r) == 1 .. Len(Wants[r])
A(r, i) == Wants[r][i]
WStates == {"check", "decrypt", "wait", "ok", "denied"}

VARIABLES open, rpc, wpc
vars == <<open, rpc, wpc>>

Init == /\ open = [a \in Accts |-> FALSE]
        /\ rpc = [r \in Reqs |-> "idle"]
        /\ wpc = [r \in Reqs |-> [i \in W(r) |-> "check"]]

Start(r) == /\ rpc[r] = "idle" /\ rpc' = [rpc EXCEPT ![r] = "pre"] /\ UNCHANGED <<open, wpc>>
Check(r, i) == /\ rpc[r] = "pre" /\ wpc[r][i] = "check"
               /\ wpc' = [wpc EXCEPT ![r][i] = IF open[A(r, i)] THEN "ok" ELSE "decrypt"]
               /\ UNCHANGED <<open, rpc>>
Decrypt(r, i) == /\ wpc[r][i] = "decrypt"
                 /\ open' = [open EXCEPT ![A(r, i)] = TRUE]
                 /\ wpc' = [wpc EXCEPT ![r][i] = "ok"]
                 /\ UNCHANGED rpc
Join(r) == /\ rpc[r] = "pre" /\ \A i \in W(r) : wpc[r][i] \in {"ok", "denied"}
           /\ rpc' = [rpc EXCEPT ![r] = "done"] /\ UNCHANGED <<open, wpc>>
Next == \E r \in Reqs : Start(r) \/ Join(r) \/ \E i \in W(r) : Check(r, i) \/ Decrypt(r, i)
Spec == Init /\ [][Next]_vars

NobodyWaits == \A r \in Reqs : \A i \in W(r) : wpc[r][i] # "wait"
NoSpuriousDenial == \A r \in Reqs : \A i \in W(r) : wpc[r][i] # "denied"
OpenAfterUnlock == \A r \in Reqs : \A i \in W(r) : wpc[r][i] = "ok" => open[A(r, i)]

IndInv == /\ open \in [Accts -> BOOLEAN]
          /\ \A r \in Reqs : \A i \in W(r) : wpc[r][i] \in {"check", "decrypt", "ok"}
          /\ \A r \in Reqs : \A i \in W(r) : wpc[r][i] = "ok" => open[A(r, i)]
          /\ \A r \in Reqs : DOMAIN wpc[r] = W(r)
          /\ DOMAIN wpc = Reqs

LEMMA InitInv == Init => IndInv
  BY DEF Init, IndInv

LEMMA ATyped == \A r \in Reqs : \A i \in W(r) : A(r, i) \in Accts
  BY WantsType DEF W, A

LEMMA StepInv == IndInv /\ [Next]_vars => IndInv'
<1> SUFFICES ASSUME IndInv, [Next]_vars PROVE IndInv'
  OBVIOUS
<1>1. CASE UNCHANGED vars
  BY <1>1 DEF IndInv, vars
<1>2. ASSUME NEW r \in Reqs, Start(r) PROVE IndInv'
  BY <1>2 DEF IndInv, Start
<1>3. ASSUME NEW r \in Reqs, Join(r) PROVE IndInv'
  BY <1>3 DEF IndInv, Join
<1>4. ASSUME NEW r \in Reqs, NEW i \in W(r), Check(r, i) PROVE IndInv'
  BY <1>4, ATyped DEF IndInv, Check
<1>5. ASSUME NEW r \in Reqs, NEW i \in W(r), Decrypt(r, i) PROVE IndInv'
  BY <1>5, ATyped DEF IndInv, Decrypt
<1> QED
  BY <1>1, <1>2, <1>3, <1>4, <1>5 DEF Next

THEOREM Safety == Spec => [](NobodyWaits /\ NoSpuriousDenial /\ OpenAfterUnlock)
<1>1. Init => IndInv
  BY InitInv
<1>2. IndInv /\ [Next]_vars => IndInv'
  BY StepInv
<1>3. IndInv => NobodyWaits /\ NoSpuriousDenial /\ OpenAfterUnlock
  BY DEF IndInv, NobodyWaits, NoSpuriousDenial, OpenAfterUnlock
<1> QED
  BY <1>1, <1>2, <1>3, PTL DEF Spec
=============================================================================

----------------------------- MODULE ClusterProof -----------------------------
(***************************************************************************)
(* TLAPS proof, for EVERY number of instances N and threshold T with       *)
(* 2T > N (not only the N <= 7 that TLC enumerates), of the invariant of   *)
(* Cluster.tla in its shipped configuration (one record per instance,      *)
(* an old duty changes nothing): two conflicting duties never both collect *)
(* T partial signatures.                                                   *)
(*                                                                         *)
(* The specification below is Cluster.tla with the design-mutant switches  *)
(* fixed to their shipped values and the endpoint component dropped (it    *)
(* only matters for the SplitHistory mutant).                              *)
(***************************************************************************)
EXTENDS Integers, FiniteSets, FiniteSetTheorems, TLAPS

CONSTANTS N, T
ASSUME NT == N \in Nat /\ T \in Nat /\ 2 * T > N /\ T <= N

I == 1 .. N
Duties == {"A", "B"}
Other(d) == IF d = "A" THEN "B" ELSE "A"

VARIABLE signed          \* [I -> SUBSET Duties] the duties each instance has given a partial signature for
Init == signed = [i \in I |-> {}]
Request(i, d) == /\ Other(d) \notin signed[i]
                 /\ signed' = [signed EXCEPT ![i] = @ \cup {d}]
RequestOld(i) == UNCHANGED signed
RequestFault(i) == UNCHANGED signed        \* FaultMode = "closed": a request that meets a storage fault changes nothing
Next == \/ \E i \in I, d \in Duties : Request(i, d)
        \/ \E i \in I : RequestOld(i)
        \/ \E i \in I : RequestFault(i)
Spec == Init /\ [][Next]_signed

Partials(d) == {i \in I : d \in signed[i]}
NotBothThreshold == ~(Cardinality(Partials("A")) >= T /\ Cardinality(Partials("B")) >= T)

\* inductive invariant: no instance has both duties on record
IndInv == /\ signed \in [I -> SUBSET Duties]
          /\ \A i \in I : ~("A" \in signed[i] /\ "B" \in signed[i])

LEMMA InitInv == Init => IndInv
  BY DEF Init, IndInv

LEMMA StepInv == IndInv /\ [Next]_signed => IndInv'
<1> SUFFICES ASSUME IndInv, [Next]_signed PROVE IndInv'
  OBVIOUS
<1>1. CASE UNCHANGED signed
  BY <1>1 DEF IndInv
<1>2. ASSUME NEW i \in I, NEW d \in Duties, Request(i, d) PROVE IndInv'
  <2>1. signed' \in [I -> SUBSET Duties]
    BY <1>2 DEF Request, IndInv
  <2>2. \A j \in I : ~("A" \in signed'[j] /\ "B" \in signed'[j])
    BY <1>2 DEF Request, IndInv, Other, Duties
  <2> QED BY <2>1, <2>2 DEF IndInv
<1>3. ASSUME NEW i \in I, RequestOld(i) PROVE IndInv'
  BY <1>3 DEF RequestOld, IndInv
<1>4. ASSUME NEW i \in I, RequestFault(i) PROVE IndInv'
  BY <1>4 DEF RequestFault, IndInv
<1> QED BY <1>1, <1>2, <1>3, <1>4 DEF Next

\* the counting argument: disjoint subsets of 1..N cannot both have T > N/2 elements
LEMMA Quorum == IndInv => NotBothThreshold
<1> SUFFICES ASSUME IndInv, Cardinality(Partials("A")) >= T, Cardinality(Partials("B")) >= T PROVE FALSE
  BY DEF NotBothThreshold
<1>1. IsFiniteSet(I) /\ Cardinality(I) = N
  BY NT, FS_Interval DEF I
<1>2. Partials("A") \subseteq I /\ Partials("B") \subseteq I
  BY DEF Partials
<1>3. IsFiniteSet(Partials("A")) /\ IsFiniteSet(Partials("B"))
  BY <1>1, <1>2, FS_Subset
<1>4. Cardinality(Partials("A")) \in Nat /\ Cardinality(Partials("B")) \in Nat
  BY <1>3, FS_CardinalityType
<1>5. Cardinality(Partials("A")) + Cardinality(Partials("B")) > Cardinality(I)
  BY <1>1, <1>4, NT
<1>6. Partials("A") \cap Partials("B") # {}
  BY <1>1, <1>2, <1>5, FS_MajoritiesIntersect
<1>7. PICK i \in I : "A" \in signed[i] /\ "B" \in signed[i]
  BY <1>6 DEF Partials
<1> QED BY <1>7 DEF IndInv

THEOREM Safety == Spec => []NotBothThreshold
<1>1. IndInv /\ UNCHANGED signed => IndInv'
  BY DEF IndInv
<1> QED BY PTL, InitInv, StepInv, Quorum DEF Spec
=============================================================================

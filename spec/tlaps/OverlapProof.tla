----------------------------- MODULE OverlapProof -----------------------------
(***************************************************************************)
(* TLAPS proof, for EVERY set of process incarnations, every set of block  *)
(* roots and UNBOUNDED slots (not only the three processes and four slots  *)
(* that TLC enumerates), of NoDoubleProposal in Overlap.tla with the       *)
(* directory lock in place (DirLock = TRUE, the shipped design): whatever  *)
(* the sequence of starts, kills and requests, no two different blocks are *)
(* signed for one slot.  The specification below is Overlap.tla with the   *)
(* design-mutant switch fixed to its shipped value.                        *)
(***************************************************************************)
EXTENDS Integers, TLAPS

CONSTANTS Procs, Roots

VARIABLES running, started, view, disk, signed
vars == <<running, started, view, disk, signed>>

Init == running = {} /\ started = {} /\ view = [p \in Procs |-> -1] /\ disk = -1 /\ signed = {}

Start(p) == /\ p \notin started
            /\ running = {}
            /\ running' = running \cup {p} /\ started' = started \cup {p}
            /\ view' = [view EXCEPT ![p] = disk]
            /\ UNCHANGED <<disk, signed>>
Kill(p) == /\ p \in running /\ running' = running \ {p} /\ UNCHANGED <<started, view, disk, signed>>
Sign(p, s, r) == /\ p \in running /\ s > view[p]
                 /\ view' = [view EXCEPT ![p] = s]
                 /\ disk' = s
                 /\ signed' = signed \cup {[slot |-> s, root |-> r, by |-> p]}
                 /\ UNCHANGED <<running, started>>
Next == \E p \in Procs : Start(p) \/ Kill(p) \/ \E s \in Nat : \E r \in Roots : Sign(p, s, r)
Spec == Init /\ [][Next]_vars

NoDoubleProposal == \A a, b \in signed : a.slot = b.slot => a = b

IndInv == /\ running \subseteq Procs
          /\ view \in [Procs -> Int]
          /\ disk \in Int
          /\ signed \subseteq [slot : Nat, root : Roots, by : Procs]
          /\ \A p, q \in running : p = q                       \* the directory lock: one process at a time
          /\ \A p \in running : view[p] = disk                 \* the running process knows what is on disk
          /\ \A a \in signed : a.slot <= disk                  \* and the disk covers everything ever signed
          /\ \A a, b \in signed : a.slot = b.slot => a = b

LEMMA InitInv == Init => IndInv
  BY DEF Init, IndInv

LEMMA StepInv == IndInv /\ [Next]_vars => IndInv'
<1> SUFFICES ASSUME IndInv, [Next]_vars PROVE IndInv'
  OBVIOUS
<1>1. CASE UNCHANGED vars
  BY <1>1 DEF IndInv, vars
<1>2. ASSUME NEW p \in Procs, Start(p) PROVE IndInv'
  BY <1>2 DEF IndInv, Start
<1>3. ASSUME NEW p \in Procs, Kill(p) PROVE IndInv'
  BY <1>3 DEF IndInv, Kill
<1>4. ASSUME NEW p \in Procs, NEW s \in Nat, NEW r \in Roots, Sign(p, s, r) PROVE IndInv'
  <2>1. s > disk
    BY <1>4 DEF IndInv, Sign
  <2>2. \A a \in signed : a.slot < s
    BY <2>1 DEF IndInv
  <2>3. signed' = signed \cup {[slot |-> s, root |-> r, by |-> p]} /\ disk' = s /\ running' = running /\ view' = [view EXCEPT ![p] = s]
    BY <1>4 DEF Sign
  <2>4. \A q \in running : q = p
    BY <1>4 DEF IndInv, Sign
  <2> QED
    BY <2>1, <2>2, <2>3, <2>4 DEF IndInv
<1> QED
  BY <1>1, <1>2, <1>3, <1>4 DEF Next

THEOREM Safety == Spec => []NoDoubleProposal
<1>1. Init => IndInv
  BY InitInv
<1>2. IndInv /\ [Next]_vars => IndInv'
  BY StepInv
<1>3. IndInv => NoDoubleProposal
  BY DEF IndInv, NoDoubleProposal
<1> QED
  BY <1>1, <1>2, <1>3, PTL DEF Spec
=============================================================================

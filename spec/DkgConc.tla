-------------------------------- MODULE DkgConc --------------------------------
(***************************************************************************)
(* Layer D: TWO key generations running at the same time on overlapping    *)
(* instances (services/process/standard).  What Dkg.tla leaves out:        *)
(*                                                                         *)
(*  * every handler of an instance (OnPrepare, OnExecute, OnContribute,    *)
(*    OnCommit, OnAbort) runs under ONE mutex of that instance's process   *)
(*    service (generationsMu) - for all account names;                     *)
(*  * OnExecute keeps that mutex while it sends its contribution to every  *)
(*    participant with a HIGHER id and waits for the reply, and the        *)
(*    receiver's OnContribute needs the receiver's mutex;                  *)
(*  * sessions are kept per account name; a prepare for a name that has a  *)
(*    session is refused; the two generations may use the same name.       *)
(*                                                                         *)
(* Steps are the acquisitions and releases of the instance mutexes, so     *)
(* TLC explores every interleaving of the two generations' messages.       *)
(* Checked: no state in which unfinished generations all wait (deadlock),  *)
(* both generations end under fairness, a generation that reports success  *)
(* has its account - built from exactly its participants' contributions -  *)
(* on every one of its participants, sessions never outlive success.       *)
(* Design mutants: ContribTo = "all" (contributions are sent to every      *)
(* other participant, not only to higher ids: two executes wait for each   *)
(* other's mutex), SessionKey = "instance" (one session slot per instance, *)
(* whatever the name), PrepareOverwrites (a prepare for a name in progress *)
(* replaces the session instead of being refused).                         *)
(***************************************************************************)
EXTENDS Integers, Sequences, FiniteSets, TLC

CONSTANTS I,                \* instance ids (a set of naturals)
          Gens,             \* generation ids, e.g. {"g1", "g2"}
          NameOf,           \* [Gens -> account names]
          InitOf,           \* [Gens -> I]   the instance the client asks
          PartsOf,          \* [Gens -> Seq(I)] the participants in the order the initiator addresses them
          ContribTo,        \* "higher" (shipped) | "all"
          SessionKey,       \* "name" (shipped) | "instance"
          PrepareOverwrites \* FALSE (shipped)

None == "none"
Names == {NameOf[g] : g \in Gens}
PSet(g) == {PartsOf[g][k] : k \in 1 .. Len(PartsOf[g])}
Slot(n) == IF SessionKey = "name" THEN n ELSE "any"
Slots == {Slot(n) : n \in Names}

VARIABLES
    mu,       \* [I -> Gens \cup {None}]  the generation whose handler holds the instance's process mutex
    sess,     \* [I -> [Slots -> [gen : Gens \cup {None}, got : SUBSET I]]]  session: which generation prepared it, whose contributions it holds
    acct,     \* [I -> [Names -> Gens \cup {None}]]  the stored account of that name was created by generation ...
    pc,       \* [Gens -> control state of the generation's initiator]
    k,        \* [Gens -> index into PartsOf]
    ex,       \* [Gens -> the set of higher participants the executing instance still has to swap with]
    committed,\* [Gens -> set of participants whose commit has been handled]
    cerr      \* [Gens -> BOOLEAN] some commit failed
vars == <<mu, sess, acct, pc, k, ex, committed, cerr>>

NoSess == [gen |-> None, got |-> {}]
Init == /\ mu = [i \in I |-> None]
        /\ sess = [i \in I |-> [s \in Slots |-> NoSess]]
        /\ acct = [i \in I |-> [n \in Names |-> None]]
        /\ pc = [g \in Gens |-> "check"]
        /\ k = [g \in Gens |-> 1]
        /\ ex = [g \in Gens |-> {}]
        /\ committed = [g \in Gens |-> {}]
        /\ cerr = [g \in Gens |-> FALSE]

Cur(g) == PartsOf[g][k[g]]
S(g) == Slot(NameOf[g])
Goto(g, l) == pc' = [pc EXCEPT ![g] = l]

\* the initiator's own check: it must not hold an account of that name
Check(g) ==
    /\ pc[g] = "check"
    /\ Goto(g, IF acct[InitOf[g]][NameOf[g]] = None THEN "prepare" ELSE "failed")
    /\ UNCHANGED <<mu, sess, acct, k, ex, committed, cerr>>

(* ---- prepare: one synchronous call per participant ---- *)
PrepareAcq(g) ==
    /\ pc[g] = "prepare" /\ mu[Cur(g)] = None
    /\ mu' = [mu EXCEPT ![Cur(g)] = g]
    /\ Goto(g, "preparing")
    /\ UNCHANGED <<sess, acct, k, ex, committed, cerr>>
PrepareDo(g) ==
    /\ pc[g] = "preparing"
    /\ LET p == Cur(g)
           taken == sess[p][S(g)].gen # None
       IN /\ mu' = [mu EXCEPT ![p] = None]
          /\ IF taken /\ ~PrepareOverwrites
               THEN Goto(g, "failed") /\ UNCHANGED <<sess, k>>     \* "generation already in progress"
               ELSE /\ sess' = [sess EXCEPT ![p][S(g)] = [gen |-> g, got |-> {p}]]
                    /\ IF k[g] = Len(PartsOf[g])
                         THEN Goto(g, "execute") /\ k' = [k EXCEPT ![g] = 1]
                         ELSE Goto(g, "prepare") /\ k' = [k EXCEPT ![g] = k[g] + 1]
    /\ UNCHANGED <<acct, ex, committed, cerr>>

(* ---- execute: the instance keeps its mutex while it swaps with the others ---- *)
Targets(sg, p) == IF ContribTo = "higher" THEN {q \in PSet(sg) : q > p} ELSE PSet(sg) \ {p}
\* (the handlers find the session by NAME and have no notion of "whose" it is: they work on whatever session is there, with that
\* session's participant list - in the shipped design it can only be the generation's own, invariant OwnSession)
SessGen(p, g) == sess[p][S(g)].gen
ExecuteAcq(g) ==
    /\ pc[g] = "execute" /\ mu[Cur(g)] = None
    /\ mu' = [mu EXCEPT ![Cur(g)] = g]
    /\ IF SessGen(Cur(g), g) # None
         THEN Goto(g, "swapping") /\ ex' = [ex EXCEPT ![g] = Targets(SessGen(Cur(g), g), Cur(g))]
         ELSE Goto(g, "execfail") /\ UNCHANGED ex                   \* "not in progress"
    /\ UNCHANGED <<sess, acct, k, committed, cerr>>
ExecFail(g) ==
    /\ pc[g] = "execfail"
    /\ mu' = [mu EXCEPT ![Cur(g)] = None]
    /\ Goto(g, "failed")
    /\ UNCHANGED <<sess, acct, k, ex, committed, cerr>>
\* one swap: the executing instance p (still holding its own mutex) calls q's OnContribute, which needs q's mutex
Swap(g, q) ==
    /\ pc[g] = "swapping" /\ q \in ex[g] /\ mu[q] = None
    /\ LET p == Cur(g) IN
         IF SessGen(q, g) # None /\ p \notin sess[q][S(g)].got
           THEN /\ sess' = [sess EXCEPT ![q][S(g)].got = @ \cup {p}, ![p][S(g)].got = @ \cup {q}]
                /\ ex' = [ex EXCEPT ![g] = @ \ {q}]
                /\ UNCHANGED <<pc, mu>>
           ELSE \* refused by q (no such session, or a duplicate): the execute fails
                /\ mu' = [mu EXCEPT ![p] = None]
                /\ Goto(g, "failed")
                /\ UNCHANGED <<sess, ex>>
    /\ UNCHANGED <<acct, k, committed, cerr>>
ExecuteDone(g) ==
    /\ pc[g] = "swapping" /\ ex[g] = {}
    /\ mu' = [mu EXCEPT ![Cur(g)] = None]
    /\ IF k[g] = Len(PartsOf[g])
         THEN Goto(g, "commit") /\ k' = [k EXCEPT ![g] = 1]
         ELSE Goto(g, "execute") /\ k' = [k EXCEPT ![g] = k[g] + 1]
    /\ UNCHANGED <<sess, acct, ex, committed, cerr>>

(* ---- commit: sent to all participants in parallel, handled in any order ---- *)
\* the account an instance stores is built from the SESSION's contributions: it is tagged with the generation that prepared the session
Commit(g, p) ==
    /\ pc[g] = "commit" /\ p \in PSet(g) \ committed[g] /\ mu[p] = None
    /\ committed' = [committed EXCEPT ![g] = @ \cup {p}]
    /\ LET s == sess[p][S(g)]
           complete == s.gen # None /\ s.got = PSet(s.gen)
       IN IF complete /\ acct[p][NameOf[g]] = None
            THEN /\ acct' = [acct EXCEPT ![p][NameOf[g]] = s.gen]
                 /\ sess' = [sess EXCEPT ![p][S(g)] = NoSess]
                 /\ UNCHANGED cerr
            ELSE /\ cerr' = [cerr EXCEPT ![g] = TRUE]              \* not in progress / incomplete / name taken on this instance
                 /\ UNCHANGED <<acct, sess>>
    /\ UNCHANGED <<mu, pc, k, ex>>
Finish(g) ==
    /\ pc[g] = "commit" /\ committed[g] = PSet(g)
    /\ Goto(g, IF cerr[g] THEN "failed" ELSE "ok")
    /\ UNCHANGED <<mu, sess, acct, k, ex, committed, cerr>>

Ended(g) == pc[g] \in {"ok", "failed"}
Step(g) == \/ Check(g) \/ PrepareAcq(g) \/ PrepareDo(g) \/ ExecuteAcq(g) \/ ExecFail(g) \/ (\E q \in I : Swap(g, q)) \/ ExecuteDone(g)
           \/ (\E p \in I : Commit(g, p)) \/ Finish(g)
AllEnded == \A g \in Gens : Ended(g)
Next == (\E g \in Gens : Step(g)) \/ (AllEnded /\ UNCHANGED vars)
Spec == Init /\ [][Next]_vars
FairSpec == Spec /\ \A g \in Gens : WF_vars(Step(g))

(* ---- properties ---- *)
\* some generation can always move until all have ended (the wait-for relation between instance mutexes only ever points upwards)
NoDeadlock == AllEnded \/ \E g \in Gens : ENABLED Step(g)
Termination == <>AllEnded
\* success => every participant holds THE account of this generation
Agreement == \A g \in Gens : pc[g] = "ok" => \A p \in PSet(g) : acct[p][NameOf[g]] = g
\* execute and commit only ever meet the generation's own session (a prepare for a name in progress is refused)
OwnSession == \A g \in Gens : pc[g] \in {"swapping"} => SessGen(Cur(g), g) = g
\* generations under different names do not get in each other's way: both succeed
AllDistinct == \A g, h \in Gens : g # h => NameOf[g] # NameOf[h]
DifferentNamesBothSucceed == AllDistinct => \A g \in Gens : pc[g] # "failed"
\* a handler's mutex is released when its generation has ended
MutexReleased == AllEnded => \A i \in I : mu[i] = None
\* success leaves no session of the generation behind
NoSessionAfterSuccess == \A g \in Gens : pc[g] = "ok" => \A i \in I : sess[i][S(g)].gen # g
\* a session only ever holds contributions of the generation's own participants
SessionsSane == \A i \in I : \A s \in Slots : sess[i][s].gen # None => sess[i][s].got \subseteq PSet(sess[i][s].gen)
TypeOK == /\ mu \in [I -> Gens \cup {None}]
          /\ \A g \in Gens : pc[g] \in {"check", "prepare", "preparing", "execute", "swapping", "execfail", "commit", "ok", "failed"}
=============================================================================

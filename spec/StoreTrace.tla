------------------------------- MODULE StoreTrace -------------------------------
(***************************************************************************)
(* The repository's OWN tests as trace sources.  Built with the verif tag  *)
(* and VERIF_TRACE_FILE set, the tests of services/ruler/golang and        *)
(* services/signer/standard (including the concurrent soak tests) log      *)
(* every Store.Fetch / Store / BatchStore with the goroutine as actor.     *)
(* The store-level fragment of Signer.tla that such a trace must satisfy:  *)
(*   AtomicRMW : an actor's store of a key follows that actor's fetch of   *)
(*               the key with no store of the key by another actor in      *)
(*               between (the key lock makes fetch-check-store atomic)     *)
(*   ReadLatest: a fetch returns the record written by the latest store    *)
(*   Monotone  : records never move backwards                              *)
(*   SignAfterStore: an actor that has read a key's record and not yet     *)
(*               written it does not sign with that key (single requests   *)
(*               sign in the goroutine that ran the rules; the order       *)
(*               record-then-sign of C03 as the program itself logs it)    *)
(* A rejection is reported as DRIFT (the tests' own assertions may be too  *)
(* weak to notice; the recorded steps are not).                            *)
(***************************************************************************)
EXTENDS Integers, Sequences, FiniteSets, TLC, Json
CONSTANTS TraceFile
Trace == ndJsonDeserialize(TraceFile)
VARIABLES l, cur, ver, seen, bad
vars == <<l, cur, ver, seen, bad>>
Ev == Trace[l]
Is(name) == l <= Len(Trace) /\ Ev.ev = name /\ l' = l + 1
Put(f, k, v) == [x \in (DOMAIN f) \cup {k} |-> IF x = k THEN v ELSE f[x]]
Init == l = 1 /\ cur = <<>> /\ ver = <<>> /\ seen = <<>> /\ bad = {} /\ TLCSet(1, 1)
\* a new test process, or a database opened on a fresh directory (the tests open one per case)
Begin == (Is("Begin") \/ Is("Open")) /\ cur' = <<>> /\ ver' = <<>> /\ seen' = <<>> /\ UNCHANGED bad
Ge(a, b) == a.s >= b.s /\ a.t >= b.t /\ a.p >= b.p
Fetch == /\ Is("F")
         /\ LET v == [s |-> Ev.s, t |-> Ev.t, p |-> Ev.p] IN
            /\ bad' = IF Ev.k \in DOMAIN cur /\ cur[Ev.k] # v THEN bad \cup {<<"stale-read", l>>} ELSE bad
            /\ cur' = IF Ev.k \in DOMAIN cur THEN cur ELSE Put(cur, Ev.k, v)
            /\ ver' = IF Ev.k \in DOMAIN ver THEN ver ELSE Put(ver, Ev.k, 0)
            /\ seen' = Put(seen, <<Ev.g, Ev.k>>, IF Ev.k \in DOMAIN ver THEN ver[Ev.k] ELSE 0)
Store == /\ Is("S")
         /\ LET v == [s |-> Ev.s, t |-> Ev.t, p |-> Ev.p]
                known == Ev.k \in DOMAIN cur
            IN
            /\ bad' = bad \cup (IF <<Ev.g, Ev.k>> \notin DOMAIN seen THEN {<<"store-without-fetch", l>>}
                                ELSE IF known /\ seen[<<Ev.g, Ev.k>>] # ver[Ev.k] THEN {<<"interleaved-store", l>>} ELSE {})
                            \cup (IF known /\ ~Ge(v, cur[Ev.k]) THEN {<<"backwards", l>>} ELSE {})
            /\ cur' = Put(cur, Ev.k, v)
            /\ ver' = Put(ver, Ev.k, IF known THEN ver[Ev.k] + 1 ELSE 1)
            /\ seen' = [x \in (DOMAIN seen) \ {<<Ev.g, Ev.k>>} |-> seen[x]]    \* the actor's read is consumed by its write
\* the account's signing primitive is entered by actor g for the key with base name b (records b+"a", b+"p")
Sign == /\ Is("G")
        /\ bad' = bad \cup (IF \E x \in DOMAIN seen : x[1] = Ev.g /\ x[2] \in {Ev.b \o "a", Ev.b \o "p"} THEN {<<"sign-before-store", l>>} ELSE {})
        /\ UNCHANGED <<cur, ver, seen>>
Next == Begin \/ Fetch \/ Store \/ Sign
Spec == Init /\ [][Next]_vars
HighWater == TLCSet(1, IF l > TLCGet(1) THEN l ELSE TLCGet(1))
Accepted == TLCGet(1) = Len(Trace) + 1
AtomicRMW == \A b \in bad : b[1] \notin {"interleaved-store", "store-without-fetch"}
ReadLatest == \A b \in bad : b[1] # "stale-read"
Monotone == \A b \in bad : b[1] # "backwards"
SignAfterStore == \A b \in bad : b[1] # "sign-before-store"
=============================================================================

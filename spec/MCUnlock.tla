------------------------------ MODULE MCUnlock ------------------------------
(* Configurations for exhaustive checking of Unlock: requests that meet still-locked accounts at the same time. *)
EXTENDS Unlock
R3 == {"r1", "r2", "r3"}
R4 == {"r1", "r2", "r3", "r4"}
\* the batches (a,b) (b,a) (b,c,a): same accounts in different orders, nested
WantsCross == [r1 |-> <<"a", "b">>, r2 |-> <<"b", "a">>, r3 |-> <<"b", "c", "a">>]
\* three single requests for one account
WantsOne == [r1 |-> <<"a">>, r2 |-> <<"a">>, r3 |-> <<"a">>]
\* a request that names the account twice next to two others
WantsTwice == [r1 |-> <<"a", "a">>, r2 |-> <<"a", "b">>, r3 |-> <<"b", "a">>]
\* four requests, two accounts
WantsFour == [r1 |-> <<"a", "b">>, r2 |-> <<"b", "a">>, r3 |-> <<"a">>, r4 |-> <<"b">>]
=============================================================================

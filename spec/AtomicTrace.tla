------------------------------ MODULE AtomicTrace ------------------------------
(***************************************************************************)
(* Layer P for C04: a recorded history of invocations and responses of the *)
(* real code (concurrent requests) is accepted iff it is LINEARIZABLE with *)
(* respect to the sequential slashing rules: there is a point between each *)
(* request's Invoke and Respond at which it takes effect atomically, such  *)
(* that every response equals the sequential outcome.  The linearization   *)
(* point is the silent action Lin(r); TLC searches all placements.  This   *)
(* covers "never both signed", "no lost update" and "no spurious refusal". *)
(* The final database (Export) must equal the sequential one as well.      *)
(***************************************************************************)
EXTENDS SlashRules, TLC, Json

CONSTANTS TraceFile
Trace == ndJsonDeserialize(TraceFile)

VARIABLES l, db, pend, lin, req
vars == <<l, db, pend, lin, req>>

Ev == Trace[l]
Is(name) == l <= Len(Trace) /\ Ev.ev = name /\ l' = l + 1
NoRec == [s |-> -1, t |-> -1, ps |-> -1]
Get(k) == IF k \in DOMAIN db THEN db[k] ELSE NoRec
Put(f, k, v) == [x \in (DOMAIN f) \cup {k} |-> IF x = k THEN v ELSE f[x]]
Drop(f, k) == [x \in (DOMAIN f) \ {k} |-> f[x]]

Init == l = 1 /\ db = <<>> /\ pend = {} /\ lin = <<>> /\ req = <<>> /\ TLCSet(1, 1)

Begin == Is("Begin") /\ db' = <<>> /\ pend' = {} /\ lin' = <<>> /\ req' = <<>>

FloorEv == /\ Is("Floor")
           /\ db' = Put(db, Ev.k, [s |-> Ev.s, t |-> Ev.t, ps |-> Ev.slot])
           /\ UNCHANGED <<pend, lin, req>>

Invoke == /\ Is("Invoke")
          /\ req' = Put(req, Ev.r, Ev)
          /\ pend' = pend \cup {Ev.r}
          /\ UNCHANGED <<db, lin>>

\* sequential outcome of request q on database d
HasDup(q) == \E i, j \in 1 .. Len(q.ents) : i < j /\ q.ents[i].k = q.ents[j].k
EntVerdict(q, e, d) ==
    LET rec == IF e.k \in DOMAIN d THEN d[e.k] ELSE NoRec IN
    IF q.kind = "prop" THEN PropVerdict(rec.ps, e.slot, e.dom)
    ELSE AttVerdict([s |-> rec.s, t |-> rec.t], e.s, e.t, e.dom)
Outcome(v) == IF v = "APPROVED" THEN "SUCCEEDED" ELSE "DENIED"
SeqRes(q, d) == IF HasDup(q) THEN [i \in 1 .. Len(q.ents) |-> "FAILED"]
                ELSE [i \in 1 .. Len(q.ents) |-> Outcome(EntVerdict(q, q.ents[i], d))]
SeqDb(q, d) ==
    IF HasDup(q) THEN d
    ELSE LET ks == {q.ents[i].k : i \in {j \in 1 .. Len(q.ents) : EntVerdict(q, q.ents[j], d) = "APPROVED"}} IN
         [k \in (DOMAIN d) \cup ks |->
            IF k \in ks
              THEN LET e == q.ents[CHOOSE i \in 1 .. Len(q.ents) : q.ents[i].k = k]
                       rec == IF k \in DOMAIN d THEN d[k] ELSE NoRec IN
                   IF q.kind = "prop" THEN [rec EXCEPT !.ps = ToI64(e.slot)]
                   ELSE [rec EXCEPT !.s = ToI64(e.s), !.t = ToI64(e.t)]
              ELSE d[k]]

Lin(r) == /\ r \in pend
          /\ l <= Len(Trace)
          /\ pend' = pend \ {r}
          /\ lin' = Put(lin, r, SeqRes(req[r], db))
          /\ db' = SeqDb(req[r], db)
          /\ UNCHANGED <<l, req>>

Respond == /\ Is("Respond")
           /\ Ev.r \in DOMAIN lin
           /\ lin[Ev.r] = Ev.res
           /\ lin' = Drop(lin, Ev.r)
           /\ UNCHANGED <<db, pend, req>>

\* the database exported when everything has been answered equals the sequential one
ExportEv == /\ Is("Export")
            /\ pend = {} /\ DOMAIN lin = {}
            /\ \A k \in DOMAIN db : (db[k] # NoRec) => (k \in DOMAIN Ev.db /\ Ev.db[k] = db[k])
            /\ \A k \in DOMAIN Ev.db : Ev.db[k] = Get(k)
            /\ UNCHANGED <<db, pend, lin, req>>

Other == /\ l <= Len(Trace) /\ Ev.ev \notin {"Begin", "Floor", "Invoke", "Respond", "Export"}
         /\ l' = l + 1 /\ UNCHANGED <<db, pend, lin, req>>

Next == Begin \/ FloorEv \/ Invoke \/ Respond \/ ExportEv \/ Other \/ \E r \in pend : Lin(r)
Spec == Init /\ [][Next]_vars

HighWater == TLCSet(1, IF l > TLCGet(1) THEN l ELSE TLCGet(1))
Accepted == TLCGet(1) = Len(Trace) + 1
=============================================================================

------------------------------ MODULE Slashable ------------------------------
(***************************************************************************)
(* What "slashable" means - the property itself, shared by every module.   *)
(* Attestations are records with fields s, t, root; proposals are records  *)
(* with fields slot, root.  Only order and equality of values are used, so *)
(* the predicates mean the same on abstract and on concrete epochs.        *)
(***************************************************************************)
EXTENDS Integers
DoubleVote(a, b) == a.t = b.t /\ (a.s # b.s \/ a.root # b.root)
Surrounds(a, b) == a.s < b.s /\ b.t < a.t
SlashableAtt(a, b) == DoubleVote(a, b) \/ Surrounds(a, b) \/ Surrounds(b, a)
SlashableProp(a, b) == a.slot = b.slot /\ a.root # b.root
=============================================================================

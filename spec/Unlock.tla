-------------------------------- MODULE Unlock --------------------------------
(***************************************************************************)
(* Layer D: FIRST USE.  An account's key is encrypted in memory until the  *)
(* first request that names it has it unlocked (and again after a client's *)
(* LockAccount).  services/signer/standard/helpers.go runs the pre-check   *)
(* of every entry of a request in a worker of util.Scatter:                *)
(*     IsUnlocked?  no -> unlocker.UnlockAccount (tries the configured     *)
(*     passphrases; hundreds of milliseconds of key derivation)            *)
(* and the request goes on to the ruler when all its workers are back.     *)
(* Several requests - and several entries of one request - may find the    *)
(* same account locked at the same time.                                   *)
(*                                                                         *)
(* Shipped (ShareMode = "each"): every worker that finds the account       *)
(* locked unlocks it itself; nobody waits for anybody.                     *)
(* Design mutants - "do not derive the key twice":                         *)
(*   "waitClose" : workers that find an unlock in progress wait for it;    *)
(*                 the owner CLOSES the channel (correct sharing)          *)
(*   "waitToken" : the same, but the owner sends ONE token on a buffered   *)
(*                 channel: one waiter wakes, the others wait for ever     *)
(*   "denyBusy"  : a worker that finds an unlock in progress reports the   *)
(*                 account as still locked                                 *)
(* Checked: every request comes back (NoStuck, Termination); without a     *)
(* LockAccount in between nobody is refused for an account whose           *)
(* passphrase is configured (NoSpuriousDenial); the account is open once   *)
(* somebody's unlock has returned (OpenAfterUnlock).                       *)
(***************************************************************************)
EXTENDS Integers, Sequences, FiniteSets, TLC

CONSTANTS Accts,        \* account names
          Reqs,         \* request ids
          Wants,        \* [Reqs -> Seq(Accts)]  the accounts a request names, in its order (a name may repeat)
          ShareMode,    \* "each" (shipped) | "waitClose" | "waitToken" | "denyBusy"
          MaxRelock     \* how many LockAccount requests may arrive

None == "none"
W(r) == 1 .. Len(Wants[r])                  \* the request's workers (one per entry)
A(r, i) == Wants[r][i]

VARIABLES
    open,     \* [Accts -> BOOLEAN]  the key is decrypted in memory
    rpc,      \* [Reqs -> "idle" | "pre" | "done"]
    wpc,      \* [Reqs -> Seq of worker states "check" | "decrypt" | "wait" | "ok" | "denied"]
    busy,     \* [Accts -> channel id (Nat) of the unlock in progress, or 0]   (share modes only)
    gen,      \* [Accts -> Nat] channels made so far for the account
    chan,     \* [Accts -> [Nat -> "empty" | "token" | "closed"]]  state of channel number n of the account
    waits,    \* [Reqs -> Seq of channel ids the worker waits on (0: none)]
    relocks,
    relocked  \* ghost: a LockAccount arrived at some point
vars == <<open, rpc, wpc, busy, gen, chan, waits, relocks, relocked>>

MaxGen == 6
Init == /\ open = [a \in Accts |-> FALSE]
        /\ rpc = [r \in Reqs |-> "idle"]
        /\ wpc = [r \in Reqs |-> [i \in W(r) |-> "check"]]
        /\ busy = [a \in Accts |-> 0]
        /\ gen = [a \in Accts |-> 0]
        /\ chan = [a \in Accts |-> [n \in 1 .. MaxGen |-> "empty"]]
        /\ waits = [r \in Reqs |-> [i \in W(r) |-> 0]]
        /\ relocks = 0 /\ relocked = FALSE

SetW(r, i, s) == wpc' = [wpc EXCEPT ![r][i] = s]

Start(r) == /\ rpc[r] = "idle"
            /\ rpc' = [rpc EXCEPT ![r] = "pre"]
            /\ UNCHANGED <<open, wpc, busy, gen, chan, waits, relocks, relocked>>

\* the worker asks IsUnlocked and decides what to do
Check(r, i) ==
    /\ rpc[r] = "pre" /\ wpc[r][i] = "check"
    /\ LET a == A(r, i) IN
       IF open[a] THEN SetW(r, i, "ok") /\ UNCHANGED <<busy, gen, waits>>
       ELSE IF ShareMode = "each" THEN SetW(r, i, "decrypt") /\ UNCHANGED <<busy, gen, waits>>
       ELSE IF busy[a] = 0
              THEN /\ gen[a] < MaxGen
                   /\ gen' = [gen EXCEPT ![a] = @ + 1]
                   /\ busy' = [busy EXCEPT ![a] = gen[a] + 1]
                   /\ SetW(r, i, "decrypt") /\ UNCHANGED waits
              ELSE IF ShareMode = "denyBusy"
                     THEN SetW(r, i, "denied") /\ UNCHANGED <<busy, gen, waits>>
                     ELSE /\ SetW(r, i, "wait")
                          /\ waits' = [waits EXCEPT ![r][i] = busy[a]]
                          /\ UNCHANGED <<busy, gen>>
    /\ UNCHANGED <<open, rpc, chan, relocks, relocked>>

\* the key derivation ends: the account is open; in the sharing designs the owner signals and forgets the channel
Decrypt(r, i) ==
    /\ wpc[r][i] = "decrypt"
    /\ LET a == A(r, i) IN
       /\ open' = [open EXCEPT ![a] = TRUE]
       /\ SetW(r, i, "ok")
       /\ IF ShareMode \in {"each"} \/ busy[a] = 0
            THEN UNCHANGED <<busy, chan>>
            ELSE /\ busy' = [busy EXCEPT ![a] = 0]
                 /\ chan' = [chan EXCEPT ![a][busy[a]] = IF ShareMode = "waitToken" THEN "token" ELSE "closed"]
    /\ UNCHANGED <<rpc, gen, waits, relocks, relocked>>

\* a waiter is woken (it takes the token, or sees the channel closed), asks IsUnlocked again and reports that
Wake(r, i) ==
    /\ wpc[r][i] = "wait"
    /\ LET a == A(r, i)
           c == waits[r][i]
       IN /\ chan[a][c] \in {"token", "closed"}
          /\ chan' = IF chan[a][c] = "token" THEN [chan EXCEPT ![a][c] = "empty"] ELSE chan
          /\ SetW(r, i, IF open[a] THEN "ok" ELSE "denied")
    /\ UNCHANGED <<open, rpc, busy, gen, waits, relocks, relocked>>

\* all workers are back: the request goes on (or is refused)
Join(r) == /\ rpc[r] = "pre" /\ \A i \in W(r) : wpc[r][i] \in {"ok", "denied"}
           /\ rpc' = [rpc EXCEPT ![r] = "done"]
           /\ UNCHANGED <<open, wpc, busy, gen, chan, waits, relocks, relocked>>

\* a client's LockAccount: the key is forgotten again
Relock(a) == /\ relocks < MaxRelock /\ open[a]
             /\ open' = [open EXCEPT ![a] = FALSE]
             /\ relocks' = relocks + 1 /\ relocked' = TRUE
             /\ UNCHANGED <<rpc, wpc, busy, gen, chan, waits>>

ReqStep(r) == Start(r) \/ (\E i \in W(r) : Check(r, i) \/ Decrypt(r, i) \/ Wake(r, i)) \/ Join(r)
AllDone == \A r \in Reqs : rpc[r] = "done"
Next == (\E r \in Reqs : ReqStep(r)) \/ (\E a \in Accts : Relock(a)) \/ (AllDone /\ UNCHANGED vars)
Spec == Init /\ [][Next]_vars
FairSpec == Spec /\ \A r \in Reqs : WF_vars(ReqStep(r))

(* ---- properties ---- *)
\* C15: a request that has not come back can always take a step of its own (nobody waits for something nobody will do)
NoStuck == \A r \in Reqs : rpc[r] = "done" \/ ENABLED ReqStep(r) \/ \E q \in Reqs : q # r /\ ENABLED ReqStep(q)
AnyStep == \E r \in Reqs : ENABLED ReqStep(r)
NoDeadlock == AllDone \/ AnyStep
Termination == <>AllDone
\* C04: whatever the overlap, nobody is refused for an account that can be unlocked (unless a client locked it in between)
NoSpuriousDenial == relocked \/ \A r \in Reqs : \A i \in W(r) : wpc[r][i] # "denied"
\* a worker that reported success leaves the account open (until a LockAccount)
OpenAfterUnlock == relocked \/ \A r \in Reqs : \A i \in W(r) : wpc[r][i] = "ok" => open[A(r, i)]
TypeOK == /\ open \in [Accts -> BOOLEAN]
          /\ \A r \in Reqs : rpc[r] \in {"idle", "pre", "done"}
=============================================================================

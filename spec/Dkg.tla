---------------------------------- MODULE Dkg ----------------------------------
(***************************************************************************)
(* Layer D model of distributed key generation (services/process/standard: *)
(* generate.go generateDistributed, service.go OnPrepare / OnExecute /     *)
(* OnContribute / OnCommit / OnAbort, generation.go getGeneration).        *)
(*                                                                         *)
(* Cryptography is abstract: a contribution in flight is described by      *)
(* whether its share matches its verification vector ("consistent") and by *)
(* the vector's length relative to the threshold.  The initiator drives    *)
(* Prepare to every participant, then Execute to every participant (each   *)
(* Execute makes the instance swap contributions with every higher id),    *)
(* then Commit to all in parallel.  At most MaxFaults messages are         *)
(* faulted.  Design mutants: VerifyShare, CheckVVecLen, CommitNeedsAll,    *)
(* ThresholdMode, StoreErrChecked.  acct[p] means: p holds THE account of  *)
(* this generation (an older account of the same name is OldHolders).      *)
(***************************************************************************)
EXTENDS Integers, Sequences, FiniteSets, TLC

CONSTANTS N,              \* number of participants (ids 1..N)
          T,              \* requested threshold
          MaxFaults,
          VerifyShare,    \* FALSE: contributions are accepted without checking share against vector
          CheckVVecLen,   \* FALSE: vectors of the wrong length are accepted (pre-fix)
          CommitNeedsAll, \* FALSE: commit proceeds without every participant's contribution
          ConfirmAll,     \* FALSE: only the first T participants' confirmation signatures are verified by the initiator
          ThresholdMode,  \* "gtHalf" (shipped: n/2 < t <= n) | "geHalf" | "any"
          Initiator,      \* the participant the client asks
          OldCandidates,  \* participants that MAY already hold an account of the requested name (from an earlier generation among other
                          \* instances of a larger cluster); which of them do is chosen in Init (variable old)
          StoreErrChecked \* FALSE: a participant whose account store fails during commit only logs the failure and confirms all the same

P == 1 .. N
\* fault kinds on a contribution: [consistent, dlen]  (dlen = vector length minus threshold)
ContribFaults == { [name |-> "share-replaced",     consistent |-> FALSE, dlen |-> 0],
                   [name |-> "share-swapped",      consistent |-> FALSE, dlen |-> 0],    \* the sender's GENUINE share - computed for another participant
                   [name |-> "vvec-alter",         consistent |-> FALSE, dlen |-> 0],
                   [name |-> "vvec-short",         consistent |-> FALSE, dlen |-> -1],
                   [name |-> "vvec-empty",         consistent |-> FALSE, dlen |-> -2],   \* no commitments at all
                   [name |-> "vvec-double",        consistent |-> FALSE, dlen |-> 2],    \* the vector twice over
                   [name |-> "vvec-long-key",      consistent |-> FALSE, dlen |-> 1],
                   [name |-> "vvec-long-identity", consistent |-> TRUE,  dlen |-> 1],
                   [name |-> "vvec-long-poly",     consistent |-> TRUE,  dlen |-> 1],
                   [name |-> "vvec-short-poly",    consistent |-> TRUE,  dlen |-> -1] }
Good == [name |-> "good", consistent |-> TRUE, dlen |-> 0]
MsgFaults == {"lost", "errreply"}

VARIABLES phase,     \* "check" "prepare" "execute" "commit" "ok" "failed"
          k,         \* index of the participant the initiator is dealing with
          sess,      \* P -> BOOLEAN   a generation is active on the instance
          got,       \* P -> set of participants whose contribution the instance holds (own included)
          badlen,    \* P -> BOOLEAN   the instance stored a vector whose length is not T
          acct,      \* P -> BOOLEAN   the account is stored on the instance
          crashed,   \* P -> BOOLEAN
          committed, \* set of participants whose commit has been handled
          commitErr, \* some commit failed
          byz,       \* participants whose commit reply carries a confirmation signature NOT made with a share consistent with
                     \* the composite key (a faulty participant: everything it signs later is made with that other key too)
          nfaults,
          fault,     \* the faults applied so far (set of names), for the properties
          old        \* participants that hold an OLDER account of the requested name: the initiator refuses at once if it is one
                     \* of them; any other one cannot store the new account when the commit arrives (constant over a behaviour)
vars == <<phase, k, sess, got, badlen, acct, crashed, committed, commitErr, byz, nfaults, fault, old>>
OldHolders == old

ThresholdOK == CASE ThresholdMode = "gtHalf" -> 2 * T > N /\ T <= N
                 [] ThresholdMode = "geHalf" -> 2 * T >= N /\ T <= N
                 [] OTHER -> T >= 1

Init == /\ phase = "check" /\ k = 1
        /\ sess = [p \in P |-> FALSE] /\ got = [p \in P |-> {}] /\ badlen = [p \in P |-> FALSE]
        /\ acct = [p \in P |-> FALSE] /\ crashed = [p \in P |-> FALSE]
        /\ committed = {} /\ commitErr = FALSE /\ byz = {} /\ nfaults = 0 /\ fault = {}
        /\ old \in SUBSET OldCandidates

Check == /\ phase = "check"
         /\ phase' = IF ThresholdOK /\ Initiator \notin OldHolders THEN "prepare" ELSE "failed"
         /\ UNCHANGED <<k, sess, got, badlen, acct, crashed, committed, commitErr, byz, nfaults, fault, old>>

CanFault == nfaults < MaxFaults
Fail == phase' = "failed"

Prepare == /\ phase = "prepare"
           /\ \/ /\ sess' = [sess EXCEPT ![k] = TRUE]
                 /\ got' = [got EXCEPT ![k] = {k}]
                 /\ IF k = N THEN phase' = "execute" /\ k' = 1 ELSE k' = k + 1 /\ UNCHANGED phase
                 /\ UNCHANGED <<nfaults, fault>>
              \/ /\ CanFault /\ fault' = fault \cup {"prepare-dup"} /\ nfaults' = nfaults + 1     \* delivered twice: the second one is refused, or fails the generation
                 /\ \/ /\ sess' = [sess EXCEPT ![k] = TRUE] /\ got' = [got EXCEPT ![k] = {k}]
                       /\ IF k = N THEN phase' = "execute" /\ k' = 1 ELSE k' = k + 1 /\ UNCHANGED phase
                    \/ /\ sess' = [sess EXCEPT ![k] = TRUE] /\ got' = [got EXCEPT ![k] = {k}] /\ Fail /\ UNCHANGED k
              \/ /\ CanFault /\ \E f \in MsgFaults :
                      /\ fault' = fault \cup {"prepare-" \o f}
                      /\ sess' = IF f = "errreply" THEN [sess EXCEPT ![k] = TRUE] ELSE sess
                      /\ got' = IF f = "errreply" THEN [got EXCEPT ![k] = {k}] ELSE got
                 /\ nfaults' = nfaults + 1 /\ Fail /\ UNCHANGED k
           /\ UNCHANGED <<badlen, acct, crashed, committed, commitErr, byz, old>>

\* acceptance of a contribution c by the receiving side
Accepts(c) == (VerifyShare => c.consistent) /\ (CheckVVecLen => c.dlen = 0)

\* Execute on participant k: swap with every higher id j (request checked by j, reply checked by k).
\* req, rep : P -> contribution descriptors for the swaps with the higher ids
ExecuteWith(req, rep) ==
    LET higher == {j \in P : j > k}
        okAll == \A j \in higher : Accepts(req[j]) /\ Accepts(rep[j])
        \* the swaps are done in some order and stop at the first refusal; what matters for safety is which
        \* instances stored something: in the worst case every swap before the refusal completed
    IN /\ got' = [p \in P |-> IF p = k THEN got[p] \cup {j \in higher : Accepts(req[j]) /\ Accepts(rep[j])}
                              ELSE IF p \in higher /\ Accepts(req[p]) THEN got[p] \cup {k} ELSE got[p]]
       /\ badlen' = [p \in P |-> IF p = k THEN badlen[p] \/ (\E j \in higher : Accepts(req[j]) /\ Accepts(rep[j]) /\ rep[j].dlen # 0)
                                 ELSE IF p \in higher /\ Accepts(req[p]) THEN badlen[p] \/ req[p].dlen # 0 ELSE badlen[p]]
       /\ IF okAll THEN (IF k = N THEN phase' = "commit" /\ k' = 1 ELSE k' = k + 1 /\ UNCHANGED phase)
                   ELSE Fail /\ UNCHANGED k

Execute ==
    /\ phase = "execute"
    /\ \/ /\ ExecuteWith([j \in P |-> Good], [j \in P |-> Good])
          /\ UNCHANGED <<nfaults, fault>>
       \/ /\ CanFault
          /\ \E j \in {x \in P : x > k}, c \in ContribFaults, side \in {"req", "rep"} :
                /\ ExecuteWith([x \in P |-> IF x = j /\ side = "req" THEN c ELSE Good], [x \in P |-> IF x = j /\ side = "rep" THEN c ELSE Good])
                /\ fault' = fault \cup {"contribute-" \o c.name}
          /\ nfaults' = nfaults + 1
       \/ /\ CanFault /\ \E d \in {"execute-dup", "contribute-dup"} : fault' = fault \cup {d}        \* a message delivered twice
          /\ nfaults' = nfaults + 1
          /\ \/ ExecuteWith([j \in P |-> Good], [j \in P |-> Good])
             \/ Fail /\ UNCHANGED <<k, got, badlen>>
       \/ /\ CanFault /\ \E f \in MsgFaults : fault' = fault \cup {"execute-" \o f}
          /\ nfaults' = nfaults + 1 /\ Fail /\ UNCHANGED <<k, got, badlen>>
    /\ UNCHANGED <<sess, acct, crashed, committed, commitErr, byz, old>>

\* commits are sent in parallel: handled in any order; the client outcome is known when all have returned
Commit(p) ==
    /\ phase = "commit" /\ p \notin committed
    /\ committed' = committed \cup {p}
    /\ IF CommitNeedsAll /\ got[p] # P
         THEN commitErr' = TRUE /\ UNCHANGED <<acct, crashed, sess>>
         ELSE IF badlen[p]
                THEN crashed' = [crashed EXCEPT ![p] = TRUE] /\ commitErr' = TRUE /\ UNCHANGED <<acct, sess>>
                ELSE IF p \in OldHolders    \* the wallet refuses a second account of that name: the old one stays
                THEN commitErr' = (commitErr \/ StoreErrChecked) /\ UNCHANGED <<acct, crashed, sess>>
                ELSE acct' = [acct EXCEPT ![p] = TRUE] /\ sess' = [sess EXCEPT ![p] = FALSE] /\ UNCHANGED <<crashed, commitErr>>
    /\ \/ UNCHANGED <<byz, nfaults, fault>>
       \/ /\ CanFault /\ byz' = byz \cup {p} /\ nfaults' = nfaults + 1 /\ fault' = fault \cup {"commit-byzsig"}
    /\ UNCHANGED <<phase, k, got, badlen, old>>

\* the initiator recovers a composite signature from the confirmation signatures: every window of T consecutive participants
\* (ConfirmAll) - so every participant's signature takes part - or, in the broken design, the first window only
Verified == IF ConfirmAll THEN P ELSE 1 .. T
Finish == /\ phase = "commit" /\ committed = P
          /\ phase' = IF commitErr \/ (byz \cap Verified # {}) THEN "failed" ELSE "ok"
          /\ UNCHANGED <<k, sess, got, badlen, acct, crashed, committed, commitErr, byz, nfaults, fault, old>>

Done == phase \in {"ok", "failed"} /\ UNCHANGED vars
Next == Check \/ Prepare \/ Execute \/ (\E p \in P : Commit(p)) \/ Finish \/ Done
Spec == Init /\ [][Next]_vars

(* ---- properties ---- *)
\* C12: success => everybody holds the account, nobody crashed, threshold rule respected
AgreementOnSuccess == phase = "ok" => (\A p \in P : acct[p] /\ ~crashed[p] /\ ~badlen[p]) /\ 2 * T > N /\ T <= N /\ byz = {}
\* C13: any prepare / execute / contribution fault of the listed kinds => error, no account anywhere, no crash
\* (a faulty commit reply comes after the accounts have been stored: it must fail the generation, it cannot undo them)
\* (a message delivered twice is not a failure: the generation may go on - then C12 applies - or end; it never crashes anybody)
Dups == {"prepare-dup", "execute-dup", "contribute-dup"}
FaultNoAccount == /\ (fault \ Dups # {}) => phase # "ok"
                  /\ (fault \ (Dups \cup {"commit-byzsig"}) # {}) => \A p \in P : ~acct[p] /\ ~crashed[p]
                  /\ \A p \in P : (fault \subseteq Dups) => ~crashed[p]
\* a refused threshold creates nothing
RefusedCreatesNothing == (phase = "failed" /\ (~ThresholdOK \/ Initiator \in OldHolders)) => \A p \in P : ~acct[p] /\ ~sess[p]
=============================================================================

-------------------------------- MODULE Signer --------------------------------
(***************************************************************************)
(* Layer D (implementation shaped) model of one Dirk instance serving      *)
(* concurrent signing requests: one action per critical section of         *)
(*   services/signer/standard/*.go        (precheck, sign, reply)          *)
(*   services/ruler/golang/runner.go      (duplicate check, PreLock,       *)
(*                                         Lock.., PostLock, deferred      *)
(*                                         Unlock..)                       *)
(*   services/locker/syncmap/service.go   (mapLock, one mutex per key)     *)
(*   rules/standard/signbeacon*.go        (Fetch, checks, Store /          *)
(*                                         BatchStore)                     *)
(* plus Crash (kill -9: volatile state lost, disk and already released     *)
(* signatures stay) and one fault disjunct per dependency call.            *)
(*                                                                         *)
(* Action names are the gate / trace event names of the harness.  Boolean  *)
(* and enumerated constants switch on design defects (design mutants).     *)
(***************************************************************************)
EXTENDS SlashRules, TLC

CONSTANTS
    Keys,           \* set of key names
    Reqs,           \* set of request ids
    Catalog(_),     \* request id -> set of possible requests [kind : {"att","atts","prop","gen"}, ents : Seq([k, s, t, slot, root])]
                    \* (a singleton in exhaustive configurations; a large set for behaviour generation)
    MaxCrashes, MaxFaults, MaxCloses,
    LockMode,       \* "all" (shipped) | "first" (only the first key is locked) | "none"
    UsePreLock,     \* FALSE: no locker-wide mutex around the locking loop
    DupCheck,       \* FALSE: repeated keys in one request are not refused
    StoreBeforeSign,\* FALSE: the signature is produced before the record is stored
    FaultIgnored,   \* TRUE: a failing store is ignored (the result stays APPROVED)
    UnlockEarly,    \* TRUE: keys are unlocked before the store
    BusyDropsMap,   \* TRUE: a request that meets a busy key inside its PreLock section lets go of the locker-wide mutex while it waits
                    \* for the key and takes it again afterwards ("do not sit on the global mutex")
    AbandonReleasesLocks, \* TRUE: when a request's caller goes away (its context ends) while the rules run, the ruler returns at once - its
                    \* deferred unlocks run - while the rule evaluation it started carries on with the fetched record
    FetchCache,     \* TRUE: the store keeps the last value written per key in memory: Store (single requests) updates it, BatchStore
                    \* (batches) does not, Fetch prefers it ("save a database read for keys rewritten on every request")
    StoreMode       \* "atomic" (shipped: one committed transaction replaces the record) | "deleteThenSet" (the old record is
                    \* removed in one committed transaction and the new one written in a second)

VARIABLES
    def,        \* Reqs -> the request's content (chosen from Catalog before it is invoked)
    disk,       \* Keys -> [s, t, ps]        survives Crash
    cache,      \* Keys -> [s, t, ps]        what the store remembers in memory (-2: nothing) - only read when FetchCache
    mapLock,    \* holder of the locker-wide mutex or None
    holder,     \* Keys -> holder of the key's mutex or None
    pc,         \* Reqs -> control state
    idx,        \* Reqs -> position inside the current loop (lock / fetch / store / sign)
    loc,        \* Reqs -> Seq of fetched records (one per entry)
    res,        \* Reqs -> Seq of results ("UNKNOWN","APPROVED","DENIED","FAILED")
    nxt,        \* Reqs -> Seq of records to store (one per entry)
    sigs,       \* Reqs -> set of entry indices for which a signature has been produced
    released,   \* set of messages whose signature left the process (ghost; survives Crash)
    order,      \* sequence of requests in the order of their Check step (ghost, linearization order)
    faulted,    \* set of <<r, i>> entries (i = 0: whole request) hit by a fault (ghost)
    crashes, faults,
    closed      \* the slashing database has been closed (shutdown has begun): reads and writes fail from now on

vars == <<def, disk, cache, mapLock, holder, pc, idx, loc, res, nxt, sigs, released, order, faulted, crashes, faults, closed>>

None == "none"
N(r) == Len(def[r].ents)
Ent(r, i) == def[r].ents[i]
Kind(r) == def[r].kind
IsAtt(r) == Kind(r) \in {"att", "atts"}
HasDup(r) == \E i, j \in 1 .. N(r) : i < j /\ Ent(r, i).k = Ent(r, j).k
\* keys the request locks, in request order
LockSeq(r) == IF LockMode = "none" THEN <<>>
              ELSE IF LockMode = "first" THEN <<Ent(r, 1).k>>
              ELSE [i \in 1 .. N(r) |-> Ent(r, i).k]

NoRec == [s |-> -1, t |-> -1, ps |-> -1]
NoCache == [s |-> -2, t |-> -2, ps |-> -2]
Unchosen == [kind |-> "none", ents |-> <<>>]
Fill(r, v) == [i \in 1 .. N(r) |-> v]

Init ==
    /\ def = [r \in Reqs |-> IF Cardinality(Catalog(r)) = 1 THEN CHOOSE d \in Catalog(r) : TRUE ELSE Unchosen]
    /\ disk = [k \in Keys |-> NoRec]
    /\ cache = [k \in Keys |-> NoCache]
    /\ mapLock = None
    /\ holder = [k \in Keys |-> None]
    /\ pc = [r \in Reqs |-> "idle"]
    /\ idx = [r \in Reqs |-> 1]
    /\ loc = [r \in Reqs |-> <<>>]
    /\ res = [r \in Reqs |-> <<>>]
    /\ nxt = [r \in Reqs |-> <<>>]
    /\ sigs = [r \in Reqs |-> {}]
    /\ released = {}
    /\ order = <<>>
    /\ faulted = {}
    /\ crashes = 0 /\ faults = 0
    /\ closed = FALSE

Goto(r, l) == pc' = [pc EXCEPT ![r] = l]
CanFault == faults < MaxFaults

(* ---- request arrives; account lookup / permission / unlock (helpers.go preCheck) ---- *)
Choose(r) ==
    /\ def[r] = Unchosen
    /\ \E d \in Catalog(r) : def' = [def EXCEPT ![r] = d]
    /\ UNCHANGED <<disk, cache, mapLock, holder, pc, idx, loc, res, nxt, sigs, released, order, faulted, crashes, faults, closed>>

Invoke(r) ==
    /\ pc[r] = "idle" /\ def[r] # Unchosen
    /\ Goto(r, "validate")
    /\ loc' = [loc EXCEPT ![r] = Fill(r, NoRec)]
    /\ res' = [res EXCEPT ![r] = Fill(r, "UNKNOWN")]
    /\ nxt' = [nxt EXCEPT ![r] = Fill(r, NoRec)]
    /\ UNCHANGED <<def, disk, cache, mapLock, holder, idx, sigs, released, order, faulted, crashes, faults, closed>>

PreCheckFail(r) ==      \* any precheck dependency fails: the request is answered without reaching the ruler
    /\ pc[r] = "idle" /\ CanFault /\ def[r] # Unchosen
    /\ faults' = faults + 1
    /\ faulted' = faulted \cup {<<r, 0>>}
    /\ res' = [res EXCEPT ![r] = Fill(r, "FAILED")]
    /\ Goto(r, "reply")
    /\ UNCHANGED <<def, disk, cache, mapLock, holder, idx, loc, nxt, sigs, released, order, crashes, closed>>

(* ---- ruler: duplicate-key validation (runner.go:60-81) ---- *)
Validate(r) ==
    /\ pc[r] = "validate"
    /\ IF DupCheck /\ HasDup(r)
         THEN /\ res' = [res EXCEPT ![r] = Fill(r, "FAILED")]
              /\ Goto(r, "reply")
         ELSE /\ Goto(r, IF UsePreLock /\ LockMode # "none" THEN "prelock" ELSE "lock")
              /\ UNCHANGED res
    /\ idx' = [idx EXCEPT ![r] = 1]
    /\ UNCHANGED <<def, disk, cache, mapLock, holder, loc, nxt, sigs, released, order, faulted, crashes, faults, closed>>

(* ---- locking (runner.go:82-94, syncmap) ---- *)
PreLock(r) ==
    /\ pc[r] = "prelock" /\ mapLock = None
    /\ mapLock' = r
    /\ Goto(r, "lock")
    /\ UNCHANGED <<def, disk, cache, holder, idx, loc, res, nxt, sigs, released, order, faulted, crashes, faults, closed>>

LockNext(r) ==
    /\ pc[r] = "lock"
    /\ idx[r] <= Len(LockSeq(r))
    /\ LET k == LockSeq(r)[idx[r]] IN
         /\ holder[k] = None          \* sync.Mutex is not re-entrant: a second Lock by the holder blocks too
         /\ holder' = [holder EXCEPT ![k] = r]
    /\ idx' = [idx EXCEPT ![r] = idx[r] + 1]
    /\ UNCHANGED <<def, disk, cache, mapLock, pc, loc, res, nxt, sigs, released, order, faulted, crashes, faults, closed>>

\* design mutant BusyDropsMap: the key is busy - release the locker-wide mutex, wait for the key, take the mutex again
LockYield(r) ==
    /\ BusyDropsMap /\ pc[r] = "lock" /\ idx[r] <= Len(LockSeq(r)) /\ mapLock = r
    /\ holder[LockSeq(r)[idx[r]]] # None
    /\ mapLock' = None
    /\ Goto(r, "lockwait")
    /\ UNCHANGED <<def, disk, cache, holder, idx, loc, res, nxt, sigs, released, order, faulted, crashes, faults, closed>>
LockWaitAcq(r) ==
    /\ pc[r] = "lockwait"
    /\ LET k == LockSeq(r)[idx[r]] IN holder[k] = None /\ holder' = [holder EXCEPT ![k] = r]
    /\ Goto(r, "relock")
    /\ UNCHANGED <<def, disk, cache, mapLock, idx, loc, res, nxt, sigs, released, order, faulted, crashes, faults, closed>>
ReLock(r) ==
    /\ pc[r] = "relock" /\ mapLock = None
    /\ mapLock' = r
    /\ idx' = [idx EXCEPT ![r] = idx[r] + 1]
    /\ Goto(r, "lock")
    /\ UNCHANGED <<def, disk, cache, holder, loc, res, nxt, sigs, released, order, faulted, crashes, faults, closed>>

PostLock(r) ==
    /\ pc[r] = "lock"
    /\ idx[r] > Len(LockSeq(r))
    /\ mapLock' = IF mapLock = r THEN None ELSE mapLock
    /\ idx' = [idx EXCEPT ![r] = 1]
    /\ Goto(r, IF StoreBeforeSign THEN "fetch" ELSE "fetch")
    /\ UNCHANGED <<def, disk, cache, holder, loc, res, nxt, sigs, released, order, faulted, crashes, faults, closed>>

(* ---- rules: fetch the record(s) (storage.go Fetch) ---- *)
\* what a fetch returns: the record on disk - unless the (mutant) store remembers a value for that part of the record
Read(k) == IF ~FetchCache THEN disk[k]
           ELSE [s  |-> IF cache[k].s # -2 THEN cache[k].s ELSE disk[k].s,
                 t  |-> IF cache[k].t # -2 THEN cache[k].t ELSE disk[k].t,
                 ps |-> IF cache[k].ps # -2 THEN cache[k].ps ELSE disk[k].ps]
Fetch(r) ==
    /\ pc[r] = "fetch" /\ ~closed
    /\ idx[r] <= N(r)
    /\ loc' = [loc EXCEPT ![r][idx[r]] = Read(Ent(r, idx[r]).k)]
    /\ idx' = [idx EXCEPT ![r] = idx[r] + 1]
    /\ UNCHANGED <<def, disk, cache, mapLock, holder, pc, res, nxt, sigs, released, order, faulted, crashes, faults, closed>>

FetchFail(r) ==         \* read error or undecodable record: the whole request FAILED, nothing stored
    /\ pc[r] = "fetch" /\ idx[r] <= N(r) /\ CanFault /\ Kind(r) # "gen"
    /\ faults' = faults + 1
    /\ faulted' = faulted \cup {<<r, 0>>}
    /\ res' = [res EXCEPT ![r] = Fill(r, "FAILED")]
    /\ Goto(r, "unlock")
    /\ UNCHANGED <<def, disk, cache, mapLock, holder, idx, loc, nxt, sigs, released, order, crashes, closed>>

\* the database was closed under the request (shutdown): the read fails, the whole request FAILED
FetchClosed(r) ==
    /\ pc[r] = "fetch" /\ idx[r] <= N(r) /\ closed /\ Kind(r) # "gen"
    /\ faulted' = faulted \cup {<<r, 0>>}
    /\ res' = [res EXCEPT ![r] = Fill(r, "FAILED")]
    /\ Goto(r, "unlock")
    /\ UNCHANGED <<def, disk, cache, mapLock, holder, idx, loc, nxt, sigs, released, order, crashes, faults, closed>>

(* ---- rules: evaluate (pure) ---- *)
EntRes(r, i) ==
    LET e == Ent(r, i) rec == loc[r][i] IN
    IF Kind(r) = "prop" THEN PropVerdict(rec.ps, e.slot, "prop")
    ELSE IF Kind(r) = "gen" THEN "APPROVED"
    ELSE AttVerdict([s |-> rec.s, t |-> rec.t], e.s, e.t, "att")
EntNext(r, i) ==
    LET e == Ent(r, i) rec == loc[r][i] IN
    IF Kind(r) = "prop" THEN [rec EXCEPT !.ps = PropNext(rec.ps, e.slot, "prop")]
    ELSE IF Kind(r) = "gen" THEN rec
    ELSE LET a == AttNext([s |-> rec.s, t |-> rec.t], e.s, e.t, "att") IN [rec EXCEPT !.s = a.s, !.t = a.t]

Check(r) ==
    /\ pc[r] = "fetch"
    /\ idx[r] > N(r)
    /\ res' = [res EXCEPT ![r] = [i \in 1 .. N(r) |-> EntRes(r, i)]]
    /\ nxt' = [nxt EXCEPT ![r] = [i \in 1 .. N(r) |-> EntNext(r, i)]]
    /\ order' = Append(order, r)
    /\ idx' = [idx EXCEPT ![r] = 1]
    /\ Goto(r, IF Kind(r) = "gen" THEN "unlock" ELSE IF UnlockEarly THEN "unlockE" ELSE "store")
    /\ UNCHANGED <<def, disk, cache, mapLock, holder, loc, sigs, released, faulted, crashes, faults, closed>>

(* ---- rules: store.  Single requests store only when approved (one Store); batches store every entry *)
(* (BatchStore, modelled entry by entry, i.e. weaker than badger's write batch).                      *)
NeedsStore(r, i) == IF Kind(r) = "atts" THEN TRUE ELSE res[r][i] = "APPROVED"
MergeRec(old, new, r) == IF Kind(r) = "prop" THEN [old EXCEPT !.ps = new.ps] ELSE [old EXCEPT !.s = new.s, !.t = new.t]

Erase(old, r) == IF Kind(r) = "prop" THEN [old EXCEPT !.ps = -1] ELSE [old EXCEPT !.s = -1, !.t = -1]
\* design mutant StoreMode = "deleteThenSet": the write of a record is two durable steps; between them (and for a process that
\* dies between them: for ever) the key has no record of that kind
StoreDel(r) ==
    /\ StoreMode = "deleteThenSet"
    /\ pc[r] = "store" /\ idx[r] <= N(r) /\ ~closed /\ NeedsStore(r, idx[r])
    /\ disk' = [disk EXCEPT ![Ent(r, idx[r]).k] = Erase(@, r)]
    /\ Goto(r, "storeSet")
    /\ UNCHANGED <<def, cache, mapLock, holder, idx, loc, res, nxt, sigs, released, order, faulted, crashes, faults, closed>>
StoreSet(r) ==
    /\ pc[r] = "storeSet"
    /\ disk' = [disk EXCEPT ![Ent(r, idx[r]).k] = MergeRec(@, nxt[r][idx[r]], r)]
    /\ idx' = [idx EXCEPT ![r] = idx[r] + 1]
    /\ Goto(r, "store")
    /\ UNCHANGED <<def, cache, mapLock, holder, loc, res, nxt, sigs, released, order, faulted, crashes, faults, closed>>

Store(r) ==
    /\ pc[r] = "store"
    /\ idx[r] <= N(r)
    /\ (~closed \/ ~NeedsStore(r, idx[r]))
    /\ (StoreMode = "atomic" \/ ~NeedsStore(r, idx[r]))
    /\ disk' = IF NeedsStore(r, idx[r])
                 THEN [disk EXCEPT ![Ent(r, idx[r]).k] = MergeRec(@, nxt[r][idx[r]], r)]
                 ELSE disk
    /\ cache' = IF FetchCache /\ NeedsStore(r, idx[r]) /\ Kind(r) # "atts"      \* (Store remembers; BatchStore - kind "atts" - does not)
                  THEN [cache EXCEPT ![Ent(r, idx[r]).k] = MergeRec(@, nxt[r][idx[r]], r)]
                  ELSE cache
    /\ idx' = [idx EXCEPT ![r] = idx[r] + 1]
    /\ UNCHANGED <<def, mapLock, holder, pc, loc, res, nxt, sigs, released, order, faulted, crashes, faults, closed>>

StoreFail(r) ==         \* write error: the whole request FAILED (unless the mutant ignores it)
    /\ pc[r] = "store" /\ idx[r] <= N(r) /\ CanFault
    /\ \E i \in idx[r] .. N(r) : NeedsStore(r, i)
    /\ faults' = faults + 1
    /\ faulted' = faulted \cup {<<r, 0>>}
    /\ res' = IF FaultIgnored THEN res ELSE [res EXCEPT ![r] = Fill(r, "FAILED")]
    /\ idx' = [idx EXCEPT ![r] = 1]
    /\ Goto(r, IF UnlockEarly THEN "sign" ELSE "unlock")
    /\ UNCHANGED <<def, disk, cache, mapLock, holder, loc, nxt, sigs, released, order, crashes, closed>>

StoreClosed(r) ==      \* the database was closed between the read and the write
    /\ pc[r] = "store" /\ idx[r] <= N(r) /\ closed
    /\ \E i \in idx[r] .. N(r) : NeedsStore(r, i)
    /\ faulted' = faulted \cup {<<r, 0>>}
    /\ res' = [res EXCEPT ![r] = Fill(r, "FAILED")]
    /\ idx' = [idx EXCEPT ![r] = 1]
    /\ Goto(r, "unlock")
    /\ UNCHANGED <<def, disk, cache, mapLock, holder, loc, nxt, sigs, released, order, crashes, faults, closed>>

StoreDone(r) ==
    /\ pc[r] = "store"
    /\ idx[r] > N(r)
    /\ idx' = [idx EXCEPT ![r] = 1]
    /\ Goto(r, IF UnlockEarly THEN "sign" ELSE "unlock")
    /\ UNCHANGED <<def, disk, cache, mapLock, holder, loc, res, nxt, sigs, released, order, faulted, crashes, faults, closed>>

(* ---- the caller goes away while the rules run (context cancelled / deadline).  Shipped: nothing happens to the request - it carries on *)
(* under its locks and its answer goes nowhere.  Design mutant AbandonReleasesLocks: the locks are let go now, the evaluation carries on.  *)
Abandon(r) ==
    /\ pc[r] \in {"fetch", "check", "store"} /\ CanFault /\ <<r, -1>> \notin faulted
    /\ faults' = faults + 1
    /\ faulted' = faulted \cup {<<r, -1>>}
    /\ IF AbandonReleasesLocks
         THEN /\ holder' = [k \in Keys |-> IF holder[k] = r THEN None ELSE holder[k]]
              /\ mapLock' = IF mapLock = r THEN None ELSE mapLock
         ELSE UNCHANGED <<holder, mapLock>>
    /\ UNCHANGED <<def, disk, cache, pc, idx, loc, res, nxt, sigs, released, order, crashes, closed>>

(* ---- deferred unlocks when RunRules returns ---- *)
Unlock(r) ==
    /\ pc[r] \in {"unlock", "unlockE"}
    /\ holder' = [k \in Keys |-> IF holder[k] = r THEN None ELSE holder[k]]
    /\ mapLock' = IF mapLock = r THEN None ELSE mapLock
    /\ idx' = [idx EXCEPT ![r] = 1]
    /\ Goto(r, IF pc[r] = "unlockE" THEN "store" ELSE "sign")
    /\ UNCHANGED <<def, disk, cache, loc, res, nxt, sigs, released, order, faulted, crashes, faults, closed>>

(* ---- signer: sign approved entries, one by one ---- *)
Sign(r) ==
    /\ pc[r] = "sign"
    /\ idx[r] <= N(r)
    \* (in the design that lets an abandoned request's locks go, the abandoned caller is answered FAILED at once: nothing is signed for it)
    /\ sigs' = IF res[r][idx[r]] = "APPROVED" /\ ~(AbandonReleasesLocks /\ <<r, -1>> \in faulted) THEN [sigs EXCEPT ![r] = @ \cup {idx[r]}] ELSE sigs
    /\ idx' = [idx EXCEPT ![r] = idx[r] + 1]
    /\ UNCHANGED <<def, disk, cache, mapLock, holder, pc, loc, res, nxt, released, order, faulted, crashes, faults, closed>>

SignFail(r) ==          \* hashing or signing fails for one entry: that entry FAILED
    /\ pc[r] = "sign" /\ idx[r] <= N(r) /\ CanFault
    /\ res[r][idx[r]] = "APPROVED"
    /\ faults' = faults + 1
    /\ faulted' = faulted \cup {<<r, idx[r]>>}
    /\ res' = [res EXCEPT ![r][idx[r]] = "FAILED"]
    /\ idx' = [idx EXCEPT ![r] = idx[r] + 1]
    /\ UNCHANGED <<def, disk, cache, mapLock, holder, pc, loc, nxt, sigs, released, order, crashes, closed>>

Msg(r, i) == LET e == Ent(r, i) IN
    IF Kind(r) = "prop" THEN [k |-> e.k, kind |-> "prop", s |-> -1, t |-> -1, slot |-> e.slot, root |-> e.root]
    ELSE IF Kind(r) = "gen" THEN [k |-> e.k, kind |-> "gen", s |-> -1, t |-> -1, slot |-> -1, root |-> e.root]
    ELSE [k |-> e.k, kind |-> "att", s |-> e.s, t |-> e.t, slot |-> -1, root |-> e.root]

Reply(r) ==
    /\ \/ pc[r] = "sign" /\ idx[r] > N(r)
       \/ pc[r] = "reply"
    /\ released' = released \cup {Msg(r, i) : i \in sigs[r]}
    /\ Goto(r, "done")
    /\ UNCHANGED <<def, disk, cache, mapLock, holder, idx, loc, res, nxt, sigs, order, faulted, crashes, faults, closed>>

(* ---- variant: sign first, store afterwards (mutant StoreBeforeSign = FALSE) is expressed by     *)
(* releasing at Check time: the signature may leave before the record is on disk.                  *)
EarlySign(r) ==
    /\ ~StoreBeforeSign
    /\ pc[r] = "store" /\ idx[r] = 1
    /\ sigs[r] = {}
    /\ \E i \in 1 .. N(r) : res[r][i] = "APPROVED"
    /\ sigs' = [sigs EXCEPT ![r] = {i \in 1 .. N(r) : res[r][i] = "APPROVED"}]
    /\ released' = released \cup {Msg(r, i) : i \in {j \in 1 .. N(r) : res[r][j] = "APPROVED"}}
    /\ UNCHANGED <<def, disk, cache, mapLock, holder, pc, idx, loc, res, nxt, order, faulted, crashes, faults, closed>>

(* ---- kill -9 and restart on the same directory ---- *)
Live(r) == pc[r] \notin {"idle", "done", "dead"}
Crash ==
    /\ crashes < MaxCrashes
    /\ \E r \in Reqs : Live(r)
    /\ crashes' = crashes + 1
    /\ pc' = [r \in Reqs |-> IF Live(r) THEN "dead" ELSE pc[r]]
    /\ mapLock' = None
    /\ holder' = [k \in Keys |-> None]
    /\ closed' = FALSE           \* the restarted process opens the database again
    /\ cache' = [k \in Keys |-> NoCache]
    /\ UNCHANGED <<def, disk, idx, loc, res, nxt, sigs, released, order, faulted, faults>>

\* shutdown begins: the store is closed while requests may be in flight (MaxCloses = 0 switches it off)
CloseStore ==
    /\ MaxCloses > 0 /\ ~closed
    /\ closed' = TRUE
    /\ UNCHANGED <<def, disk, cache, mapLock, holder, pc, idx, loc, res, nxt, sigs, released, order, faulted, crashes, faults>>

Step(r) == \/ Choose(r) \/ Invoke(r) \/ PreCheckFail(r) \/ Validate(r) \/ PreLock(r) \/ LockNext(r) \/ LockYield(r) \/ LockWaitAcq(r) \/ ReLock(r) \/ PostLock(r)
           \/ Fetch(r) \/ FetchFail(r) \/ FetchClosed(r) \/ Check(r) \/ Abandon(r) \/ Store(r) \/ StoreDel(r) \/ StoreSet(r) \/ StoreFail(r) \/ StoreClosed(r) \/ StoreDone(r)
           \/ Unlock(r) \/ Sign(r) \/ SignFail(r) \/ Reply(r) \/ EarlySign(r)

AllEnded == \A r \in Reqs : pc[r] \in {"done", "dead"}
Finished == AllEnded /\ UNCHANGED vars

Next == (\E r \in Reqs : Step(r)) \/ Crash \/ CloseStore \/ Finished
Spec == Init /\ [][Next]_vars
FairSpec == Spec /\ \A r \in Reqs : WF_vars(Step(r))

(* ======================= properties ======================= *)
RelAtt == {m \in released : m.kind = "att"}
RelProp == {m \in released : m.kind = "prop"}
\* C01 / C02 / C04 (never both signed)
NoSlashableAtt == \A a, b \in RelAtt : a.k = b.k => ~SlashableAtt(a, b)
NoDoubleProposal == \A a, b \in RelProp : a.k = b.k => ~SlashableProp(a, b)

\* C03: by the time a signature exists (even unreplied), the record on disk covers the duty, and it
\* stays covered for ever (disk survives Crash)
Covers(rec, m) == IF m.kind = "att" THEN rec.t >= m.t /\ rec.s >= m.s
                  ELSE IF m.kind = "prop" THEN rec.ps >= m.slot ELSE TRUE
DurableBeforeSign ==
    /\ \A r \in Reqs : \A i \in sigs[r] : Covers(disk[Ent(r, i).k], Msg(r, i))
    /\ \A m \in released : Covers(disk[m.k], m)

\* C06: a faulted decision/record step yields no signature; a signature implies APPROVED
FailClosed ==
    /\ \A r \in Reqs : <<r, 0>> \in faulted => sigs[r] = {}
    /\ \A r \in Reqs : \A i \in 1 .. N(r) : <<r, i>> \in faulted => i \notin sigs[r]
    /\ \A r \in Reqs : \A i \in sigs[r] : res[r][i] \in {"APPROVED"} \/ pc[r] = "dead"

\* C10 ingredient: records never move backwards
Monotone == [][\A k \in Keys : disk'[k].s >= disk[k].s /\ disk'[k].t >= disk[k].t /\ disk'[k].ps >= disk[k].ps]_vars

\* C04: the outcome equals processing the requests one at a time in the order of their Check steps
\* (which lies between invocation and response, so the order respects real time).
RECURSIVE SeqRun(_, _)
SeqApply(d, r) ==   \* returns [disk, res] of running r alone on d (distinct keys or refused duplicates)
    IF DupCheck /\ HasDup(r) THEN [disk |-> d, res |-> Fill(r, "FAILED")]
    ELSE LET rs == [i \in 1 .. N(r) |->
                      LET e == Ent(r, i) rec == d[e.k] IN
                      IF Kind(r) = "prop" THEN PropVerdict(rec.ps, e.slot, "prop")
                      ELSE IF Kind(r) = "gen" THEN "APPROVED"
                      ELSE AttVerdict([s |-> rec.s, t |-> rec.t], e.s, e.t, "att")]
             nd == [k \in Keys |->
                      IF \E i \in 1 .. N(r) : Ent(r, i).k = k /\ rs[i] = "APPROVED"
                        THEN LET i == CHOOSE j \in 1 .. N(r) : Ent(r, j).k = k /\ rs[j] = "APPROVED"
                                 e == Ent(r, i) IN
                             IF Kind(r) = "prop" THEN [d[k] EXCEPT !.ps = ToI64(e.slot)]
                             ELSE IF Kind(r) = "gen" THEN d[k]
                             ELSE [d[k] EXCEPT !.s = ToI64(e.s), !.t = ToI64(e.t)]
                        ELSE d[k]]
         IN [disk |-> nd, res |-> rs]
SeqRun(d, seq) == IF seq = <<>> THEN [disk |-> d, res |-> <<>>]
                  ELSE LET a == SeqApply(d, Head(seq))
                           rest == SeqRun(a.disk, Tail(seq))
                       IN [disk |-> rest.disk, res |-> <<a.res>> \o rest.res]
Linearizable ==
    (AllEnded /\ crashes = 0 /\ faults = 0 /\ ~closed) =>
        LET run == SeqRun([k \in Keys |-> NoRec], order) IN
        /\ run.disk = disk
        /\ \A p \in 1 .. Len(order) : res[order[p]] = run.res[p]

\* C15: no combination of requests leaves requests waiting for ever (TLC deadlock check = no state
\* without successor; Finished keeps terminal states alive) and, under fairness, everything ends.
Termination == <>AllEnded

TypeOK == /\ mapLock \in Reqs \cup {None}
          /\ \A k \in Keys : holder[k] \in Reqs \cup {None}
=============================================================================

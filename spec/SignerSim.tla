------------------------------- MODULE SignerSim -------------------------------
(***************************************************************************)
(* Behaviour generation for Signer under `tlc -simulate`: request contents *)
(* are drawn from a large catalogue, every step is recorded in `sched`,    *)
(* and when all requests have ended the behaviour (requests, schedule,     *)
(* expected results, expected disk) is printed as one JSON line and the    *)
(* model starts over.  The harness imposes each schedule on the real code  *)
(* through its gates.                                                      *)
(***************************************************************************)
EXTENDS MCSigner, Json

VARIABLE sched
simvars == <<vars, sched>>

\* catalogue: single attestations, batches of two and three entries (repeated keys included), proposals
Shapes == {<<0, 0>>, <<0, 1>>, <<0, 2>>, <<1, 2>>, <<0, 3>>, <<1, 3>>, <<2, 3>>}
AttEnts == {A(k, st[1], st[2], root) : k \in Keys, st \in Shapes, root \in {"A", "B"}}
SimCatalog(r) ==
    {Att(e) : e \in AttEnts}
    \cup {Atts(<<e1, e2>>) : e1 \in AttEnts, e2 \in AttEnts}
    \cup {Atts(<<e1, e2, A(k3, 0, 1, "A")>>) : e1 \in {e \in AttEnts : e.root = "A"}, e2 \in {e \in AttEnts : e.root = "B"}, k3 \in Keys}
    \cup {Prop(P(k, slot, root)) : k \in Keys, slot \in 0 .. 3, root \in {"A", "B"}}

\* catalogue for attack generation: every request votes (0,1) / proposes slot 1 on keys shared with the
\* others, so that any overlap of two critical sections on a key yields a double signature or a lost update
ConflictCatalog(r) ==
    {Att(A(k, 0, 1, root)) : k \in Keys, root \in {"A", "B"}}
    \cup UNION {{Atts(<<A(k1, 0, 1, root), A(k2, 0, 1, root)>>) : k2 \in Keys \ {k1}, root \in {"A", "B"}} : k1 \in Keys}
    \cup UNION {UNION {{Atts(<<A(k1, 0, 1, root), A(k2, 0, 1, root), A(k3, 0, 1, root)>>) : k3 \in Keys \ {k1, k2}, root \in {"A", "B"}}
                        : k2 \in Keys \ {k1}} : k1 \in Keys}
    \cup {Prop(P(k, 1, root)) : k \in Keys, root \in {"A", "B"}}

SimInit == Init /\ sched = <<>>

Rec(name, r) == sched' = Append(sched, [a |-> name, r |-> r])

SimStep(r) ==
    \/ Choose(r) /\ UNCHANGED sched
    \/ Invoke(r) /\ Rec("Invoke", r)
    \/ Validate(r) /\ Rec("Validate", r)
    \/ PreLock(r) /\ Rec("PreLock", r)
    \/ LockNext(r) /\ Rec("LockNext", r)
    \/ PostLock(r) /\ Rec("PostLock", r)
    \/ Fetch(r) /\ Rec("Fetch", r)
    \/ Check(r) /\ Rec("Check", r)
    \/ Abandon(r) /\ Rec("Abandon", r)
    \/ Store(r) /\ Rec("Store", r)
    \/ StoreDone(r) /\ Rec("StoreDone", r)
    \/ Unlock(r) /\ Rec("Unlock", r)
    \/ Sign(r) /\ Rec("Sign", r)
    \/ Reply(r) /\ Rec("Reply", r)

Flush ==
    /\ AllEnded
    /\ PrintT(<<"BEHAVIOUR", ToJson([def |-> def, sched |-> sched, res |-> res, disk |-> disk, sigs |-> [r \in Reqs |-> sigs[r]]])>>)
    /\ def' = [r \in Reqs |-> Unchosen]
    /\ disk' = [k \in Keys |-> NoRec]
    /\ cache' = [k \in Keys |-> NoCache]
    /\ mapLock' = None
    /\ holder' = [k \in Keys |-> None]
    /\ pc' = [r \in Reqs |-> "idle"]
    /\ idx' = [r \in Reqs |-> 1]
    /\ loc' = [r \in Reqs |-> <<>>]
    /\ res' = [r \in Reqs |-> <<>>]
    /\ nxt' = [r \in Reqs |-> <<>>]
    /\ sigs' = [r \in Reqs |-> {}]
    /\ released' = {}
    /\ order' = <<>>
    /\ faulted' = {}
    /\ crashes' = 0 /\ faults' = 0 /\ closed' = FALSE
    /\ sched' = <<>>

SimNext == (\E r \in Reqs : SimStep(r)) \/ Flush
SimSpec == SimInit /\ [][SimNext]_simvars
=============================================================================

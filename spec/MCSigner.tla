------------------------------- MODULE MCSigner -------------------------------
(***************************************************************************)
(* Request mixes for exhaustive checking of Signer (one per configuration) *)
(***************************************************************************)
EXTENDS Signer

A(k, s, t, root) == [k |-> k, s |-> s, t |-> t, slot |-> -1, root |-> root]
P(k, slot, root) == [k |-> k, s |-> -1, t |-> -1, slot |-> slot, root |-> root]
G(k, root) == [k |-> k, s |-> -1, t |-> -1, slot |-> -1, root |-> root]
Att(e) == [kind |-> "att", ents |-> <<e>>]
Atts(es) == [kind |-> "atts", ents |-> es]
Prop(e) == [kind |-> "prop", ents |-> <<e>>]
Gen(e) == [kind |-> "gen", ents |-> <<e>>]

One(mix, r) == {mix[r]}

\* two batches naming the same two keys in opposite orders with conflicting votes, a single on a shared key,
\* and a batch that repeats a key
MixOpposite == [a |-> Atts(<<A("k1", 0, 1, "A"), A("k2", 0, 1, "A")>>),
                b |-> Atts(<<A("k2", 0, 1, "B"), A("k1", 0, 1, "B")>>),
                c |-> Att(A("k1", 0, 2, "A")),
                d |-> Atts(<<A("k2", 1, 2, "A"), A("k2", 1, 2, "B")>>)]

\* surround race: (1,2) against (0,3) on one key, plus proposals racing on a slot
MixSurround == [a |-> Att(A("k1", 1, 2, "A")),
                b |-> Att(A("k1", 0, 3, "A")),
                c |-> Prop(P("k1", 1, "A")),
                d |-> Prop(P("k1", 1, "B"))]

\* three keys, nested and crossing key lists (lock-order stress) mixed with a generic signature
MixCrossing == [a |-> Atts(<<A("k1", 0, 1, "A"), A("k2", 0, 1, "A"), A("k3", 0, 1, "A")>>),
                b |-> Atts(<<A("k3", 0, 1, "B"), A("k1", 0, 1, "B")>>),
                c |-> Atts(<<A("k2", 0, 1, "B"), A("k3", 0, 2, "A")>>),
                d |-> Gen(G("k2", "A"))]

\* small mix used with crashes and faults
MixCrash == [a |-> Att(A("k1", 0, 1, "A")),
             b |-> Att(A("k1", 0, 1, "B")),
             c |-> Atts(<<A("k1", 1, 2, "A"), A("k2", 0, 1, "A")>>)]

\* five requests (thorough)
MixFive == [a |-> Atts(<<A("k1", 0, 1, "A"), A("k2", 0, 1, "A")>>),
            b |-> Atts(<<A("k2", 0, 1, "B"), A("k3", 0, 1, "B"), A("k1", 0, 1, "B")>>),
            c |-> Att(A("k1", 0, 2, "A")),
            d |-> Prop(P("k3", 1, "A")),
            e |-> Prop(P("k3", 1, "B"))]
\* an abandoned request between two proposals of its key
MixAbandon == [a |-> Prop(P("k1", 1, "A")),
               b |-> Prop(P("k1", 2, "A")),
               c |-> Prop(P("k1", 2, "B"))]
\* the two endpoints on one key: an older single request, a batch, then a single request conflicting with the batch's entry
MixEndpoints == [a |-> Att(A("k1", 0, 1, "A")),
                 b |-> Atts(<<A("k1", 1, 2, "A"), A("k2", 1, 2, "A")>>),
                 c |-> Att(A("k1", 1, 2, "B"))]
CatEndpoints(r) == One(MixEndpoints, r)
CatAbandon(r) == One(MixAbandon, r)
CatOpposite(r) == One(MixOpposite, r)
CatSurround(r) == One(MixSurround, r)
CatCrossing(r) == One(MixCrossing, r)
CatCrash(r) == One(MixCrash, r)
CatFive(r) == One(MixFive, r)
=============================================================================

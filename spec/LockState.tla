------------------------------- MODULE LockState -------------------------------
(***************************************************************************)
(* The lock state of accounts and wallets of one Dirk instance, as the     *)
(* code (and the wallet library underneath it) actually behaves:           *)
(*                                                                         *)
(*  - accounts are locked when the process starts and when they are        *)
(*    created; a signing request for a locked account asks the unlocker,   *)
(*    which tries its configured passphrases; only if none opens the       *)
(*    account is the request denied - BEFORE the slashing rules run, so    *)
(*    nothing is recorded (services/signer/standard/helpers.go);           *)
(*  - AccountManager.Unlock opens with the supplied passphrase, Lock       *)
(*    closes; both need the permission for the operation;                  *)
(*  - DEVIATION kept on purpose (go-eth2-wallet-nd account.Unlock): once   *)
(*    an account has been opened in this process its decrypted key stays   *)
(*    in memory, and a later Unlock succeeds with ANY passphrase (also     *)
(*    the unlocker's).  `opened` models this; a restart clears it.         *)
(*  - non-deterministic wallets have no passphrase: Unlock always          *)
(*    succeeds; account creation works on a locked wallet and leaves the   *)
(*    wallet's state as it was; a created account is locked.               *)
(*                                                                         *)
(* Invariants: a signature is given only by an account that is unlocked    *)
(* at that moment (SignedOnlyUnlocked) and was opened with its own         *)
(* passphrase since the last restart (OpenedWithOwnPass); a refused        *)
(* request changes nothing (by construction of the actions, checked on     *)
(* the traces).                                                            *)
(***************************************************************************)
EXTENDS Integers, Sequences, FiniteSets, TLC

CONSTANTS Initial,    \* account names present at start
          Creatable,  \* account names that can be created
          PassOf0,    \* [Initial -> passphrase]
          Known,      \* the unlocker's configured account passphrases
          Passes,     \* passphrases a client may send
          Clients,    \* client names
          Allowed     \* clients with permission for everything (the permission model itself is Perms.tla)

Names == Initial \cup Creatable
VARIABLES exists,    \* set of account names
          passOf,    \* [exists -> passphrase]
          unlocked,  \* set of accounts currently unlocked
          opened,    \* set of accounts whose key has been decrypted since the last start
          wunlocked, \* the wallet is unlocked
          nsig,      \* [Names -> Nat] signatures given (stands for the slashing record: moves only when something is signed)
          last       \* the last operation and its outcome: [op, c, a, p, res]
vars == <<exists, passOf, unlocked, opened, wunlocked, nsig, last>>

Init == /\ exists = Initial /\ passOf = PassOf0 /\ unlocked = {} /\ opened = {} /\ wunlocked = FALSE
        /\ nsig = [a \in Names |-> 0] /\ last = [op |-> "start", c |-> "", a |-> "", p |-> "", res |-> "SUCCEEDED"]

Out(op, c, a, p, res) == last' = [op |-> op, c |-> c, a |-> a, p |-> p, res |-> res]
Put(f, k, v) == [x \in (DOMAIN f) \cup {k} |-> IF x = k THEN v ELSE f[x]]

\* can the unlocker (or anybody supplying p) open account a now?
Opens(a, p) == a \in opened \/ p = passOf[a]
UnlockerOpens(a) == a \in opened \/ passOf[a] \in Known

Sign(c, a) ==
    /\ a \in Names
    /\ IF c \notin Allowed \/ a \notin exists
         THEN UNCHANGED <<unlocked, opened, nsig>> /\ Out("sign", c, a, "", "DENIED")
         ELSE IF a \in unlocked \/ UnlockerOpens(a)
                THEN /\ unlocked' = unlocked \cup {a} /\ opened' = opened \cup {a}
                     /\ nsig' = [nsig EXCEPT ![a] = @ + 1] /\ Out("sign", c, a, "", "SUCCEEDED")
                ELSE UNCHANGED <<unlocked, opened, nsig>> /\ Out("sign", c, a, "", "DENIED")
    /\ UNCHANGED <<exists, passOf, wunlocked>>

UnlockAcct(c, a, p) ==
    /\ a \in Names
    /\ IF c \notin Allowed \/ a \notin exists
         THEN UNCHANGED <<unlocked, opened>> /\ Out("unlockacct", c, a, p, "DENIED")
         ELSE IF a \in unlocked \/ Opens(a, p)
                THEN unlocked' = unlocked \cup {a} /\ opened' = opened \cup {a} /\ Out("unlockacct", c, a, p, "SUCCEEDED")
                ELSE UNCHANGED <<unlocked, opened>> /\ Out("unlockacct", c, a, p, "DENIED")
    /\ UNCHANGED <<exists, passOf, wunlocked, nsig>>

LockAcct(c, a) ==
    /\ a \in Names
    /\ IF c \notin Allowed \/ a \notin exists
         THEN UNCHANGED unlocked /\ Out("lockacct", c, a, "", "DENIED")
         ELSE unlocked' = unlocked \ {a} /\ Out("lockacct", c, a, "", "SUCCEEDED")
    /\ UNCHANGED <<exists, passOf, opened, wunlocked, nsig>>

LockWallet(c) ==
    /\ IF c \in Allowed THEN wunlocked' = FALSE /\ Out("lockwallet", c, "", "", "SUCCEEDED") ELSE UNCHANGED wunlocked /\ Out("lockwallet", c, "", "", "DENIED")
    /\ UNCHANGED <<exists, passOf, unlocked, opened, nsig>>
UnlockWallet(c, p) ==
    /\ IF c \in Allowed THEN wunlocked' = TRUE /\ Out("unlockwallet", c, "", p, "SUCCEEDED") ELSE UNCHANGED wunlocked /\ Out("unlockwallet", c, "", p, "DENIED")
    /\ UNCHANGED <<exists, passOf, unlocked, opened, nsig>>

Create(c, a, p) ==
    /\ a \in Names
    \* (the gRPC handler calls the process service directly and reports every refusal - no permission, existing name - as FAILED)
    /\ IF a \in exists \/ c \notin Allowed THEN UNCHANGED <<exists, passOf>> /\ Out("create", c, a, p, "FAILED")
       ELSE exists' = exists \cup {a} /\ passOf' = Put(passOf, a, p) /\ Out("create", c, a, p, "SUCCEEDED")
    /\ UNCHANGED <<unlocked, opened, wunlocked, nsig>>

Restart == /\ unlocked' = {} /\ opened' = {} /\ wunlocked' = FALSE /\ Out("restart", "", "", "", "SUCCEEDED")
           /\ UNCHANGED <<exists, passOf, nsig>>

Next == \/ \E c \in Clients, a \in Names : Sign(c, a) \/ LockAcct(c, a)
        \/ \E c \in Clients, a \in Names, p \in Passes : UnlockAcct(c, a, p) \/ Create(c, a, p)
        \/ \E c \in Clients : LockWallet(c)
        \/ \E c \in Clients, p \in Passes : UnlockWallet(c, p)
        \/ Restart
Spec == Init /\ [][Next]_vars

TypeOK == unlocked \subseteq exists /\ opened \subseteq exists /\ exists \subseteq Names /\ DOMAIN passOf = exists
\* a signature just given comes from an account that is unlocked now
SignedOnlyUnlocked == (last.op = "sign" /\ last.res = "SUCCEEDED") => last.a \in unlocked
\* an unlocked account is an opened account (its key is in memory)
UnlockedIsOpened == unlocked \subseteq opened
\* an account's key gets into memory only through its own passphrase: supplied by a permitted client, or held by the unlocker
\* (afterwards - the deviation - any passphrase re-opens it until the next restart)
OpenedRightly == [][\A a \in Names : (a \in opened' /\ a \notin opened) =>
                       \/ last'.op = "unlockacct" /\ last'.a = a /\ last'.p = passOf[a]
                       \/ last'.op = "sign" /\ last'.a = a /\ passOf[a] \in Known]_vars
\* what one would WANT of Lock and which the deviation breaks (kept as a documented non-property; TLC finds the
\* counterexample Unlock(right) - Lock - Unlock(wrong)): every successful client unlock uses the account's passphrase
UnlockNeedsOwnPass == [][(last'.op = "unlockacct" /\ last'.res = "SUCCEEDED" /\ last'.a \notin unlocked) => last'.p = passOf[last'.a]]_vars
=============================================================================

-------------------------------- MODULE LockSim --------------------------------
(* LockState with a history variable for `tlc -simulate`: every behaviour of length Depth is printed as one JSON line
   (operation, expected outcome, expected lock state after the step) and replayed on the real code through permdrv. *)
EXTENDS LockState, Json
CONSTANTS Depth
VARIABLE hist
simvars == <<vars, hist>>
SimInit == Init /\ hist = <<>>
Step == /\ Len(hist) < Depth
        /\ Next
        \* steering only (which behaviours are printed, not what they may do): mostly the permitted client, few restarts
        /\ (Len(hist) % 4 # 0) => (last'.c \in Allowed \/ last'.op = "restart")
        /\ (last'.op = "restart") => (Len(hist) % 5 = 4)
        /\ hist' = Append(hist, [op |-> last'.op, a |-> last'.a, p |-> last'.p, res |-> last'.res,
                                 c |-> last'.c,
                                 unlocked |-> unlocked', wunlocked |-> wunlocked', exists |-> exists'])
Flush == /\ Len(hist) = Depth
         /\ PrintT(<<"HIST", ToJson(hist)>>)
         /\ hist' = <<>>
         /\ exists' = Initial /\ passOf' = PassOf0 /\ unlocked' = {} /\ opened' = {} /\ wunlocked' = FALSE
         /\ nsig' = [a \in Names |-> 0] /\ last' = [op |-> "start", c |-> "", a |-> "", p |-> "", res |-> "SUCCEEDED"]
SimNext == Step \/ Flush
SimSpec == SimInit /\ [][SimNext]_simvars
=============================================================================

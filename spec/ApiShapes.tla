-------------------------------- MODULE ApiShapes --------------------------------
(***************************************************************************)
(* C20: the wire messages of the client-facing services, abstracted to     *)
(* FIELD-SHAPE CLASSES.  For every method the fields and the shape classes *)
(* of each field are listed; TLC writes, per method, the field domains,    *)
(* the number of full combinations and the set of all value PAIRS that a   *)
(* pairwise-complete test set has to cover.  The harness concretises each  *)
(* abstract message (seeded byte fillings), sends it over a real TLS       *)
(* connection from an authenticated client and checks that the daemon      *)
(* still answers.  The only invariant is "alive": the daemon neither dies  *)
(* nor stops answering (another client's listing AND signing request are   *)
(* answered afterwards); the caller gets a response or an error.           *)
(***************************************************************************)
EXTENDS Integers, Sequences, FiniteSets, TLC, Json
CONSTANTS OutFile

Bytes == {"absent", "empty", "len1", "len3", "len4", "len31", "len32", "len33", "len1000", "len100000"}
Roots == {"absent", "len1", "len31", "len32", "len33", "len1000"}
Id == {"none", "acct-empty", "acct-wallet-only", "acct-valid", "acct-unknown", "acct-unknown-wallet", "acct-badregex", "acct-long",
       "key-valid", "key-len1", "key-len47", "key-len49", "key-unknown", "key-len1000",
       "acct-created", "key-created"}      \* an account created through Dirk earlier in the run (by name / by public key)
\* The same message classes are also sent CONCURRENTLY (phase 2 of the check): Streams request streams run next to a stream that keeps
\* creating accounts; "alive" is judged by a fresh client afterwards.
Streams == 32
U64 == {"0", "1", "2^63-1", "2^63", "2^64-1"}
U32 == {"0", "1", "2", "3", "2^32-1"}
Count == {"0", "1", "2", "17", "300"}
Presence == {"absent", "present"}
PathShape == {"empty", "wallet", "wallet-slash", "slash", "slash-acct", "badregex", "unclosed-group", "long", "unknown", "dotstar", "unicode", "two-slashes",
              "fresh-acct"}      \* an account expression the daemon has never been sent before (a new one every time)
Str == {"empty", "wallet-only", "valid", "unknown", "no-wallet", "badregex", "long", "unicode", "exists",
        "underscore"}    \* an account name the wallet refuses only when the account is STORED (after the whole key exchange of a distributed
                         \* Generate).  Distributed Generate requests are also sent to a cluster of three real instances, where the exchange runs.
\* content classes of a passphrase (the length class is a separate field): random bytes, all zero, all 0xff, printable, and text
\* mixing invalid UTF-8 with combining marks (passphrases are Unicode-normalised by the keystore encryptor)
Fill == {"random", "zeros", "ones", "ascii", "combining"}
\* a caller's patience: the request's deadline travels on the wire (grpc-timeout); when it expires the server cancels the handler's
\* context wherever the handler happens to be.  "gone-*" callers give up after 5 / 40 ms.
Patience == {"patient", "gone-5ms", "gone-40ms"}
\* state of the addressed start-up account when the request arrives: as the run left it, or locked just before (the request then has
\* to open it through the unlocker - some 50 ms of keystore decryption during which an impatient caller is gone)
AcctState == {"as-is", "locked"}
DomainT == {"absent", "empty", "len1", "len3", "att", "prop", "exit", "randao", "att-len31", "att-len33", "len1000"}

Fields == [
  Sign          |-> [id |-> Id, domain |-> DomainT, data |-> Bytes, patience |-> Patience, acct |-> AcctState],
  Multisign     |-> [count |-> Count, id |-> Id, domain |-> DomainT, data |-> Bytes, mix |-> {"same", "alternate-empty"},
                     patience |-> Patience, acct |-> AcctState],
  Attestation   |-> [id |-> Id, domain |-> DomainT, data |-> Presence, slot |-> U64, index |-> U64, bbr |-> Roots, source |-> Presence, sepoch |-> U64,
                     sroot |-> Roots, target |-> Presence, tepoch |-> U64, troot |-> Roots, patience |-> Patience, acct |-> AcctState],
  Attestations  |-> [count |-> Count, id |-> Id, domain |-> DomainT, data |-> Presence, sepoch |-> U64, tepoch |-> U64, bbr |-> Roots, source |-> Presence,
                     target |-> Presence, sroot |-> Roots, mix |-> {"same", "alternate-empty", "same-account"}, patience |-> Patience, acct |-> AcctState],
  Proposal      |-> [id |-> Id, domain |-> DomainT, data |-> Presence, slot |-> U64, proposer |-> U64, parent |-> Roots, state |-> Roots, body |-> Roots,
                     patience |-> Patience, acct |-> AcctState],
  List          |-> [count |-> Count, path |-> PathShape, mix |-> {"same", "distinct", "with-valid"}],   \* with-valid: every other path names an accessible wallet
  Generate      |-> [account |-> Str, passphrase |-> Bytes, fill |-> Fill, participants |-> U32, threshold |-> U32],
  LockAccount   |-> [account |-> Str],
  UnlockAccount |-> [account |-> Str, passphrase |-> Bytes, fill |-> Fill],
  LockWallet    |-> [wallet |-> Str],
  UnlockWallet  |-> [wallet |-> Str, passphrase |-> Bytes, fill |-> Fill],
  DkgPrepare    |-> [caller |-> {"client", "unknown"}, account |-> Str, threshold |-> U32, nparticipants |-> Count],
  DkgExecute    |-> [caller |-> {"client", "unknown"}, account |-> Str],
  DkgCommit     |-> [caller |-> {"client", "unknown"}, account |-> Str, confirmation |-> Bytes],
  DkgAbort      |-> [caller |-> {"client", "unknown"}, account |-> Str],
  DkgContribute |-> [caller |-> {"client", "unknown"}, account |-> Str, secret |-> Bytes, vveccount |-> Count]
]
Methods == DOMAIN Fields
RECURSIVE Prod(_, _)
Prod(f, names) == IF names = {} THEN 1 ELSE LET n == CHOOSE x \in names : TRUE IN Cardinality(f[n]) * Prod(f, names \ {n})
Combos(m) == Prod(Fields[m], DOMAIN Fields[m])
Pairs(m) == {[f1 |-> a, v1 |-> x, f2 |-> b, v2 |-> y] : a \in DOMAIN Fields[m], b \in DOMAIN Fields[m], x \in UNION {Fields[m][z] : z \in DOMAIN Fields[m]}, y \in UNION {Fields[m][z] : z \in DOMAIN Fields[m]}}
PairsOK(m) == {p \in Pairs(m) : p.f1 # p.f2 /\ p.v1 \in Fields[m][p.f1] /\ p.v2 \in Fields[m][p.f2]}

ASSUME JsonSerialize(OutFile, [methods |-> [m \in Methods |-> [fields |-> Fields[m], combos |-> Combos(m), npairs |-> Cardinality(PairsOK(m)) \div 2]]])
VARIABLE x
Init == x = 0
Next == UNCHANGED x
Spec == Init /\ [][Next]_x
=============================================================================

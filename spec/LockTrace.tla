------------------------------- MODULE LockTrace -------------------------------
(***************************************************************************)
(* Recorded runs of lock / unlock / sign / create / restart operations      *)
(* through the real handlers (permdrv), read in two ways:                  *)
(*                                                                         *)
(* layer D (SpecD, DRIFT): every Op line is the LockState action with the  *)
(*   logged arguments; the logged outcome, the logged set of unlocked      *)
(*   accounts, the wallet's state and the set of existing accounts must    *)
(*   be the action's.  LockState is deterministic, so acceptance of the    *)
(*   whole trace IS conformance.                                           *)
(* layer P (SpecP, verdict for C06's clause "a locked account that no      *)
(*   configured passphrase opens yields no signature", and for "a refused  *)
(*   request changes nothing"): independent of LockState's transition      *)
(*   structure - from the logged lines alone it tracks which accounts have *)
(*   been opened WITH THEIR OWN passphrase (by a client or by the          *)
(*   unlocker's list) since the last restart:                              *)
(*     NoSigUnopened  : a signature comes only from such an account        *)
(*     RefusedNoChange: a refused operation leaves the lock state as it was*)
(***************************************************************************)
EXTENDS LockState, Json
CONSTANTS TraceFile
Trace == ndJsonDeserialize(TraceFile)
VARIABLES l, rightly, prevU, prevW, bad
Ev == Trace[l]
SetOf(s) == {s[i] : i \in 1 .. Len(s)}

(* ---------------- layer D ---------------- *)
dvars == <<vars, l>>
DInit == Init /\ l = 1 /\ rightly = {} /\ prevU = {} /\ prevW = FALSE /\ bad = {} /\ TLCSet(1, 1)
DBegin == /\ l <= Len(Trace) /\ Ev.ev = "Begin" /\ l' = l + 1
          /\ exists' = Initial /\ passOf' = PassOf0 /\ unlocked' = {} /\ opened' = {} /\ wunlocked' = FALSE
          /\ nsig' = [a \in Names |-> 0] /\ last' = [op |-> "start", c |-> "", a |-> "", p |-> "", res |-> "SUCCEEDED"]
DOp == /\ l <= Len(Trace) /\ Ev.ev = "Op" /\ l' = l + 1
       /\ CASE Ev.op = "sign" -> Sign(Ev.c, Ev.a)
            [] Ev.op = "unlockacct" -> UnlockAcct(Ev.c, Ev.a, Ev.p)
            [] Ev.op = "lockacct" -> LockAcct(Ev.c, Ev.a)
            [] Ev.op = "lockwallet" -> LockWallet(Ev.c)
            [] Ev.op = "unlockwallet" -> UnlockWallet(Ev.c, Ev.p)
            [] Ev.op = "create" -> Create(Ev.c, Ev.a, Ev.p)
            [] Ev.op = "restart" -> Restart
       /\ last'.res = Ev.res
       /\ unlocked' = SetOf(Ev.unlocked) /\ wunlocked' = Ev.wunlocked /\ exists' = SetOf(Ev.exists)
DNext == (DBegin \/ DOp) /\ UNCHANGED <<rightly, prevU, prevW, bad>>
SpecD == DInit /\ [][DNext]_<<dvars, rightly, prevU, prevW, bad>>

(* ---------------- layer P ---------------- *)
pvars == <<l, rightly, prevU, prevW, bad>>
PInit == Init /\ l = 1 /\ rightly = {} /\ prevU = {} /\ prevW = FALSE /\ bad = {} /\ TLCSet(1, 1)
PBegin == /\ l <= Len(Trace) /\ Ev.ev = "Begin" /\ l' = l + 1
          /\ rightly' = {} /\ prevU' = {} /\ prevW' = FALSE /\ UNCHANGED bad
\* the passphrase of an account as the run's configuration states it (Begin line of the scenario: pass map)
POp == /\ l <= Len(Trace) /\ Ev.ev = "Op" /\ l' = l + 1
       /\ LET ok == Ev.res = "SUCCEEDED"
              own == Ev.a \in DOMAIN Ev.passes /\ Ev.op = "unlockacct" /\ ok /\ Ev.p = Ev.passes[Ev.a]
              byUnlocker == Ev.a \in DOMAIN Ev.passes /\ Ev.passes[Ev.a] \in Known
          IN /\ rightly' = IF Ev.op = "restart" THEN {}
                           ELSE IF own \/ (Ev.op = "sign" /\ ok /\ byUnlocker) THEN rightly \cup {Ev.a} ELSE rightly
             /\ bad' = bad \cup (IF Ev.op = "sign" /\ ok /\ Ev.a \notin rightly /\ ~byUnlocker THEN {<<"sig-unopened", l>>} ELSE {})
                           \cup (IF ~ok /\ (SetOf(Ev.unlocked) # prevU \/ Ev.wunlocked # prevW) THEN {<<"refused-changed", l>>} ELSE {})
       /\ prevU' = SetOf(Ev.unlocked) /\ prevW' = Ev.wunlocked
PNext == (PBegin \/ POp) /\ UNCHANGED vars
SpecP == PInit /\ [][PNext]_<<pvars, vars>>

HighWater == TLCSet(1, IF l > TLCGet(1) THEN l ELSE TLCGet(1))
Accepted == TLCGet(1) = Len(Trace) + 1
NoSigUnopened == \A b \in bad : b[1] # "sig-unopened"
RefusedNoChange == \A b \in bad : b[1] # "refused-changed"
=============================================================================

-------------------------------- MODULE Cluster --------------------------------
(***************************************************************************)
(* C14: an account distributed over N instances with threshold T.  Each    *)
(* instance applies the slashing rule atomically to its own record         *)
(* (SignerAtomic: what C01/C02/C04 establish per instance): it gives a     *)
(* partial signature for a duty iff it has not given one for the           *)
(* conflicting duty.  A client routes two conflicting duties A and B to    *)
(* the instances in any order, with repeats.  Invariant: A and B never     *)
(* both collect T partial signatures - for every (N, T) the generation     *)
(* accepts.  Design mutants: ThresholdMode (geHalf: T = N/2 accepted),     *)
(* SplitHistory (an instance keeps separate records per endpoint, so a     *)
(* duty sent over the other endpoint does not see the first one),          *)
(* OldResets (a request for an OLD duty O - below everything on record -    *)
(* wipes the instance's record instead of being refused without effect),   *)
(* FaultMode (an instance whose storage fails while it handles a request:  *)
(* shipped "closed" = no partial signature, record untouched; "readOpen" = *)
(* a record that cannot be read counts as "nothing on record"; "writeOpen" *)
(* = the signature is given although the record could not be written).     *)
(***************************************************************************)
EXTENDS Integers, FiniteSets, TLC, Json

CONSTANTS N, T, ThresholdMode, SplitHistory, OldResets, FaultMode, OutFile

I == 1 .. N
Duties == {"A", "B"}
Endpoints == {"single", "batch"}
Other(d) == IF d = "A" THEN "B" ELSE "A"
Accepted == CASE ThresholdMode = "gtHalf" -> 2 * T > N /\ T <= N
              [] ThresholdMode = "geHalf" -> 2 * T >= N /\ T <= N
              [] OTHER -> T >= 1 /\ T <= N

VARIABLES signed,   \* [I -> SUBSET (Duties \X Endpoints)]  what each instance has ON RECORD
          given     \* [I -> SUBSET (Duties \X Endpoints)]  the partial signatures each instance has given (history)
vars == <<signed, given>>

Init == signed = [i \in I |-> {}] /\ given = [i \in I |-> {}]

\* the record an instance consults for a request over endpoint e
Seen(i, e) == IF SplitHistory THEN {x \in signed[i] : x[2] = e} ELSE signed[i]
Request(i, d, e) ==
    /\ Accepted
    /\ \A x \in Seen(i, e) : x[1] # Other(d)       \* refused if the conflicting duty is on record
    /\ signed' = [signed EXCEPT ![i] = @ \cup {<<d, e>>}]
    /\ given' = [given EXCEPT ![i] = @ \cup {<<d, e>>}]
\* an old duty (lower than anything the instance has on record): refused, and it leaves the record alone
RequestOld(i) ==
    /\ Accepted
    /\ signed' = IF OldResets THEN [signed EXCEPT ![i] = {}] ELSE signed
    /\ UNCHANGED given
\* the instance's storage fails while it handles the request: f = "read" (the record cannot be read) or "write" (the new
\* record cannot be written).  Shipped: the request fails, no partial signature, the record is what it was.
Faults == {"read", "write"}
RequestFault(i, d, e, f) ==
    /\ Accepted
    /\ IF f = "read" /\ FaultMode = "readOpen"
         THEN /\ signed' = [signed EXCEPT ![i] = @ \cup {<<d, e>>}]
              /\ given' = [given EXCEPT ![i] = @ \cup {<<d, e>>}]
         ELSE IF f = "write" /\ FaultMode = "writeOpen" /\ (\A x \in Seen(i, e) : x[1] # Other(d))
         THEN /\ given' = [given EXCEPT ![i] = @ \cup {<<d, e>>}]
              /\ UNCHANGED signed
         ELSE UNCHANGED vars
Next == \/ \E i \in I, d \in Duties, e \in Endpoints : Request(i, d, e)
        \/ \E i \in I : RequestOld(i)
        \/ \E i \in I, d \in Duties, e \in Endpoints, f \in Faults : RequestFault(i, d, e, f)
Spec == Init /\ [][Next]_vars

\* partial signatures once given stay given (the record may be wiped by a mutant, the signature is out)
Partials(d) == {i \in I : \E e \in Endpoints : <<d, e>> \in given[i]}
NotBothThreshold == ~(Cardinality(Partials("A")) >= T /\ Cardinality(Partials("B")) >= T)

\* every routing of the two duties: per instance one of eleven request orders (O = an old duty in between; a / b = the duty
\* arrives while the instance's storage cannot be READ; x / y = duty A / B arrives while the record cannot be WRITTEN) (used for the replay)
Orders == {"AB", "BA", "A", "B", "-", "AOB", "BOA", "Ab", "Ba", "xB", "yA"}
Routings == [I -> Orders]
=============================================================================

-------------------------------- MODULE Cluster --------------------------------
(***************************************************************************)
(* C14: an account distributed over N instances with threshold T.  Each    *)
(* instance applies the slashing rule atomically to its own record         *)
(* (SignerAtomic: what C01/C02/C04 establish per instance): it gives a     *)
(* partial signature for a duty iff it has not given one for the           *)
(* conflicting duty.  A client routes two conflicting duties A and B to    *)
(* the instances in any order, with repeats.  Invariant: A and B never     *)
(* both collect T partial signatures - for every (N, T) the generation     *)
(* accepts.  Design mutants: ThresholdMode (geHalf: T = N/2 accepted),     *)
(* SplitHistory (an instance keeps separate records per endpoint, so a     *)
(* duty sent over the other endpoint does not see the first one).          *)
(***************************************************************************)
EXTENDS Integers, FiniteSets, TLC, Json

CONSTANTS N, T, ThresholdMode, SplitHistory, OutFile

I == 1 .. N
Duties == {"A", "B"}
Endpoints == {"single", "batch"}
Other(d) == IF d = "A" THEN "B" ELSE "A"
Accepted == CASE ThresholdMode = "gtHalf" -> 2 * T > N /\ T <= N
              [] ThresholdMode = "geHalf" -> 2 * T >= N /\ T <= N
              [] OTHER -> T >= 1 /\ T <= N

VARIABLES signed    \* [I -> SUBSET (Duties \X Endpoints)]  what each instance has given a partial signature for
vars == <<signed>>

Init == signed = [i \in I |-> {}]

\* the record an instance consults for a request over endpoint e
Seen(i, e) == IF SplitHistory THEN {x \in signed[i] : x[2] = e} ELSE signed[i]
Request(i, d, e) ==
    /\ Accepted
    /\ \A x \in Seen(i, e) : x[1] # Other(d)       \* refused if the conflicting duty is on record
    /\ signed' = [signed EXCEPT ![i] = @ \cup {<<d, e>>}]
Next == \E i \in I, d \in Duties, e \in Endpoints : Request(i, d, e)
Spec == Init /\ [][Next]_vars

Partials(d) == {i \in I : \E e \in Endpoints : <<d, e>> \in signed[i]}
NotBothThreshold == ~(Cardinality(Partials("A")) >= T /\ Cardinality(Partials("B")) >= T)

\* every routing of the two duties: per instance one of five request orders (used for the replay)
Orders == {"AB", "BA", "A", "B", "-"}
Routings == [I -> Orders]
=============================================================================

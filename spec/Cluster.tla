-------------------------------- MODULE Cluster --------------------------------
(***************************************************************************)
(* C14: an account distributed over N instances with threshold T.  Each    *)
(* instance applies the slashing rule atomically to its own record         *)
(* (SignerAtomic: what C01/C02/C04 establish per instance): it gives a     *)
(* partial signature for a duty iff it has not given one for the           *)
(* conflicting duty.  A client routes two conflicting duties A and B to    *)
(* the instances in any order, with repeats.  Invariant: A and B never     *)
(* both collect T partial signatures - for every (N, T) the generation     *)
(* accepts.  Design mutants: ThresholdMode (geHalf: T = N/2 accepted),     *)
(* SplitHistory (an instance keeps separate records per endpoint, so a     *)
(* duty sent over the other endpoint does not see the first one),          *)
(* OldResets (a request for an OLD duty O - below everything on record -    *)
(* wipes the instance's record instead of being refused without effect).   *)
(***************************************************************************)
EXTENDS Integers, FiniteSets, TLC, Json

CONSTANTS N, T, ThresholdMode, SplitHistory, OldResets, OutFile

I == 1 .. N
Duties == {"A", "B"}
Endpoints == {"single", "batch"}
Other(d) == IF d = "A" THEN "B" ELSE "A"
Accepted == CASE ThresholdMode = "gtHalf" -> 2 * T > N /\ T <= N
              [] ThresholdMode = "geHalf" -> 2 * T >= N /\ T <= N
              [] OTHER -> T >= 1 /\ T <= N

VARIABLES signed,   \* [I -> SUBSET (Duties \X Endpoints)]  what each instance has ON RECORD
          given     \* [I -> SUBSET (Duties \X Endpoints)]  the partial signatures each instance has given (history)
vars == <<signed, given>>

Init == signed = [i \in I |-> {}] /\ given = [i \in I |-> {}]

\* the record an instance consults for a request over endpoint e
Seen(i, e) == IF SplitHistory THEN {x \in signed[i] : x[2] = e} ELSE signed[i]
Request(i, d, e) ==
    /\ Accepted
    /\ \A x \in Seen(i, e) : x[1] # Other(d)       \* refused if the conflicting duty is on record
    /\ signed' = [signed EXCEPT ![i] = @ \cup {<<d, e>>}]
    /\ given' = [given EXCEPT ![i] = @ \cup {<<d, e>>}]
\* an old duty (lower than anything the instance has on record): refused, and it leaves the record alone
RequestOld(i) ==
    /\ Accepted
    /\ signed' = IF OldResets THEN [signed EXCEPT ![i] = {}] ELSE signed
    /\ UNCHANGED given
Next == \/ \E i \in I, d \in Duties, e \in Endpoints : Request(i, d, e)
        \/ \E i \in I : RequestOld(i)
Spec == Init /\ [][Next]_vars

\* partial signatures once given stay given (the record may be wiped by a mutant, the signature is out)
Partials(d) == {i \in I : \E e \in Endpoints : <<d, e>> \in given[i]}
NotBothThreshold == ~(Cardinality(Partials("A")) >= T /\ Cardinality(Partials("B")) >= T)

\* every routing of the two duties: per instance one of seven request orders (O = an old duty in between) (used for the replay)
Orders == {"AB", "BA", "A", "B", "-", "AOB", "BOA"}
Routings == [I -> Orders]
=============================================================================

---------------------------- MODULE InterchangeSim ----------------------------
(* Case generation for the interchange replay: every finished import is printed as JSON and the model starts over. *)
EXTENDS Interchange, Json
Flush == /\ phase \in {"imported", "rejected", "failed"}
         /\ PrintT(<<"CASE", ToJson([before |-> before, file |-> file, meta |-> meta, phase |-> phase, after |-> db])>>)
         /\ db' \in {d \in [s : {-1} \cup V, t : {-1} \cup V, ps : {-1} \cup V] : (d.s = -1) = (d.t = -1)}
         /\ before' = db'
         /\ file' = <<>> /\ phase' = "build"
         /\ meta' \in {"ok", "badversion", "badroot", "badnumber", "unstorable"}
SimNext == Next \/ Flush
SimSpec == Init /\ [][SimNext]_vars
=============================================================================

----------------------------- MODULE SlashSeqSim -----------------------------
(***************************************************************************)
(* SlashSeq with a history variable, for behaviour generation under        *)
(* `tlc -simulate`: every behaviour of length Depth is printed as one JSON *)
(* line (operation, expected verdict and expected record after each step)  *)
(* and replayed on the real code by the harness.                           *)
(***************************************************************************)
EXTENDS SlashSeq, Json

CONSTANTS Depth
VARIABLE hist
simvars == <<vars, hist>>

SimInit == Init /\ hist = <<>>

\* Steps at even positions are restricted to approved requests when one exists, so that behaviours
\* contain several releases; steps at odd positions are arbitrary requests (mostly refused).
AnyApprovable ==
    \/ \E s, t \in E : AttVerdict([s |-> db.s, t |-> db.t], s, t, "att") = "APPROVED" /\ "att" \in Kinds
    \/ \E slot \in E : PropVerdict(db.ps, slot, "prop") = "APPROVED" /\ "prop" \in Kinds
Wanted(v) == (Len(hist) % 2 = 0 /\ AnyApprovable) => v = "APPROVED"

Step ==
    /\ Len(hist) < Depth
    /\ \/ \E s, t \in E, root \in Roots, dom \in AttDoms, by \in {"name", "key", "keypad"} :
            /\ Wanted(AttVerdict([s |-> db.s, t |-> db.t], s, t, dom))
            /\ Att(s, t, root, dom)
            /\ hist' = Append(hist, [op |-> "att", s |-> s, t |-> t, root |-> root, dom |-> dom, by |-> by,
                                     v |-> AttVerdict([s |-> db.s, t |-> db.t], s, t, dom), db |-> db'])
       \/ \E slot \in E, root \in Roots, dom \in PropDoms, by \in {"name", "key", "keypad"} :
            /\ Wanted(PropVerdict(db.ps, slot, dom))
            /\ Prop(slot, root, dom)
            /\ hist' = Append(hist, [op |-> "prop", slot |-> slot, root |-> root, dom |-> dom, by |-> by,
                                     v |-> PropVerdict(db.ps, slot, dom), db |-> db'])
       \/ /\ Len(hist) % 2 = 1
          /\ UNCHANGED vars
          /\ hist' = Append(hist, [op |-> "restart", db |-> db])

\* At length Depth the behaviour is printed (once: this is the state's only successor) and the
\* model starts over, so one long simulation run yields many behaviours.
Flush ==
    /\ Len(hist) = Depth
    /\ PrintT(<<"HIST", ToJson(hist)>>)
    /\ hist' = <<>>
    /\ db' = [s |-> -1, t |-> -1, ps |-> -1]
    /\ wa1' = NoA /\ wa2' = NoA /\ wp1' = NoP /\ wp2' = NoP
    /\ mrs' = -1 /\ mrt' = -1 /\ mrp' = -1

SimNext == Step \/ Flush
SimSpec == SimInit /\ [][SimNext]_simvars
=============================================================================
